"""C04 — identity map: one live instance per row per connection on every access path.

correspondence: op histories (create / get / select / alternate-id / unique-index / FK attribute /
MultipleJoin / RelatedJoin / dropRef / gc / cull (forced by a small cullFrequency) / expire /
expireAll / destroySelf / pickle / unpickle) are executed on the real code (in-memory SQLite,
cache=True and cache=False) and, op for op, on the Lean model driver (`drv_c04`).
oracle (does not involve the model): a harness-side map (class, id) -> the instance the application
currently holds; every access path must return that very object, a row that does not exist (raw
SELECT) must never be handed out, unpickling must not produce a second live instance.
"""
import gc
import time
import json
import os
import pickle
import weakref

from vlib import sqlo

PROP = 'C04'
KNOWN_WITNESSES = {
    # key -> (cfg, history)   cfg = (doCache, cullFrequency, cullFraction)
    'C04:expire-then-get': ((1, 100, 2), [('create', 'P', None), ('expire', 'P', 1, 0), ('get', 'P', 1)]),
    'C04:expireAll-then-get': ((1, 100, 2), [('create', 'P', None), ('expireAll',), ('get', 'P', 1)]),
    'C04:pickle-then-destroy-then-unpickle': ((1, 100, 2), [('create', 'P', None), ('pickle', 'P', 1, 0),
                                                            ('destroy', 'P', 1, 0), ('unpickle', 'P', 1, 0)]),
    'C04:destroy-then-pickle-then-unpickle': ((1, 100, 2), [('create', 'P', None), ('destroy', 'P', 1, 0),
                                                            ('pickle', 'P', 1, 0), ('unpickle', 'P', 1, 0)]),
}
META = {
    'extractors': ['cache', 'pycache', 'pyget'],
    'technique': ('Lean 4 proof (state-machine invariants preserved by every step, lifted to every history by '
                  'induction over the op list) + extracted CacheFactory defaults + every CacheFactory method TRANSLATED from '
                  'cache.py into a deep embedding (PyCache) and proved equal to the model function by symbolic execution '
                  '(C04_translated_*_eq_model) + differential correspondence on op histories'),
    'level_text': ('Theorems over the executable model Model/Cache.lean of cache.py + the SQLObject life cycle '
                   '(get/put/finishPut, created, cull, expire, expireAll, destroySelf, __getstate__/__setstate__), for every history, '
                   'every cullFrequency / cullFraction, doCache on and off, refcounting or deferred collection: '
                   'C04_identity_partial / C04_get_returns_live / C04_unpickle_no_dup / C04_deleted_never_returned_partial for '
                   'histories that never detach a held instance (obj.expire(), connection.expireAll()), never unpickle a '
                   'deleted row and never destroy an instance twice; '
                   'the full statements are refuted by concrete witnesses (C04_*_full_FALSE) that this harness replays on the real code. '
                   'The CacheFactory part of the model (tryGet, get = lookupCache . tick, put, finishPut, created, cull, expire, '
                   'expireAll) is not only hand-written: vlib/extractors/pycache.py translates the method bodies from the AST on every '
                   'run and C04_translated_<method>_eq_model proves, for all states (representation invariant Rep: the association lists '
                   'have distinct keys, strongly cached objects are alive; cullFraction != 0), that running the translated method '
                   'yields the image of what the model function yields. '
                   'The CALLER layer is translated as well (vlib/extractors/pyget.py -> PyGet deep embedding, Model/GetX.lean): '
                   'SQLObject.get / _init / _SO_finishCreate / expire / __getstate__ / __setstate__ / _SO_fetchAlternateID / '
                   '_SO_foreignKey, the tail of destroySelf, Iteration.next and the CacheSet methods; a call of a CacheFactory method '
                   'runs the translated PyCache program. C04_translated_sqlobject_get_exact / _eq_model (hit returns the cached object; '
                   'miss on an existing row builds one instance under put/finishPut; miss on a missing row raises NotFound with caches '
                   'and lock restored), C04_translated_finishCreate / destroy_tail / instance_expire / getstate / setstate / alternate / '
                   'iteration / foreignKey _eq_model, C04_translated_cacheSet_* (class-name keyed dispatch, per-class factories) hold for '
                   'all worlds under the stated hypotheses; the headline theorems are restated about the translated source '
                   '(C04_translated_identity / _get_returns_live / _deleted_never_returned_partial / _unpickle_no_dup, and the '
                   'C04_translated_setstate_deleted_row_full_FALSE witness). Also translated and proved: the CacheSet methods that loop '
                   'over all factories (C04_translated_cacheSet_loops_eq_model: weakrefAll = the model function, clear / getAll / '
                   'allSubCaches* unrolled over the factories in dict order, allIDs(cls) as written), SQLObject.delete, '
                   'connection.expireAll (C04_translated_connection_expireAll_eq_model), and the CacheSet part of C07\'s assumed interface '
                   '(C04_translated_cacheSet_allIDs_is_inAllIDs / _tryGetByName_is_connTryGet: AllIDsSpec and Conn.tryGet of '
                   'Model/Tx.lean hold of the translated methods); connection.expireAll = the model\'s expireAll step itself '
                   '(C04_translated_connection_expireAll_eq_model_step, via C04_expire_order_irrelevant), sqlmeta.expireAll '
                   '(C04_translated_meta_expireAll_eq_model), and the expire-then-get finding restated on the translated source '
                   '(C04_translated_expire_then_get_full_FALSE).'),
    'level_note': ('Trusted: Lean kernel; the hand-written model of cache.py/main.py, tied to the code by the op-history '
                   'correspondence (sampling); CPython reference counting / weakref / pickle / SQLite are modelled, not verified.'),
    'rule': ('case = (doCache, cullFrequency, cullFraction, op history); guarded stream (no detaching expire, no unpickle of a deleted row; plus a stream with falsy row objects: '
             'the oracle must hold) and free stream (every op at any time: oracle failures are shrunk and keyed by their minimal shape); '
             'further guarded streams: id-forms (explicit ids / get arguments in the non-canonical type: text for an int key, int for a '
             'str key; a class with idType=str), explicit-connection (classes bound to connection A, every access with connection=B), '
             'inheritance (oracle only: V/Car/Truck family + ForeignKey to the root, default and explicit connection); '
             'non-default connections (oracle only: a transaction, rolled back or committed, and a second connection object on the '
             'same database, cache on/off: get / byName / eager select / lazyColumns select / foreign key / join on THAT connection '
             'hand out its own instances, one per row, never the default connection\'s; every access path of the default connection, '
             'lazyColumns select included, keeps returning the held ones); '
             'distinct = distinct (cfg, history); non-trivial = the history has at least one cache hit on a held object, cull or gc'),
    'trusted': ['the reference semantics of the Python fragment the callers are written in (lean/SqlObjVerif/Model/PyGet.lean), the AST '
                'translator vlib/extractors/pyget.py, and the interface instantiation stated in the header of Model/GetX.lean: one '
                'connection, injective class names, idType = identity on canonical ids, the database = the model table '
                '(_SO_selectOne / queryInsertID / _SO_delete / _findAlternateID / cursor.fetchone), cls(_SO_fetch_no_create=1) allocates '
                'the next handle, _SO_selectInit and the listed opaque statements (validator state, _SO_createValues, delattr loop, '
                'signals, message building) change nothing the identity map sees',
                'the reference semantics of the Python fragment cache.py is written in (lean/SqlObjVerif/Model/PyCache.lean: dicts as '
                'insertion-ordered association lists, weakref liveness, lock as a held flag, try/except KeyError, try/finally, '
                'for over snapshot lists / range) and the AST translator vlib/extractors/pycache.py',
                'model of CPython reference counting: an object dies as soon as neither the application nor the strong cache '
                'refers to it (SQLObject instances are not in reference cycles; checked by the harness: deaths are fed to the '
                'model as gc ops and the model must agree that the object was collectable)',
                'SQLite AUTOINCREMENT id assignment (largest id ever used + 1), cross-checked on every create'],
    'modelled': ['weakref / garbage collector (explicit gc op; theorems hold for every gc schedule, refcounting on or off)',
                 'pickle (a snapshot (class, id, has-values) ; values are irrelevant for identity)',
                 'the database: per class the set of ids that exist; what a query returns is an input of the op '
                 '(select / join id lists, alternate-id hit) filtered by existence',
                 'sqlmeta.idType coercion of an id argument is the canonicalisation map of the op (the model sees the canonical id); '
                 'the oracle checks the type of instance.id and, on an explicit connection, instance._connection',
                 'the inheritance layer (InheritableSQLObject.get child/parent hops) is not in this model (C15): its identity is '
                 'checked by the oracle stream only',
                 'threads/locks are out of scope here (C09)'],
    'assumptions': ['C04_translated_*_eq_model: representation invariant Rep (distinct keys; strongly cached objects alive) — proved to hold in '
                    'every state a guarded history reaches (C04_translated_rep_reachable); where the model defers collection to its gc op '
                    '(expire, expireAll, an overwriting put/created) the dropped object is assumed not to die on the spot',
                    'cullFraction >= 1 (0 makes the real cull raise ZeroDivisionError; the model then culls one fixed stride, the theorems do not depend on it)',
                    'rows are deleted only through destroySelf on this connection (out-of-band SQL is C05/C07 matter)',
                    'no per-instance connection (such instances refuse to be pickled)'],
    'exhaustive': False,
}

CLASSES = ('P', 'K', 'F', 'S')
_envs = {}


_tmpdirs = []


def _scratch_db():
    """file-backed SQLite database for the worlds in which two connection objects must see one database"""
    import atexit
    import shutil
    import tempfile
    base = '/dev/shm' if os.path.isdir('/dev/shm') and os.access('/dev/shm', os.W_OK) else None
    d = tempfile.mkdtemp(prefix='verif_c04_', dir=base)
    _tmpdirs.append(d)
    atexit.register(shutil.rmtree, d, True)
    return os.path.join(d, 'c04.db')


def env(do_cache, explicit=False):
    """connection(s) + the row classes, per (doCache, explicit-connection) setting, reused for every history.
    explicit: the classes are bound to connection A, every access passes `connection=B` (a second connection
    object on the same database): the identity map under test is B's."""
    key = (do_cache, bool(explicit))
    if key in _envs:
        return _envs[key]
    sqlo.setup()
    from sqlobject import SQLObject, StringCol, IntCol, ForeignKey, MultipleJoin, RelatedJoin, DatabaseIndex
    if explicit:
        path = _scratch_db()
        conn = sqlo.file_conn(path, cache=bool(do_cache))
        other = sqlo.file_conn(path, cache=bool(do_cache))
        for c in (conn, other):
            c.query('PRAGMA synchronous=OFF')
    else:
        conn = sqlo.mem_conn(cache=bool(do_cache))
        other = conn
    tag = '%d%d' % (do_cache, 1 if explicit else 0)
    pname = sqlo.uniq('C04P')
    kname = sqlo.uniq('C04K')
    P = type(pname, (SQLObject,), {
        '_connection': conn,
        '__module__': __name__,
        'name': StringCol(alternateID=True),
        'kids': MultipleJoin(kname, joinColumn='p_id'),
        'rel': RelatedJoin(kname, intermediateTable='c04_link_' + tag, joinColumn='p_id', otherColumn='k_id'),
    })
    K = type(kname, (SQLObject,), {
        '_connection': conn,
        '__module__': __name__,
        'p': ForeignKey(pname, default=None),
        'code': IntCol(alternateID=True),
        'u': IntCol(),
        'uidx': DatabaseIndex('u', unique=True),
        'rel': RelatedJoin(pname, intermediateTable='c04_link_' + tag, joinColumn='k_id', otherColumn='p_id'),
    })
    # a row class whose instances are falsy (container protocol with length 0): nothing in the cache may
    # confuse "the object is falsy" with "the weak reference is dead"
    fname = sqlo.uniq('C04F')
    F = type(fname, (SQLObject,), {
        '_connection': conn,
        '__module__': __name__,
        'name': StringCol(alternateID=True),
        '__len__': lambda self: 0,
    })
    # a class with a string primary key (explicit ids only)
    sname = sqlo.uniq('C04S')
    S = type(sname, (SQLObject,), {
        '_connection': conn,
        '__module__': __name__,
        'sqlmeta': type('sqlmeta', (), {'idType': str}),
        'name': StringCol(alternateID=True),
    })
    # pickle looks classes up by module attribute
    for n, c in ((pname, P), (kname, K), (fname, F), (sname, S)):
        globals()[n] = c
        c.createTable()
    e = {'conn': conn, 'c': other, 'ckw': ({'connection': other} if explicit else {}), 'explicit': bool(explicit),
         'P': P, 'K': K, 'F': F, 'S': S, 'link': 'c04_link_' + tag,
         'tables': {'P': P.sqlmeta.table, 'K': K.sqlmeta.table, 'F': F.sqlmeta.table, 'S': S.sqlmeta.table}}
    _envs[key] = e
    return e


def id_num(i):
    """ops carry ids as n (canonical form for the class) or '~n' (the other, non-canonical form: the text
    'n' for an int key, the int n for a str key); the model sees n"""
    return int(i[1:]) if isinstance(i, str) else i


def id_arg(cls, i):
    """the Python value passed to the real code for op id `i` of class `cls`"""
    n = id_num(i)
    canonical_is_str = (cls == 'S')
    if isinstance(i, str):       # non-canonical form
        return n if canonical_is_str else str(n)
    return str(n) if canonical_is_str else n


def id_sql(cls, n):
    return "'%d'" % n if cls == 'S' else '%d' % n


def fk_of(i):
    """FK value of child row i (a function of the id, so that cached and stored values always agree)"""
    return None if i % 4 == 0 else (i % 3) + 1


def link_of(i):
    """parent the child row i is linked to through the RelatedJoin table (None: no link)"""
    return None if i % 3 == 0 else (i % 2) + 1


class World(object):
    """executes one history on the real code, evaluates the oracle, emits the model's request lines"""

    def __init__(self, cfg):
        sqlo.setup()
        from sqlobject.cache import CacheSet
        self.cfg = cfg
        do_cache, freq, frac = cfg[:3]
        self.explicit = len(cfg) > 3 and bool(cfg[3])
        self.e = env(do_cache, self.explicit)
        conn = self.e['c']          # the connection whose identity map is under test
        self.conn = conn
        self.ckw = self.e['ckw']
        for t in list(self.e['tables'].values()) + [self.e['link']]:
            conn.query('DELETE FROM %s' % t)
        conn.query('DELETE FROM sqlite_sequence')
        conn.cache = CacheSet(cache=bool(do_cache), cullFrequency=freq, cullFraction=frac)
        if self.explicit:
            self.e['conn'].cache = CacheSet(cache=bool(do_cache), cullFrequency=freq, cullFraction=frac)
        self.held = {}        # slot -> instance (the application's references)
        self.slot_by_obj = {}  # id(instance) -> slot, for held instances
        self.wr = {}          # slot -> weakref (every slot ever handed out)
        self.info = {}        # slot -> (cls, id)
        self.dead_reported = set()
        self.nslots = 0
        self.pickles = []     # (bytes, cls, id)
        self.rows = {'P': set(), 'K': set(), 'F': set(), 'S': set()}   # generator's shadow (NOT used by the oracle)
        self.maxid = {'P': 0, 'K': 0, 'F': 0, 'S': 0}
        self.current = {}     # oracle: (cls, id) -> slot of the instance the application holds for that row
        self.fails = []       # oracle failures: (kind, text)
        self.lines = []       # model request lines
        self.outs = []        # implementation answers, aligned with lines
        self.kinds = []       # op kind per line
        self.flags = set()    # coverage facts: 'hit-held', 'gc', ...
        self.lines.append('reset %d %d %d' % tuple(cfg[:3]))
        self.outs.append('ok')
        self.kinds.append('reset')

    # ---------------------------------------------------------------- helpers
    def row_exists(self, cls, i):
        """independent of sqlobject's object layer: raw SELECT"""
        r = self.conn.queryOne('SELECT id FROM %s WHERE id = %s' % (self.e['tables'][cls], id_sql(cls, i)))
        return r is not None

    def resolve(self, cls, i, j):
        """the j-th instance (in slot order) of row (cls, i) the application holds; None if there is none"""
        slots = sorted(s for s, ci in self.info.items() if ci == (cls, i) and s in self.held)
        if j < len(slots):
            return slots[j]
        return None

    def fail(self, kind, text):
        self.fails.append((kind, text))

    def take(self, obj, cls, path):
        """the application receives `obj` from an access path: oracle + slot bookkeeping; returns the slot"""
        want_type = str if cls == 'S' else int
        if type(obj.id) is not want_type:
            self.fail('idtype', '%s returned a %s instance whose id is %r, not a %s'
                      % (path, cls, obj.id, want_type.__name__))
        i = int(obj.id)
        key = (cls, i)
        if self.explicit and obj._connection is not self.conn:
            self.fail('wrongconn', '%s on an explicit connection returned a %s instance bound to another connection'
                      % (path, cls))
        exists = self.row_exists(cls, i)
        if not exists or obj.sqlmeta._obsolete:
            self.fail('deleted', '%s handed out %s id %d although the row %s'
                      % (path, cls, i, 'was destroyed through this instance' if exists else 'does not exist'))
        s = self.slot_by_obj.get(id(obj))
        if s is not None and self.held.get(s) is obj:
            if self.current.get(key) == s:
                self.flags.add('hit-held')
        else:
            s = self.nslots
            self.nslots += 1
            self.held[s] = obj
            self.slot_by_obj[id(obj)] = s
            self.wr[s] = weakref.ref(obj)
            self.info[s] = key
        cur = self.current.get(key)
        if cur is not None and cur != s and cur in self.held:
            self.fail('dup' if path == 'unpickle' else 'identity',
                      '%s returned a second live instance of %s id %d while the application still holds the first'
                      % (path, cls, i))
        if not obj.sqlmeta._obsolete:
            self.current[key] = s
        return s

    def emit(self, kind, line, out):
        self.kinds.append(kind)
        self.lines.append(line)
        self.outs.append(out)

    def sweep(self):
        """feed the deaths CPython produced to the model as a gc op"""
        died = [s for s, r in self.wr.items() if s not in self.held and s not in self.dead_reported and r() is None]
        if died:
            died.sort()
            self.dead_reported.update(died)
            self.flags.add('gc')
            self.emit('gc', 'gc ' + ' '.join(map(str, died)), 'gc 0')

    # ---------------------------------------------------------------- ops
    def run_op(self, op):
        """returns False when the op does not apply to the current state (it is then skipped on both sides)"""
        from sqlobject import SQLObjectNotFound
        from sqlobject.sqlbuilder import IN
        kind = op[0]
        e = self.e
        if kind == 'create':
            _, cls, i = op
            if i is None and cls == 'S':
                return False        # a string key has no automatic ids
            rid = id_num(i) if i is not None else self.maxid[cls] + 1
            line = 'create %s %s' % (cls, '-' if i is None else rid)
            try:
                kw = dict(self.ckw)
                if i is not None:
                    kw['id'] = id_arg(cls, i)
                if cls in ('P', 'F', 'S'):
                    obj = e[cls](name='p%d' % rid, **kw)
                else:
                    obj = e['K'](code=100 + rid, u=200 + rid, p=fk_of(rid), **kw)
            except Exception as ex:
                self.emit(kind, line, 'err ' + sqlo.exc_name(ex))
                return True
            try:
                oid = int(obj.id)
            except Exception:
                oid = -1
            if cls == 'K' and link_of(oid) is not None:
                self.conn.query('INSERT INTO %s (k_id, p_id) VALUES (%d, %d)' % (e['link'], oid, link_of(oid)))
            self.rows[cls].add(oid)
            self.maxid[cls] = max(self.maxid[cls], oid)
            # a new row: whatever the application still holds for that id belongs to a destroyed row
            s = self.take(obj, cls, 'create')
            self.emit(kind, line, 'obj %d' % s)
            if oid != rid:
                self.emit('idcheck', 'noop', 'id %d expected %d' % (oid, rid))
            return True
        if kind == 'get':
            _, cls, i = op
            arg = id_arg(cls, i)
            i = id_num(i)
            line = 'get %s %d' % (cls, i)
            exists = self.row_exists(cls, i)
            try:
                obj = e[cls].get(arg, **self.ckw)
            except SQLObjectNotFound:
                if exists:
                    self.fail('notfound', 'get raised SQLObjectNotFound for the existing row %s id %d' % (cls, i))
                self.emit(kind, line, 'err NotFound')
                return True
            except Exception as ex:
                self.emit(kind, line, 'err ' + sqlo.exc_name(ex))
                return True
            s = self.take(obj, cls, 'get')
            self.emit(kind, line, 'obj %d' % s)
            return True
        if kind == 'select':
            _, cls, ids = op
            if cls == 'S':
                ids = tuple(sorted(ids, key=str))
            line = 'select %s %s' % (cls, ','.join(map(str, ids)) if ids else '-')
            try:
                if ids:
                    res = list(e[cls].select(IN(e[cls].q.id, [id_arg(cls, x) for x in ids]), orderBy='id',
                                             **self.ckw))
                else:
                    res = list(e[cls].select(orderBy='id', **self.ckw))
                    allids = list(range(1, self.maxid[cls] + 1))
                    if cls == 'S':
                        allids.sort(key=str)
                    line = 'select %s %s' % (cls, ','.join(map(str, allids)) or '-')
            except Exception as ex:
                self.emit(kind, line, 'err ' + sqlo.exc_name(ex))
                return True
            slots = [self.take(o, cls, 'select') for o in res]
            del res
            self.emit(kind, line, 'objs' + ''.join(' %d' % s for s in slots))
            return True
        if kind in ('alt', 'uidx'):
            _, cls, i = op
            exists = self.row_exists(cls, i)
            line = 'look %s %d' % (cls, i)
            try:
                if kind == 'uidx':
                    obj = e['K'].uidx.get(u=200 + i, **self.ckw)
                elif cls in ('P', 'F', 'S'):
                    obj = e[cls].byName('p%d' % i, **self.ckw)
                else:
                    obj = e['K'].byCode(100 + i, **self.ckw)
            except SQLObjectNotFound:
                if exists:
                    self.fail('notfound', '%s lookup raised SQLObjectNotFound for the existing row %s id %d' % (kind, cls, i))
                self.emit(kind, line, 'err NotFound')
                return True
            except Exception as ex:
                self.emit(kind, line, 'err ' + sqlo.exc_name(ex))
                return True
            if str(obj.id) != str(i):
                self.fail('wrongrow', '%s lookup for id %d returned id %r' % (kind, i, obj.id))
            s = self.take(obj, cls, kind)
            self.emit(kind, line, 'obj %d' % s)
            return True
        if kind in ('pickle', 'unpickle') and self.explicit:
            return False        # an instance with a per-instance connection refuses to be pickled
        if kind == 'unpickle':
            _, cls, i, j = op
            ps = [n for n, (d, c, r) in enumerate(self.pickles) if (c, r) == (cls, i)]
            if j >= len(ps):
                return False
            p = ps[j]
            data = self.pickles[p][0]
            line = 'unpickle %d' % p
            try:
                obj = pickle.loads(data)
            except ValueError:
                self.emit(kind, line, 'err ValueError')
                return True
            except Exception as ex:
                self.emit(kind, line, 'err ' + sqlo.exc_name(ex))
                return True
            s = self.take(obj, cls, 'unpickle')
            self.emit(kind, line, 'obj %d' % s)
            return True
        if kind == 'expireAll':
            try:
                self.conn.expireAll()
                out = 'ok'
            except Exception as ex:
                out = 'err ' + sqlo.exc_name(ex)
            self.emit(kind, 'expireAll', out)
            return True
        # ---- ops on an instance the application holds
        _, cls, i, j = op[:4]
        s = self.resolve(cls, i, j)
        if s is None:
            return False
        obj = self.held[s]
        if kind == 'drop':
            del self.held[s]
            del self.slot_by_obj[id(obj)]
            if self.current.get((cls, i)) == s:
                del self.current[(cls, i)]
            del obj
            self.emit(kind, 'drop %d' % s, 'ok')
            return True
        if kind == 'expire':
            try:
                obj.expire()
                out = 'ok'
            except Exception as ex:
                out = 'err ' + sqlo.exc_name(ex)
            self.emit(kind, 'expire %d' % s, out)
            return True
        if kind == 'destroy':
            try:
                obj.destroySelf()
                out = 'ok'
            except Exception as ex:
                out = 'err ' + sqlo.exc_name(ex)
            self.rows[cls].discard(i)
            if self.current.get((cls, i)) == s:
                del self.current[(cls, i)]
            self.emit(kind, 'destroy %d' % s, out)
            return True
        if kind == 'pickle':
            try:
                data = pickle.dumps(obj)
            except Exception as ex:
                self.emit(kind, 'pickle %d' % s, 'err ' + sqlo.exc_name(ex))
                return True
            self.pickles.append((data, cls, i))
            self.emit(kind, 'pickle %d' % s, 'pickled %d' % (len(self.pickles) - 1))
            return True
        if kind == 'fk':
            if cls != 'K':
                return False
            # what the database holds for this row now (the object reloads it when its values are gone)
            r = self.conn.queryOne('SELECT p_id FROM %s WHERE id = %d' % (e['tables']['K'], i))
            tid = r[0] if r is not None else fk_of(i)
            line = 'fk %d P %s' % (s, '-' if tid is None else tid)
            texists = tid is not None and self.row_exists('P', tid)
            try:
                t = obj.p
            except SQLObjectNotFound:
                if texists and r is not None:
                    self.fail('notfound', 'FK attribute raised SQLObjectNotFound for the existing row P id %d' % tid)
                self.emit(kind, line, 'err NotFound')
                return True
            except Exception as ex:
                self.emit(kind, line, 'err ' + sqlo.exc_name(ex))
                return True
            if t is None:
                self.emit(kind, line, 'none')
                return True
            ts = self.take(t, 'P', 'fk')
            self.emit(kind, line, 'obj %d' % ts)
            return True
        if kind in ('mjoin', 'rjoin'):
            if kind == 'mjoin':
                if cls != 'P':
                    return False
                tcls = 'K'
                ids = [r[0] for r in self.conn.queryAll(
                    'SELECT id FROM %s WHERE p_id = %d' % (e['tables']['K'], i))]
                acc = 'kids'
            else:
                if cls not in ('P', 'K'):
                    return False
                tcls = 'K' if cls == 'P' else 'P'
                mine, other = ('p_id', 'k_id') if cls == 'P' else ('k_id', 'p_id')
                ids = [r[0] for r in self.conn.queryAll(
                    'SELECT %s FROM %s WHERE %s = %d' % (other, e['link'], mine, i))]
                acc = 'rel'
            line = 'join %d %s %s' % (s, tcls, ','.join(map(str, ids)) if ids else '-')
            try:
                res = getattr(obj, acc)
            except SQLObjectNotFound:
                if all(self.row_exists(tcls, t) for t in ids):
                    self.fail('notfound', '%s accessor raised SQLObjectNotFound although every joined row exists' % kind)
                self.emit(kind, line, 'err NotFound')
                return True
            except Exception as ex:
                self.emit(kind, line, 'err ' + sqlo.exc_name(ex))
                return True
            if [o.id for o in res] != ids:
                self.fail('wrongrow', '%s accessor returned ids %r, the tables say %r' % (kind, [o.id for o in res], ids))
            slots = [self.take(o, tcls, kind) for o in res]
            del res
            self.emit(kind, line, 'objs' + ''.join(' %d' % x for x in slots))
            return True
        raise ValueError('unknown op %r' % (op,))

    def step(self, op):
        n = len(self.fails)
        ok = self.run_op(op)
        if ok:
            self.sweep()
        return ok, len(self.fails) > n

    def close(self):
        self.held.clear()
        self.slot_by_obj.clear()
        self.current.clear()


def execute(cfg, history, stop_at_first=True):
    """replay a fixed history; returns the World (ops that do not apply are skipped)"""
    w = World(cfg)
    applied = []
    for op in history:
        ok, failed = w.step(op)
        if ok:
            applied.append(op)
        if failed and stop_at_first:
            break
    w.applied = applied
    w.close()
    return w


# -------------------------------------------------------------------- shrinking and keys
def shrink(cfg, history, budget=400, runner=None, simplify=True):
    """drop ops / replace ops by simpler ones while the oracle still fails; returns the minimal failing history"""
    def failing(h):
        w = (runner or execute)(cfg, h)
        return bool(w.fails), w
    ok, w = failing(history)
    if not ok:
        return None, None
    cur = list(w.applied)      # everything after the first failure is irrelevant
    runs = 0
    changed = True
    while changed and runs < budget:
        changed = False
        # 1. delete chunks, then single ops
        size = max(1, len(cur) // 2)
        while size >= 1 and runs < budget:
            i = 0
            while i < len(cur) and runs < budget:
                cand = cur[:i] + cur[i + size:]
                runs += 1
                ok, w2 = failing(cand)
                if ok:
                    cur = list(w2.applied)
                    w = w2
                    changed = True
                else:
                    i += size
            size //= 2
        # 1b. delete pairs (cull counters make some ops removable only together)
        if len(cur) <= 12:
            n = len(cur)
            done = False
            for a in range(n):
                for b in range(a + 1, n):
                    if runs >= budget or done:
                        break
                    runs += 1
                    ok, w2 = failing(cur[:a] + cur[a + 1:b] + cur[b + 1:])
                    if ok:
                        cur = list(w2.applied)
                        w = w2
                        changed = True
                        done = True
        # 2. replace by simpler ops
        for i, op in enumerate(list(cur) if simplify else []):
            if runs >= budget:
                break
            simpler = []
            k = op[0]
            if k in ('select', 'alt', 'uidx', 'fk', 'mjoin', 'rjoin', 'unpickle'):
                for cls in CLASSES:
                    for rid in range(1, 8):
                        simpler.append(('get', cls, rid))
            if k == 'expireAll':
                for cls in CLASSES:
                    for rid in range(1, 8):
                        simpler.append(('expire', cls, rid, 0))
            if k in ('unpickle', 'expire', 'destroy', 'pickle', 'drop') and op[3] > 0:
                simpler.append(op[:3] + (0,))
            if k in ('create', 'get') and isinstance(op[2], str):
                simpler.append((k, op[1], id_num(op[2])))
            if k == 'create' and op[2] is not None:
                simpler.append(('create', op[1], None))
            if k == 'create' and op[1] == 'K':
                simpler.append(('create', 'P', op[2]))
            for rep in simpler:
                cand = cur[:i] + [rep] + cur[i + 1:]
                runs += 1
                ok, w2 = failing(cand)
                if ok and len(w2.applied) <= len(cur):
                    cur = list(w2.applied)
                    w = w2
                    changed = True
                    break
                if runs >= budget:
                    break
    return cur, w


CANON_CFGS = [((1, 100, 2), ''), ((1, 0, 1), '@cull'), ((0, 100, 2), '@nocache')]


def minimise(cfg, history):
    """shrink, then move to the first canonical configuration under which the history still fails"""
    small, w = shrink(cfg, history)
    if small is None:
        return None, None, None
    if len(cfg) > 3 and cfg[3]:
        # does it need the explicit connection at all?
        if execute(tuple(cfg[:3]), small).fails:
            return minimise(tuple(cfg[:3]), small)
    extra = tuple(cfg[3:])
    for c2, tag in CANON_CFGS:
        c2 = c2 + extra
        if c2 == tuple(cfg):
            break
        cands = [small]
        if len(small) <= 10:
            n = len(small)
            cands += [small[:a] + small[a + 1:] for a in range(n)]
            cands += [small[:a] + small[a + 1:b] + small[b + 1:] for a in range(n) for b in range(a + 1, n)]
        for cand in cands:
            if execute(c2, cand).fails:
                s3, w3 = shrink(c2, cand)
                if s3 is not None:
                    return c2, s3, w3
    return cfg, small, w


def key_of(cfg, history, w):
    """canonical key of a minimised failing history: its op-kind sequence (leading creates dropped)
    plus the canonical configuration it needs"""
    kinds = [op[0] for op in history]
    while len(kinds) > 1 and kinds[0] == 'create':
        kinds.pop(0)
    base = tuple(cfg[:3])
    tag = dict(CANON_CFGS).get(base, '@%d,%d,%d' % base)
    if len(cfg) > 3 and cfg[3]:
        tag += '@conn'
    if any(isinstance(op[2], str) for op in history if op[0] in ('create', 'get') and len(op) > 2):
        tag += '@idform'
    return 'C04:' + '-then-'.join(kinds) + tag


def describe(cfg, history):
    return {'cfg': {'doCache': cfg[0], 'cullFrequency': cfg[1], 'cullFraction': cfg[2],
                    'explicitConnection': bool(len(cfg) > 3 and cfg[3])},
            'history': [list(op) for op in history]}


# -------------------------------------------------------------------- inheritance (oracle only)
_inh_envs = {}


def inh_env(do_cache, explicit):
    """an inheritable family: V (root), Car (leaf child without columns of its own), Truck (child with a
    column), and G with a ForeignKey to V.  explicit: every access passes connection=B."""
    key = (do_cache, bool(explicit))
    if key in _inh_envs:
        return _inh_envs[key]
    sqlo.setup()
    from sqlobject import SQLObject, StringCol, IntCol, ForeignKey
    from sqlobject.inheritance import InheritableSQLObject
    if explicit:
        path = _scratch_db()
        conn = sqlo.file_conn(path, cache=bool(do_cache))
        other = sqlo.file_conn(path, cache=bool(do_cache))
        for c in (conn, other):
            c.query('PRAGMA synchronous=OFF')
    else:
        conn = sqlo.mem_conn(cache=bool(do_cache))
        other = conn
    vname, cname, tname, gname = (sqlo.uniq('C04V'), sqlo.uniq('C04Car'), sqlo.uniq('C04Truck'), sqlo.uniq('C04G'))
    V = type(vname, (InheritableSQLObject,), {'_connection': conn, '__module__': __name__, 'name': StringCol()})
    Car = type(cname, (V,), {'_inheritable': False, '__module__': __name__})
    Truck = type(tname, (V,), {'__module__': __name__, 'load': IntCol(default=0)})
    G = type(gname, (SQLObject,), {'_connection': conn, '__module__': __name__, 'v': ForeignKey(vname)})
    for c in (V, Car, Truck, G):
        c.createTable()
    e = {'conn': conn, 'c': other, 'ckw': ({'connection': other} if explicit else {}),
         'V': V, 'Car': Car, 'Truck': Truck, 'G': G, 'classes': (V, Car, Truck, G)}
    _inh_envs[key] = e
    return e


class InhWorld(object):
    """identity across an inheritable family: a row reached through the root class (by id, by select, by a
    foreign key) and through its own class is one object, bound to the connection that was asked.
    ops: ('new', 'Car'|'Truck') ('vget', n) ('cget', n) ('vsel',) ('csel', 'Car'|'Truck') ('fk', n) ('drop', n)
    n = the n-th row created in this history."""

    def __init__(self, cfg):
        from sqlobject.cache import CacheSet
        do_cache, freq, frac = cfg[:3]
        self.explicit = len(cfg) > 3 and bool(cfg[3])
        self.e = e = inh_env(do_cache, self.explicit)
        self.conn = e['c']
        for c in e['classes']:
            self.conn.query('DELETE FROM %s' % c.sqlmeta.table)
        for c in set((e['conn'], e['c'])):
            c.cache = CacheSet(cache=bool(do_cache), cullFrequency=freq, cullFraction=frac)
        self.rows = []        # (class name, id) in creation order
        self.garages = {}     # row index -> G id
        self.held = {}        # row id -> the instance the application holds
        self.fails = []
        self.lines, self.outs = [], []

    def take(self, obj, path):
        rid = obj.id
        kinds = dict((i, c) for c, i in self.rows)
        if type(obj).__name__ != self.e[kinds.get(rid, 'V')].__name__:
            self.fails.append(('inh-class', '%s returned a %s for a %s row' % (path, type(obj).__name__, kinds.get(rid))))
        if self.explicit and obj._connection is not self.conn:
            self.fails.append(('inh-wrongconn', '%s on an explicit connection returned an instance bound to another '
                               'connection' % path))
        cur = self.held.get(rid)
        if cur is not None and cur is not obj:
            self.fails.append(('inh-identity', '%s returned a second live instance of %s id %d while the application '
                               'still holds the first' % (path, kinds.get(rid), rid)))
        self.held[rid] = obj

    def step(self, op):
        e, kw = self.e, self.e['ckw']
        n0 = len(self.fails)
        kind = op[0]
        try:
            if kind == 'new':
                obj = e[op[1]](name='v%d' % len(self.rows), **kw)
                self.rows.append((op[1], obj.id))
                self.take(obj, 'the constructor')
            else:
                if kind != 'vsel' and kind != 'csel':
                    if op[1] >= len(self.rows):
                        return False, False
                    cname, rid = self.rows[op[1]]
                if kind == 'vget':
                    self.take(e['V'].get(rid, **kw), 'get through the root class')
                elif kind == 'cget':
                    self.take(e[cname].get(rid, **kw), 'get through the row\'s own class')
                elif kind == 'vsel':
                    for o in list(e['V'].select(orderBy='id', **kw)):
                        self.take(o, 'select on the root class')
                elif kind == 'csel':
                    for o in list(e[op[1]].select(orderBy='id', **kw)):
                        self.take(o, 'select on the child class')
                elif kind == 'fk':
                    if op[1] not in self.garages:
                        self.garages[op[1]] = e['G'](v=rid, **kw).id
                    g = e['G'].get(self.garages[op[1]], **kw)
                    self.take(g.v, 'foreign key to the root class')
                    del g
                elif kind == 'drop':
                    self.held.pop(rid, None)
                else:
                    raise ValueError(op)
        except Exception as ex:
            self.fails.append(('inh-error', '%s raised %s' % (' '.join(map(str, op)), sqlo.exc_name(ex))))
        self.lines.append(' '.join(map(str, op)))
        self.outs.append('ok')
        return True, len(self.fails) > n0

    def close(self):
        self.held.clear()


def execute_inh(cfg, history, stop_at_first=True):
    w = InhWorld(cfg)
    applied = []
    for op in history:
        ok, failed = w.step(op)
        if ok:
            applied.append(op)
        if failed and stop_at_first:
            break
    w.applied = applied
    w.close()
    return w


def gen_inh(rng, n_ops):
    hist = []
    nrows = 0
    for _ in range(n_ops):
        r = rng.random()
        if nrows == 0 or r < 0.2:
            hist.append(('new', 'Car' if rng.random() < 0.6 else 'Truck'))
            nrows += 1
        elif r < 0.4:
            hist.append(('vget', rng.randrange(nrows)))
        elif r < 0.55:
            hist.append(('cget', rng.randrange(nrows)))
        elif r < 0.65:
            hist.append(('vsel',))
        elif r < 0.72:
            hist.append(('csel', 'Car' if rng.random() < 0.5 else 'Truck'))
        elif r < 0.85:
            hist.append(('fk', rng.randrange(nrows)))
        else:
            hist.append(('drop', rng.randrange(nrows)))
    return hist


def report_inh(ctx, cfg, hist, reported):
    small, w = shrink(cfg, hist, runner=execute_inh, simplify=False)
    if small is None:
        small, w = hist, execute_inh(cfg, hist)
    if len(cfg) > 3 and cfg[3] and execute_inh(tuple(cfg[:3]), small).fails:
        cfg = tuple(cfg[:3])
        small, w = shrink(cfg, small, runner=execute_inh, simplify=False)
    for c2, _tag in CANON_CFGS:
        c2 = c2 + tuple(cfg[3:])
        if c2 == tuple(cfg):
            break
        if execute_inh(c2, small).fails:
            cfg = c2
            small, w = shrink(cfg, small, runner=execute_inh, simplify=False)
            break
    kinds = [op[0] for op in small]
    while len(kinds) > 1 and kinds[0] == 'new':
        kinds.pop(0)
    key = 'C04:inheritance:' + '-then-'.join(kinds) + ('@conn' if len(cfg) > 3 and cfg[3] else '') + \
        ('@nocache' if not cfg[0] else '')
    if key in reported or not w.fails:
        return
    reported.add(key)
    d = describe(cfg, small)
    d['inheritance'] = True
    ctx.oracle_fail(key, '%s (inheritable family V/Car/Truck, cache=%s, explicit connection=%s, minimal history %s)'
                    % (w.fails[0][1], bool(cfg[0]), bool(len(cfg) > 3 and cfg[3]),
                       ' ; '.join(' '.join(map(str, op)) for op in small)), d)


def replay_inh(case):
    cfg = (case['cfg']['doCache'], case['cfg']['cullFrequency'], case['cfg']['cullFraction'])
    if case['cfg'].get('explicitConnection'):
        cfg = cfg + (1,)
    hist = [tuple(op) for op in case['history']]
    w = execute_inh(cfg, hist, stop_at_first=False)
    text = ['cfg %r (inheritance stream)' % (cfg,)] + ['  ' + l for l in w.lines]
    text += ['ORACLE FAILURE [%s]: %s' % f for f in w.fails] or ['oracle: no failure']
    return (not w.fails), '\n'.join(text)


# -------------------------------------------------------------------- generation
def gen_history(rng, cfg, n_ops, guarded, sink, falsy=False, idforms=False):
    """generate while executing on the real code (choices look at the generator's shadow state only).
    guarded: never detach a held instance, never unpickle a deleted row, one successful unpickle per row."""
    w = World(cfg)
    hist = []
    unpickled = set()
    ids = (1, 2, 3, 4, 5)

    def held_refs():
        out = []
        per = {}
        for s in sorted(w.held):
            ci = w.info[s]
            j = per.get(ci, 0)
            per[ci] = j + 1
            out.append((ci[0], ci[1], j))
        return out

    def do(op):
        ok, failed = w.step(op)
        if ok:
            hist.append(op)
        return ok

    while len(hist) < n_ops and not w.fails:
        r = rng.random()
        refs = held_refs()
        cls = 'P' if rng.random() < 0.45 else 'K'
        if falsy:
            cls = 'F' if rng.random() < 0.75 else 'P'
        if idforms and rng.random() < 0.4:
            cls = 'S'
        rows = sorted(w.rows[cls])

        def form(n):
            # the id as the application may pass it: canonical, or the other of int / numeric text
            if idforms and rng.random() < 0.4:
                return '~%d' % n
            return n

        def some_id():
            q = rng.random()
            if rows and q < 0.7:
                return rng.choice(rows)
            return rng.choice(ids)
        if r < 0.13:
            q = rng.random()
            if q < 0.45 and cls != 'S':
                do(('create', cls, None))
            else:
                do(('create', cls, form(rng.choice(ids))))
        elif r < 0.36:
            do(('get', cls, form(some_id())))
        elif r < 0.44:
            if rng.random() < 0.4:
                do(('select', cls, ()))
            else:
                k = rng.randint(1, 4)
                do(('select', cls, tuple(sorted(set(rng.choice(ids) for _ in range(k))))))
        elif r < 0.51:
            if cls == 'K' and rng.random() < 0.5:
                do(('uidx', 'K', some_id()))
            else:
                do(('alt', cls, some_id()))
        elif r < 0.58 and refs:
            ks = [x for x in refs if x[0] == 'K']
            if ks:
                c, i, j = rng.choice(ks)
                do(('fk', c, i, j))
        elif r < 0.65 and refs:
            c, i, j = rng.choice(refs)
            if c == 'P' and rng.random() < 0.5:
                do(('mjoin', c, i, j))
            else:
                do(('rjoin', c, i, j))
        elif r < 0.80 and refs:
            c, i, j = rng.choice(refs)
            do(('drop', c, i, j))
        elif r < 0.85 and refs:
            c, i, j = rng.choice(refs)
            if guarded:
                # expire() on the row's current instance, which is let go right away: legitimate use,
                # nothing may go wrong (expire() on a stale instance evicts whatever is cached for the id)
                sl = w.resolve(c, i, j)
                if w.current.get((c, i)) != sl:
                    continue
                do(('expire', c, i, j))
                do(('drop', c, i, j))
            else:
                do(('expire', c, i, j))
        elif r < 0.87:
            if rng.random() < 0.6 or falsy:
                # (falsy instances: CacheFactory.getAll() skips them, so expireAll() does not reach them —
                #  a staleness matter, C05/C07; kept out of this stream)
                continue
            if guarded:
                if len(refs) <= 3:
                    for c, i, j in reversed(refs):
                        do(('drop', c, i, j))
                    do(('expireAll',))
            else:
                do(('expireAll',))
        elif r < 0.92 and refs:
            c, i, j = rng.choice(refs)
            if w.held[w.resolve(c, i, j)].sqlmeta._obsolete:
                continue     # the application does not destroy an instance twice
            do(('destroy', c, i, j))
        elif r < 0.96 and refs:
            c, i, j = rng.choice(refs)
            do(('pickle', c, i, j))
        elif w.pickles:
            p = rng.randrange(len(w.pickles))
            _, c, i = w.pickles[p]
            if guarded and i not in w.rows[c]:
                continue
            n0 = w.nslots
            do(('unpickle', c, i, sum(1 for q in range(p) if w.pickles[q][1:] == (c, i))))
            if w.nslots > n0:
                unpickled.add((c, i))
    w.close()
    sink.append((cfg, hist, w))
    return w


CONFIGS = [(1, 2, 2), (1, 3, 2), (1, 1, 1), (1, 4, 3), (1, 0, 2), (1, 100, 2), (0, 100, 2), (0, 2, 2)]


def load_corpus():
    d = os.path.join(os.path.dirname(os.path.dirname(os.path.abspath(__file__))), 'corpus', 'C04')
    out = []
    if os.path.isdir(d):
        for fn in sorted(os.listdir(d)):
            if fn.endswith('.json'):
                data = json.load(open(os.path.join(d, fn)))
                for c in data['cases']:
                    cfg = tuple(c['cfg'])
                    hist = [tuple(tuple(x) if isinstance(x, list) else x for x in op) for op in c['history']]
                    out.append((fn + ':' + c.get('name', '?'), cfg, hist, c.get('expect_fail', False)))
    return out


def report_failure(ctx, cfg, hist, w, reported):
    cfg0 = cfg
    cfg, small, w2 = minimise(cfg, hist)
    if small is None:
        # not reproducible from scratch: report unshrunk under a key of its own
        cfg, small, w2 = cfg0, hist, w
    key = key_of(cfg, small, w2)
    if key in reported:
        return key
    reported.add(key)
    kind, text = w2.fails[0]
    ctx.oracle_fail(key, '%s (cache=%s, minimal history %s)' % (text, bool(cfg[0]), ' ; '.join(' '.join(map(str, op)) for op in small)),
                    describe(cfg, small))
    return key



# ---- transactions: a Transaction has an identity map of its own ------------------------------------------------------
_tx_envs = {}


def tx_env(do_cache):
    if do_cache in _tx_envs:
        return _tx_envs[do_cache]
    sqlo.setup()
    from sqlobject import SQLObject, StringCol, ForeignKey, MultipleJoin
    path = _scratch_db()
    conn = sqlo.file_conn(path, cache=bool(do_cache))
    other = sqlo.file_conn(path, cache=bool(do_cache))
    for c in (conn, other):
        c.query('PRAGMA synchronous=OFF')
    oname, pname = sqlo.uniq('C04TO'), sqlo.uniq('C04TP')
    O = type(oname, (SQLObject,), {'_connection': conn, '__module__': __name__, 'name': StringCol(alternateID=True),
                                   'pets': MultipleJoin(pname, joinColumn='owner_id')})
    P = type(pname, (SQLObject,), {'_connection': conn, '__module__': __name__, 'name': StringCol(),
                                   'owner': ForeignKey(oname)})
    O.createTable()
    P.createTable()
    e = {'conn': conn, 'other': other, 'O': O, 'P': P, 'n': [0]}
    _tx_envs[do_cache] = e
    return e


def execute_tx(do_cache, steps):
    """steps: 'read-rollback' | 'empty-commit' | 'empty-rollback' | 'second-connection' | 'gc' | 'tx-commit' |
    'tx-commit-begin' (the last two end the case).  Oracle: on a
    NON-DEFAULT connection (a transaction, a second connection object on the same database) every access path --
    get, byName, eager select, lazyColumns select, foreign key, join -- hands out the instances of THAT connection's
    identity map (bound to it, one per row, never the default connection's); on the default connection every access
    path keeps returning the held objects, before, between and after."""
    e = tx_env(do_cache)
    O, P, conn = e['O'], e['P'], e['conn']
    e['n'][0] += 1
    fails = []
    try:
        owner = O(name='o%d' % e['n'][0])
        pet = P(name='p', owner=owner)
        oid, pid, oname = owner.id, pet.id, owner.name

        def paths(tag):
            for what, f in (('get', lambda: O.get(oid) is owner), ('byName', lambda: O.byName(oname) is owner),
                            ('select', lambda: [x for x in O.select(O.q.id == oid)][0] is owner),
                            ('lazyColumns select', lambda: [x for x in O.select(O.q.id == oid, lazyColumns=True)][0] is owner),
                            ('get pet', lambda: P.get(pid) is pet), ('foreign key', lambda: pet.owner is owner),
                            ('join', lambda: owner.pets[0] is pet)):
                if not f():
                    fails.append('%s: %s does not return the held instance' % (tag, what))

        def on_connection(c, tag, held=None):
            t = O.get(oid, connection=c)
            tp = P.get(pid, connection=c)
            if held is not None and (t is not held[0] or tp is not held[1]):
                fails.append('%s: get(connection=) does not return the instance the application still holds from '
                             'before' % tag)
            if t is owner or tp is pet:
                fails.append("%s: get(connection=) hands out the default connection's instance" % tag)
            if t._connection is not c or tp._connection is not c:
                fails.append('%s: the instance fetched through the connection is not bound to it' % tag)
            for what, f in (('byName(connection=)', lambda: O.byName(oname, connection=c)),
                            ('select(connection=)', lambda: list(O.select(O.q.id == oid, connection=c))[0]),
                            ('select(lazyColumns=True, connection=)',
                             lambda: list(O.select(O.q.id == oid, lazyColumns=True, connection=c))[0]),
                            ('foreign key of an instance of that connection', lambda: tp.owner)):
                got = f()
                if got is not t:
                    fails.append("%s: %s yields %s, not the instance get(connection=) gives" % (
                        tag, what, "the default connection's instance" if got is owner else 'another object'))
            for what, f in (('select(lazyColumns=True, connection=) of the other class',
                             lambda: list(P.select(P.q.id == pid, lazyColumns=True, connection=c))[0]),
                            ('join of an instance of that connection', lambda: t.pets[0])):
                got = f()
                if got is not tp:
                    fails.append("%s: %s yields %s, not the instance get(connection=) gives" % (
                        tag, what, "the default connection's instance" if got is pet else 'another object'))
            return t, tp
        paths('before')
        for st in steps:
            if st == 'gc':
                gc.collect()
                paths('after gc')
                continue
            if st == 'second-connection':
                on_connection(e['other'], 'second connection')
                paths('after second-connection')
                continue
            trans = conn.transaction()
            if st in ('tx-commit', 'tx-commit-begin'):
                # the transaction's own identity map survives its commit (and a close + begin): the instances the
                # application holds from the transaction stay THE instances of their rows on it.  (The parent's
                # instances of rows the transaction touched are expired by the commit -- by design, the E1 class --
                # so the case ends here.)
                held = on_connection(trans, 'transaction')
                if st == 'tx-commit':
                    trans.commit()
                else:
                    trans.commit(close=True)
                    trans.begin()
                gc.collect()
                on_connection(trans, 'transaction after %s' % ('commit()' if st == 'tx-commit' else 'commit(close=True) + begin()'),
                              held=held)
                del held
                trans.rollback()
                del trans
                break
            if st.startswith('read'):
                on_connection(trans, 'transaction')
            if st.endswith('rollback'):
                trans.rollback()
            else:
                trans.commit(close=True)
            del trans
            paths('after ' + st)
    except Exception as exc:      # an exception of the real code is an outcome, never a harness crash
        fails.append('exception %s' % sqlo.exc_name(exc))
    return fails


# (a COMMITTED transaction that touched the row expires it in the parent's cache by design: the E1 class, C07/C08's subject)
TX_STEPS = ('read-rollback', 'empty-commit', 'empty-rollback', 'second-connection', 'gc', 'tx-commit', 'tx-commit-begin')


def run_tx(ctx, reported):
    for k in range(ctx.budget(60, 600)):
        do_cache = k % 2
        steps = tuple(TX_STEPS[ctx.rng.randrange(len(TX_STEPS))] for _ in range(ctx.rng.randint(1, 4)))
        fails = execute_tx(do_cache, steps)
        ctx.case(('tx', do_cache, steps), nontrivial=any(s != 'gc' for s in steps), kind='transaction cache=%d' % do_cache)
        if fails:
            small = steps
            for s in steps:            # minimise to one step when one step suffices
                if s != 'gc' and execute_tx(do_cache, (s,)):
                    small = (s,)
                    fails = execute_tx(do_cache, small)
                    break
            key = 'C04:connection:%s:%s' % ('-then-'.join(small), fails[0].split(': ', 1)[-1].split(' yields')[0].split(' hands')[0][:60])
            if key not in reported:
                reported.add(key)
                ctx.oracle_fail(key, '%s (cache=%s, transaction steps %s)' % (fails[0], bool(do_cache), ' ; '.join(small)),
                                {'transaction': True, 'doCache': do_cache, 'steps': list(small)})


def replay_tx(case):
    fails = execute_tx(case['doCache'], tuple(case['steps']))
    return (not fails), '\n'.join(['cache=%s transaction steps %s' % (bool(case['doCache']), case['steps'])] +
                                  ['ORACLE FAILURE: ' + f for f in fails] + ([] if fails else ['oracle: no failure']))


# ---- two threads load the same uncached row: the put/finishPut protocol must give both the same instance --------------
def execute_threads(do_cache, second_look_delay=True):
    """thread 1 is inside `_init` (its SELECT done, the class cache lock held from the miss until finishPut) when thread 2
    asks for the same row and queues up on the lock; oracle: both get ONE instance, `get` afterwards returns it, nobody
    is left blocked.  Deterministic: `_init` waits for the contention, a wrapper around the lock signals it."""
    import threading
    sqlo.setup()
    from sqlobject import SQLObject, StringCol
    conn = sqlo.file_conn(_scratch_db(), cache=bool(do_cache))
    contended = threading.Event()
    first = []

    def _init(self, *args, **kw):
        SQLObject._init(self, *args, **kw)
        if not first and threading.current_thread() is not threading.main_thread():
            first.append(threading.current_thread())
            contended.wait(5)

    A = type(sqlo.uniq('C04TH'), (SQLObject,), {'_connection': conn, '__module__': __name__, 'name': StringCol(),
                                                '_init': _init})

    class Watched(object):
        def __init__(self, lock):
            self._lock = lock

        def acquire(self, *a):
            if self._lock.locked():
                contended.set()
            return self._lock.acquire(*a)

        def release(self):
            return self._lock.release()

        def locked(self):
            return self._lock.locked()

    fails = []
    try:
        A.createTable()
        t = A.sqlmeta.table
        conn.query("INSERT INTO %s (id, name) VALUES (1, 'one')" % t)
        conn.query("INSERT INTO %s (id, name) VALUES (2, 'two')" % t)
        warm = A.get(2)                       # creates the class's factory
        fac = conn.cache.caches[A.__name__]
        fac.lock = Watched(fac.lock)
        got = {}

        def loader(k):
            try:
                got[k] = A.get(1)
            except Exception as exc:
                got[k] = exc
        t1 = threading.Thread(target=loader, args=('t1',))
        t1.start()
        for _ in range(500):
            if first:
                break
            time.sleep(0.01)
        t2 = threading.Thread(target=loader, args=('t2',))
        t2.start()
        t1.join(20)
        t2.join(20)
        a1, a2 = got.get('t1'), got.get('t2')
        if t1.is_alive() or t2.is_alive() or a1 is None or a2 is None:
            fails.append('a loader thread is blocked')
        elif isinstance(a1, Exception) or isinstance(a2, Exception):
            fails.append('a loader thread raised %s' % sqlo.exc_name(a1 if isinstance(a1, Exception) else a2))
        else:
            if a1 is not a2:
                fails.append('two threads loading one uncached row got two live instances')
            if A.get(1) is not a1:
                fails.append('get() afterwards does not return the instance the first loader holds')
            if fac.lock.locked():
                fails.append('the class cache lock is still held')
        del warm
    except Exception as exc:
        fails.append('exception %s' % sqlo.exc_name(exc))
    finally:
        try:
            conn.close()
        except Exception:
            pass
    return fails


def run_threads(ctx, reported):
    for do_cache in (1, 0):
        fails = execute_threads(do_cache)
        ctx.case(('threads', do_cache), nontrivial=True, kind='two loader threads cache=%d' % do_cache)
        if fails:
            key = 'C04:threads:two-loaders-one-row'
            if key not in reported:
                reported.add(key)
                ctx.oracle_fail(key, '%s (cache=%s; thread 2 asks for the row while thread 1 is inside _init holding the '
                                'class cache lock)' % (fails[0], bool(do_cache)), {'threads': True, 'doCache': do_cache})


def replay_threads(case):
    fails = execute_threads(case['doCache'])
    return (not fails), '\n'.join(['cache=%s two loader threads, one uncached row' % bool(case['doCache'])] +
                                  ['ORACLE FAILURE: ' + f for f in fails] + ([] if fails else ['oracle: no failure']))


def run(ctx):
    gc.collect()
    worlds = []       # (cfg, hist, world, stream)
    reported = set()
    # 1. corpus + the witnesses of the counter-theorems, replayed on the real code
    for key, (cfg, hist) in sorted(KNOWN_WITNESSES.items()):
        for do_cache in ((1, 0) if '@' not in key else (cfg[0],)):
            c2 = (do_cache,) + tuple(cfg[1:])
            w = execute(c2, hist, stop_at_first=False)
            worlds.append((c2, hist, w, 'witness'))
            if w.fails:
                report_failure(ctx, c2, hist, w, reported)
            else:
                ctx.note('witness %s no longer fails on the implementation (cache=%s)' % (key, bool(do_cache)))
    for name, cfg, hist, expect_fail in load_corpus():
        w = execute(cfg, hist, stop_at_first=False)
        worlds.append((cfg, hist, w, 'corpus'))
        if w.fails:
            report_failure(ctx, cfg, hist, w, reported)
    # 2. generated histories
    n_guard = ctx.budget(4000, 60000)
    n_free = ctx.budget(300, 4000)
    n_falsy = ctx.budget(500, 6000)
    n_idf = ctx.budget(600, 8000)
    n_conn = ctx.budget(500, 6000)
    max_ops = 60 if (ctx.tier == 'thorough' or ctx.deep) else 28
    sink = []
    for k in range(n_guard + n_free + n_falsy + n_idf + n_conn):
        guarded = k < n_guard or k >= n_guard + n_free
        falsy = n_guard + n_free <= k < n_guard + n_free + n_falsy
        idforms = n_guard + n_free + n_falsy <= k < n_guard + n_free + n_falsy + n_idf
        xconn = k >= n_guard + n_free + n_falsy + n_idf
        cfg = CONFIGS[ctx.rng.randrange(len(CONFIGS))]
        if falsy:
            cfg = (1, ctx.rng.randrange(0, 3), ctx.rng.randrange(1, 3))
        elif ctx.rng.random() < 0.15:
            cfg = (ctx.rng.randrange(2), ctx.rng.randrange(0, 7), ctx.rng.randrange(1, 5))
        n_ops = ctx.rng.randint(4, max_ops)
        del sink[:]
        if xconn:
            cfg = tuple(cfg) + (1,)
        w = gen_history(ctx.rng, cfg, n_ops, guarded, sink, falsy=falsy, idforms=idforms or (xconn and k % 3 == 0))
        cfg, hist, w = sink[0]
        worlds.append((cfg, hist, w, 'falsy-instances' if falsy else 'id-forms' if idforms else
                       'explicit-connection' if xconn else 'guarded' if guarded else 'free'))
        if w.fails:
            report_failure(ctx, cfg, hist, w, reported)
    # 2b. inheritance x {default, explicit} connection: oracle only (the inheritance layer is C15's model)
    n_inh = ctx.budget(400, 6000)
    for k in range(n_inh):
        cfg = CONFIGS[ctx.rng.randrange(len(CONFIGS))]
        if k % 2:
            cfg = tuple(cfg) + (1,)
        hist = gen_inh(ctx.rng, ctx.rng.randint(3, 14))
        w = execute_inh(cfg, hist)
        ctx.case(('inh', cfg, tuple(hist)), nontrivial=len(w.applied) > 2,
                 kind='inheritance%s cache=%d' % (' explicit-connection' if len(cfg) > 3 else '', cfg[0]))
        if w.fails:
            report_inh(ctx, cfg, hist, reported)
    # 2c. transactions (oracle only): a Transaction has an identity map of its own, whatever the connection's cache setting
    run_tx(ctx, reported)
    # 2d. two threads, one uncached row (oracle only; every interleaving is C09's subject)
    run_threads(ctx, reported)
    # 3. correspondence: all histories through the model driver in one call
    lines = []
    for cfg, hist, w, stream in worlds:
        lines.extend(w.lines)
    outs = ctx.model(lines)
    pos = 0
    for cfg, hist, w, stream in worlds:
        n = len(w.lines)
        mo = outs[pos:pos + n] if outs is not None else None
        pos += n
        nontrivial = bool(w.flags) or 'cull' in ''.join(mo or [])
        desc = describe(cfg, hist)
        ctx.case((cfg, tuple(hist)), nontrivial=nontrivial,
                 sample={'case': desc, 'impl': w.outs[1:8]},
                 kind='%s cache=%d len<=%d' % (stream, cfg[0], 10 * ((len(hist) + 9) // 10)))
        for k in w.kinds:
            ctx.count('op:' + k)
        if mo is not None:
            mclean = [x.split(' #')[0] for x in mo]
            if mclean != w.outs:
                first = next(i for i in range(n) if mclean[i] != w.outs[i])
                ctx.compare('op outcomes: model = implementation (%s stream)' % stream,
                            dict(desc, first_difference={'line': w.lines[first], 'index': first}),
                            mclean[:first + 1][-6:], w.outs[:first + 1][-6:])
            else:
                ctx.compare('op outcomes: model = implementation (%s stream)' % stream, desc, 'same', 'same')
            for x in mo:
                if ' #' in x:
                    for tag in x.split(' #')[1].split():
                        ctx.count('model-branch:' + tag)


def replay(case):
    if case.get('threads'):
        return replay_threads(case)
    if case.get('transaction'):
        return replay_tx(case)
    cfg = (case['cfg']['doCache'], case['cfg']['cullFrequency'], case['cfg']['cullFraction'])
    if case['cfg'].get('explicitConnection'):
        cfg = cfg + (1,)
    if case.get('transaction'):
        return replay_tx(case)
    if case.get('inheritance'):
        return replay_inh(case)
    hist = [tuple(tuple(x) if isinstance(x, list) else x for x in op) for op in case['history']]
    w = execute(cfg, hist, stop_at_first=False)
    text = ['cfg %r' % (cfg,)]
    for line, out in zip(w.lines, w.outs):
        text.append('  %-28s -> %s' % (line, out))
    for kind, t in w.fails:
        text.append('ORACLE FAILURE [%s]: %s' % (kind, t))
    if not w.fails:
        text.append('oracle: no failure')
    return (not w.fails), '\n'.join(text)
