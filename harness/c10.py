"""C10 — slicing/indexing select results behaves like slicing the full result list.

correspondence: real SelectResults (SQLite, executed) and the SQL text rendered for sqlite / mysql /
postgres, against the Lean model driver (`drv_c10`).
oracle: Python list slicing / indexing of `list(base_select)`.
"""
import itertools
import re

from vlib import sqlo

PROP = 'C10'
META = {
    'extractors': ['slice', 'getitem', 'selops'],
    'technique': 'Lean 4 proof (induction over the slice chain; window algebra) about the source as TRANSLATED on every run (PyMini translation of __getitem__, PyOps translation of clone/__init__ on a heap of select objects, extracted LIMIT/OFFSET if-chains) + differential correspondence',
    'level_text': ('Theorems C10_chain_eq_list_slicing / C10_translated_chain_eq_list_slicing: for every row list, every '
                   'chain of slices and optional index, SelectResults.__getitem__ + the dialect window clause equals '
                   'Python list slicing, for sqlite, mysql and postgres.  __getitem__ itself is TRANSLATED from /repo on '
                   'every run into a deeply embedded Python fragment (PyMini) and proved equal to the model on ALL '
                   'inputs by symbolic execution (C10_translated_slice/index_eq_model); the dialect clause if-chains and '
                   'the guard in Select.__sqlrepr__ are regenerated too; clone() and the ops-touching part of __init__ are translated into a heap '
                   'embedding (PyOps): C10_translated_clone_fresh (no existing ops dict is written, any heap/oracle) and '
                   'C10_translated_session_eq_list_slicing (any session re-slicing any earlier select: every variable, read '
                   'afterwards, equals the list session); the translated program is additionally run '
                   'against the real code on an exhaustive small scope plus random chains.'),
    'level_note': ('Trusted: Lean kernel; translators vlib/extractors/getitem.py + PyMini semantics (Python semantics of ints/None/and/or/not/if/assert) and vlib/extractors/selops.py + PyOps semantics (dict copy/update/get/pop/del, **kwargs always a new dict; statements not mentioning an ops dict are skipped, their values are oracle-quantified; syntactic scan: no other function of sresults.py / inheritance writes an ops dict), extractor vlib/extractors/slice.py; reference LIMIT/OFFSET semantics '
                   '(SQLite cross-checked by execution; MySQL `LIMIT n,-1` = to the end and PostgreSQL semantics from '
                   'documentation); the sampling correspondence of __getitem__.'),
    'rule': ('cases = (dialect, table size n, chain of slices, optional index, ordering variant); exhaustive over bounds in '
             '[-n-2,n+2]+None for single slices (+index) and chains of two on small n, seeded random chains of three beyond; '
             'plus a re-use stream (one select object sliced several times, every window and the select itself re-read afterwards); distinct = distinct (n, chain, index); non-trivial = the chain is not the identity'),
    'trusted': ['reference LIMIT/OFFSET grammar+semantics per dialect (Model/Slice.lean clauseOf/sem); mysql and postgres not executable here',
                'Python list slicing model pySlice/pyIndex (cross-checked against CPython on every case)'],
    'modelled': ['SQLite engine LIMIT/OFFSET behaviour (executed, not verified)', 'mssql/sybase/maxdb/firebird: no OFFSET support or own syntax; outside the theorem'],
    'assumptions': ['the full ordered result list(select) is what SQLite returns for the unsliced query (its ORDER is checked against the requested orderBy / reversed() / declared or inherited sqlmeta.defaultOrder on every table size)'],
    'exhaustive': False,
}

_env = {}


def env():
    if _env:
        return _env
    sqlo.setup()
    import sqlobject
    from sqlobject import SQLObject, IntCol
    conn = sqlo.mem_conn()
    classes = {}
    for n in range(0, 9):
        name = sqlo.uniq('C10T%d_' % n)
        cls = type(name, (SQLObject,), {'_connection': conn, 'v': IntCol(), 'w': IntCol()})
        cls.createTable()
        for i in range(n):
            cls(id=i, v=i, w=(i * 5) % 7)      # explicit keys, 0 included
        classes[n] = cls
        # a class with a declared default order, and a plain subclass that only inherits it
        dname = sqlo.uniq('C10D%d_' % n)
        meta = type('sqlmeta', (), {'defaultOrder': '-v'})
        dcls = type(dname, (SQLObject,), {'_connection': conn, 'v': IntCol(), 'w': IntCol(), 'sqlmeta': meta})
        scls = type(sqlo.uniq('C10S%d_' % n), (dcls,), {'_connection': conn})
        for c in (dcls, scls):
            c.createTable()
            for i in range(n):
                c(id=i, v=i, w=(i * 5) % 7)
        classes[('dflt', n)] = dcls
        classes[('dfltsub', n)] = scls
        # an inheritance hierarchy selected through its root; children prefetched in batches of 2 rows
        from sqlobject.inheritance import InheritableSQLObject
        pcls = type(sqlo.uniq('C10P%d_' % n), (InheritableSQLObject,), {'_connection': conn, 'v': IntCol(), 'w': IntCol()})
        ccls = type(sqlo.uniq('C10K%d_' % n), (pcls,), {'_connection': conn, 'z': IntCol(default=0)})
        pcls.createTable()
        ccls.createTable()
        for i in range(n):
            (ccls if i % 2 == 0 else pcls)(v=i, w=(i * 5) % 7)
        classes[('inh', n)] = pcls
    from sqlobject.inheritance.iteration import InheritableIteration
    InheritableIteration.defaultArraySize = 2       # several fetchmany() batches with a handful of rows
    _env.update(conn=conn, classes=classes)
    return _env


VARIANTS = ['v', '-v', 'rev', 'w', 'none', 'wrev', 'wdesc', 'dflt', 'dfltsub', 'wonly', 'wonlyrev', 'inh']


def requested_order(n, variant):
    """the v values of the rows in the order the select asks for (None: no order requested)"""
    vs = list(range(n))
    key = {'v': lambda i: i, 'inh': lambda i: i, '-v': lambda i: -i, 'rev': lambda i: -i, 'dflt': lambda i: -i, 'dfltsub': lambda i: -i,
           'w': lambda i: ((i * 5) % 7, i), 'wrev': lambda i: (-((i * 5) % 7), -i),
           'wdesc': lambda i: (-((i * 5) % 7), i)}.get(variant)
    return None if key is None else sorted(vs, key=key)


def base_select(n, variant):
    if variant in ('dflt', 'dfltsub'):
        return env()['classes'][(variant, n)].select()
    if variant == 'inh':
        return env()['classes'][('inh', n)].select(orderBy='v')
    cls = env()['classes'][n]
    if variant == 'v':
        return cls.select(orderBy='v')
    if variant == '-v':
        return cls.select(orderBy='-v')
    if variant == 'rev':
        return cls.select(orderBy='v').reversed()
    if variant == 'w':
        return cls.select(orderBy=['w', 'v'])
    if variant == 'wrev':
        return cls.select(orderBy=['w', 'v']).reversed()
    if variant == 'wdesc':
        return cls.select(orderBy=('-w', 'v'))
    if variant == 'wonly':
        return cls.select(orderBy='w')            # ties: several rows share a sort key
    if variant == 'wonlyrev':
        return cls.select(orderBy='w').reversed()
    return cls.select()


def fmt_bound(x):
    return '-' if x is None else str(x)


def line_for(dialect, n, ops, ix):
    toks = [dialect, str(n)] + ['%s:%s' % (fmt_bound(a), fmt_bound(b)) for a, b in ops]
    if ix is not None:
        toks.append('i=%d' % ix)
    return ' '.join(toks)


_clause_re = re.compile(r'( LIMIT [-0-9, ]+(?: OFFSET [-0-9]+)?| OFFSET [-0-9]+)$')


def clause_of(sql):
    m = _clause_re.search(sql)
    if not m:
        return 'sql'
    return 'sql ' + ' '.join(m.group(1).split())


def run_impl(n, ops, ix, variant):
    """returns (result string in ranks of the full list, final object, full list)"""
    from sqlobject.sresults import SelectResults
    base = base_select(n, variant)
    full = list(base)
    rank = {obj.id: i for i, obj in enumerate(full)}
    sel = base
    try:
        for a, b in ops:
            sel = sel[a:b]
        if ix is None:
            res = 'rows' + ''.join(' %d' % rank[o.id] for o in list(sel))
        else:
            res = 'item %d' % rank[sel[ix].id]
    except IndexError:
        res = 'IndexError'
    except Exception as e:  # anything else the real code raises is an observable outcome
        res = 'error:%s' % type(e).__name__
    return res, sel, full


def run_oracle(full, ops, ix):
    l = list(range(len(full)))
    for a, b in ops:
        l = l[a:b]
    if ix is None:
        return 'rows' + ''.join(' %d' % x for x in l)
    try:
        return 'item %d' % l[ix]
    except IndexError:
        return 'IndexError'


def run_reuse(n, ops, ix, variant):
    """the SAME select object is sliced several times (pagination): every window, evaluated after all of
    them were cut, and the select itself must still be what list slicing gives.  -> list of (label, impl, oracle)"""
    base = base_select(n, variant)
    full = list(base)
    rank = {obj.id: i for i, obj in enumerate(full)}
    ids = list(range(len(full)))

    def rows(sel):
        try:
            return 'rows' + ''.join(' %d' % rank[o.id] for o in list(sel))
        except Exception as e:
            return 'error:%s' % type(e).__name__

    def orows(l):
        return 'rows' + ''.join(' %d' % x for x in l)
    out = []
    try:
        wins = [base[a:b] for a, b in ops]
        # windows of the first window, cut after it was created
        sub = [wins[0][a:b] for a, b in ops[1:]]
    except Exception as e:
        return [('cutting windows', 'error:%s' % type(e).__name__, 'ok')]
    if ix is not None:
        try:
            got = 'item %d' % rank[base[ix].id]
        except IndexError:
            got = 'IndexError'
        except Exception as e:
            got = 'error:%s' % type(e).__name__
        try:
            want = 'item %d' % ids[ix]
        except IndexError:
            want = 'IndexError'
        out.append(('s[%d] after slicing s' % ix, got, want))
    for (a, b), w in zip(ops, wins):
        out.append(('s[%s:%s] after all windows were cut' % (fmt_bound(a), fmt_bound(b)), rows(w), orows(ids[a:b])))
    a0, b0 = ops[0]
    for (a, b), w in zip(ops[1:], sub):
        out.append(('s[%s:%s][%s:%s] after its siblings were cut' % (fmt_bound(a0), fmt_bound(b0), fmt_bound(a), fmt_bound(b)),
                    rows(w), orows(ids[a0:b0][a:b])))
    out.append(('s itself after slicing it', rows(base), orows(ids)))
    return out


def gen_sessions(ctx):
    rng = ctx.rng
    out = [(6, [(0, 0, 2), (0, 2, 4), (1, 1, None), (0, None, None)]),
           (6, [(0, 0, 3), (0, 3, 6), (0, 0, 3), (1, 1, None), (0, 4, None)]),
           (5, [(0, -2, None), (1, 0, 1), (0, 1, 4), (3, -2, None), (0, None, None)])]
    for _ in range(ctx.budget(400, 20000)):
        n = rng.randint(0, 8)

        def bnd():
            r = rng.random()
            if r < 0.25:
                return None
            if r < 0.85:
                return rng.randint(0, n + 2)
            return rng.randint(-n - 2, -1)
        k = rng.randint(2, 6)
        ops = []
        for j in range(k):
            # mostly re-slice the base or an early window: that is what pagination does
            i = 0 if rng.random() < 0.5 else rng.randint(0, j)
            ops.append((i, bnd(), bnd()))
        out.append((n, ops))
    return out


def run_session(n, ops, variant):
    """v_k = v_i[a:b] for every statement; every variable read AFTER the whole session.
    -> (implementation answer, list answer), both `rows … ; rows …`"""
    base = base_select(n, variant)
    full = list(base)
    rank = {obj.id: i for i, obj in enumerate(full)}
    vals, lists = [base], [list(range(len(full)))]
    for i, a, b in ops:
        lists.append(lists[i][a:b])
        v = vals[i]
        if isinstance(v, str):
            vals.append(v)
            continue
        try:
            vals.append(v[a:b])
        except Exception as e:
            vals.append('error:%s' % type(e).__name__)
    got = []
    for v in vals:
        if isinstance(v, str):
            got.append(v)
            continue
        try:
            first = 'rows' + ''.join(' %d' % rank[o.id] for o in list(v))
            again = 'rows' + ''.join(' %d' % rank[o.id] for o in list(v))
            # reading a select must not change it: the second reading is reported when it differs
            got.append(first if first == again else '%s THEN %s' % (first, again))
        except Exception as e:
            got.append('error:%s' % type(e).__name__)
    return ' ; '.join(got), ' ; '.join('rows' + ''.join(' %d' % x for x in l) for l in lists)


def sql_text(sel, dialect):
    from sqlobject.sresults import SelectResults
    from sqlobject.sqlbuilder import sqlrepr
    if not isinstance(sel, SelectResults):
        return 'list'
    try:
        return clause_of(sqlrepr(sel.queryForSelect(), dialect))
    except Exception as e:
        return 'sql-error'


def gen_cases(ctx):
    rng = ctx.rng
    cases = []
    deep = ctx.deep or ctx.tier == 'thorough'
    # corpus: the chains that failed on the unrepaired tree, first
    corpus = [
        (6, [(None, 0)], None), (6, [(0, 0)], None), (6, [(2, None)], None), (6, [(0, 2), (3, None)], None),
        (6, [(0, 2)], 5), (6, [(-2, 0)], None), (6, [(1, 5), (-3, None)], 0), (3, [(1, None), (1, None)], 0),
        (6, [(4, 2)], None), (6, [(1, 3), (1, 9)], 1), (0, [(None, 0)], None), (5, [(None, None)], 7),
    ]
    cases += corpus
    max1 = 6 if deep else 5
    for n in range(0, max1 + 1):
        bounds = [None] + list(range(-n - 2, n + 3))
        for a in bounds:
            for b in bounds:
                cases.append((n, [(a, b)], None))
                # index after a single slice: a rotating subset of indices
                for ix in (0, n // 2, n + 1, -1, -n - 1):
                    cases.append((n, [(a, b)], ix))
    max2 = 4 if deep else 3
    for n in range(0, max2 + 1):
        bounds = [None] + list(range(-n - 2, n + 3))
        for a, b, c, d in itertools.product(bounds, repeat=4):
            cases.append((n, [(a, b), (c, d)], None))
    nrand = ctx.budget(4000, 200000)
    for _ in range(nrand):
        n = rng.randint(0, 8)

        def bnd():
            r = rng.random()
            if r < 0.2:
                return None
            if r < 0.75:
                return rng.randint(0, n + 2)
            return rng.randint(-n - 2, -1)
        k = rng.choice([1, 2, 3, 3, 3])
        ops = [(bnd(), bnd()) for _ in range(k)]
        ix = None
        if rng.random() < 0.4:
            ix = rng.randint(-n - 2, n + 2)
        cases.append((n, ops, ix))
    return cases


def run(ctx):
    env()
    broken = set()
    for n in range(0, 9):
        for variant in VARIANTS:
            want = requested_order(n, variant)
            objs = list(base_select(n, variant))
            if any(o is None for o in objs) or len(objs) != n:
                broken.add((n, variant))
                ctx.case(('full', n, variant), nontrivial=True, kind='full-list-rows')
                ctx.oracle_fail('C10:full-list %s %d' % (variant, n),
                                'the unsliced select (order %s) over a table of %d rows with keys 0..%d yields %s'
                                % (variant, n, n - 1, [None if o is None else o.id for o in objs]),
                                {'n': n, 'full_only': True, 'order': variant})
                continue
            got = [o.v for o in objs]
            ctx.case(('order', n, variant), nontrivial=n > 1, kind='full-list-order')
            if want is not None and got != want:
                ctx.oracle_fail('C10:order %s %d' % (variant, n),
                                'the unsliced select (order %s, %d rows) yields v = %s, the requested order is %s'
                                % (variant, n, got, want), {'n': n, 'order_only': True, 'order': variant})
    cases = gen_cases(ctx)
    dialects = ['sqlite', 'mysql', 'postgres']
    # model answers for all cases and dialects in one driver call
    lines = []
    for (n, ops, ix) in cases:
        for d in dialects:
            lines.append(line_for(d, n, ops, ix))
    sessions = gen_sessions(ctx)
    nchain = len(lines)
    for (n, sops) in sessions:
        lines.append('S sqlite %d ' % n + ' '.join('%d:%s:%s' % (i, fmt_bound(a), fmt_bound(b)) for i, a, b in sops))
    outs = ctx.model(lines)
    for sidx, (n, sops) in enumerate(sessions):
        variant = VARIANTS[sidx % len(VARIANTS)]
        if (n, variant) in broken:
            continue
        got, want = run_session(n, sops, variant)
        desc = {'n': n, 'session': sops, 'order': variant}
        ctx.case(('session', n, tuple(sops)), nontrivial=True, kind='session-%d' % len(sops),
                 sample={'case': desc, 'impl': got, 'list': want})
        if got != want:
            ctx.oracle_fail('C10:session %d %s' % (n, sops),
                            'one select of %d rows (order %s), session %s (statement k: v_k = v_i[a:b]); variables read '
                            'afterwards give %s, the lists give %s' % (n, variant, sops, got, want), desc)
        if outs is not None:
            ctx.compare('session on the heap of selects: translated clone/__init__/__getitem__ = SelectResults on SQLite',
                        desc, outs[nchain + sidx], got)
    k = 0
    for idx, (n, ops, ix) in enumerate(cases):
        variant = VARIANTS[idx % len(VARIANTS)]
        if (n, variant) in broken:
            k += len(dialects)
            continue
        res, sel, full = run_impl(n, ops, ix, variant)
        oracle = run_oracle(full, ops, ix)
        ident = all((not a) and b is None for a, b in ops)
        desc = {'n': n, 'ops': ops, 'index': ix, 'order': variant}
        ctx.case((n, tuple(ops), ix), nontrivial=not ident,
                 sample={'case': desc, 'impl': res, 'list': oracle},
                 kind='len%d%s%s' % (len(ops), '+idx' if ix is not None else '',
                                     '+neg' if any((a or 0) < 0 or (b or 0) < 0 for a, b in ops) else ''))
        if res != oracle:
            ctx.oracle_fail('C10:%s' % line_for('sqlite', n, ops, ix),
                            'select%s%s on %d rows (order %s) gives %s, the list gives %s'
                            % (''.join('[%s:%s]' % (fmt_bound(a), fmt_bound(b)) for a, b in ops),
                               '' if ix is None else '[%d]' % ix, n, variant, res, oracle), desc)
        if len(ops) >= 2 and (idx % 7 == 0 or idx < 12):
            for label, got, want in run_reuse(n, ops, ix, variant):
                ctx.case(('reuse', n, tuple(ops), ix, label), nontrivial=True, kind='reuse-same-select')
                if got != want:
                    ctx.oracle_fail('C10:reuse %s' % line_for('sqlite', n, ops, ix),
                                    'one select of %d rows (order %s) sliced repeatedly %s: %s gives %s, the list gives %s'
                                    % (n, variant, ops, label, got, want), dict(desc, reuse=True))
        for d in dialects:
            if outs is not None:
                mres, msql = outs[k].split(' | ')
                if d == 'sqlite':
                    ctx.compare('rows: model = SelectResults on SQLite', desc, mres, res)
                ctx.compare('window clause text (%s): model = sqlrepr' % d, desc, msql, sql_text(sel, d))
            k += 1


def replay(case):
    env()
    if case.get('full_only'):
        objs = list(base_select(case['n'], case['order']))
        ok = len(objs) == case['n'] and not any(o is None for o in objs)
        return ok, 'implementation: %s' % [None if o is None else o.id for o in objs]
    if case.get('order_only'):
        want = requested_order(case['n'], case['order'])
        got = [o.v for o in base_select(case['n'], case['order'])]
        return got == want, 'implementation: %s\nrequested    : %s' % (got, want)
    if 'session' in case:
        got, want = run_session(case['n'], [tuple(x) for x in case['session']], case.get('order', 'v'))
        return got == want, 'implementation: %s\nlist oracle  : %s' % (got, want)
    ops = [tuple(x) for x in case['ops']]
    if case.get('reuse'):
        r = run_reuse(case['n'], ops, case['index'], case.get('order', 'v'))
        bad = [x for x in r if x[1] != x[2]]
        return not bad, '\n'.join('%s: implementation %s, list %s' % x for x in (bad or r))
    res, sel, full = run_impl(case['n'], ops, case['index'], case.get('order', 'v'))
    oracle = run_oracle(full, ops, case['index'])
    return res == oracle, 'implementation: %s\nlist oracle  : %s' % (res, oracle)
