"""C15 — inheritance hierarchies stay consistent across their tables.

correspondence: histories of create / get / read / write / set / select / selectBy / destroy / deleteMany / deleteBy over
dynamically declared InheritableSQLObject hierarchies (a fixed three-level one with sibling
subclasses and a column-less leaf, plus seeded random class trees), every level used as the entry
point, on in-memory SQLite, against the Lean model driver (`drv_c15`): op answers (allocated id,
INSERT / DELETE statement order, class of the fetched instance, values), the raw content of every
level's table after every step, and what every entry level shows for the touched ids.
oracle (no model involved): after every step the raw table dumps must satisfy the no-orphan
invariant; a create adds exactly one row per level of the created class's ancestor chain sharing
one id; every entry level returns an instance of the most-derived class (by the raw rows) or
NotFound exactly when that level has no row; every attribute read through every level equals the
raw row of the declaring class; a write changes exactly that cell; selects return exactly the ids
of the class's own table that satisfy the reference predicate, as most-derived instances, once;
destroy leaves no row of that id at any level.
"""
import json
import os
import re

from vlib import sqlo

PROP = 'C15'
META = {
    'extractors': ['inherit', 'pyinherit', 'pyinhsel'],
    'technique': ('Lean 4 proof (invariant preserved by every operation, induction over histories and over the '
                  'class tree) + extracted control-flow facts of destroySelf / get / _create / deleteMany / deleteBy '
                  '+ differential correspondence on histories + raw-table oracle; InheritableSQLObject.destroySelf / '
                  'deleteMany / deleteBy / _create / get are TRANSLATED from the AST on every run '
                  '(vlib/extractors/pyinherit.py -> Extracted/PyInherit.lean, deep embedding Model/PyInherit.lean with an '
                  'explicit interface record for the calls into other objects) and the translated programs are proved equal '
                  'to the hand model by symbolic execution, per level and along the whole class chain (C15_translated_*); '
                  'InheritableSelectResults.__init__ (the join-chain construction) is translated as well '
                  '(vlib/extractors/pyinhsel.py -> Extracted/PyInhSel.lean, embedding Model/PyInhSel.lean with sets, dicts '
                  'with del, continue, SQL expression values) and proved to build, for every class forest and registry order, '
                  'a query whose rows are the hand model\'s selectRow rows, one per id (C15_translated_selectInit_*)'),
    'level_text': ('Theorems C15_*: for every well-formed class tree (any depth, any branching, forests) and every '
                   'history of create / attribute write / set / destroy through any entry level and class-level '
                   'deleteMany / deleteBy, the tables satisfy the no-orphan invariant (C15_no_orphan_inv); get through '
                   'any level returns the unique most-derived class or NotFound exactly when that level has no row; an '
                   'inherited attribute has a single store (the declaring ancestor\'s row) seen identically through '
                   'every level; select / selectBy on a class return exactly the rows of its own table that satisfy the '
                   'filter (own and inherited columns), as instances of that class or a subclass; destroy and the bulk '
                   'deletes remove the rows at every level.  The hand-written model is compared with the real code on '
                   'generated histories (answers, INSERT/DELETE statement order, tables after every step, views through '
                   'every level); five control-flow facts are re-read from the source on every run and the theorems '
                   'are stated over them.  The hand model is not only hand-written: the bodies of destroySelf, deleteMany, '
                   'deleteBy, _create and get of InheritableSQLObject, translated from the AST on this run, are proved to '
                   'compute the hand model\'s destroyGuarded / destroyInst, deleteMany, deleteBy, insertUp (+ the clean-up '
                   'after a failed INSERT, for every exception class) and get — for every class tree, every level, every '
                   'connection and all tables (C15_translated_*_level: one level, the neighbouring level being the model\'s '
                   'function; C15_translated_*_eq_model: the translated method calling itself along the class chain, by '
                   'induction over the depth).  The SELECT side: InheritableSelectResults.__init__, translated on this run, is '
                   'proved (C15_translated_selectInit_eq_algo: any forest, any clause, any allClasses() order) to hand '
                   'SelectResults.__init__ the clause AND-ed with the joins a pure function computes, and, for filters over own '
                   'and inherited columns, to build a query whose rows (SQL semantics over the model\'s per-level tables) are '
                   'exactly the model\'s selectRow / selectByRow ids, one row per id (C15_translated_selectInit_eq_model, '
                   '_selectBy_eq_model; with no orphans: exactly the rows of the class\'s own table that satisfy the filter, '
                   'C15_translated_child_select_own_kind); C15_translated_fetch_most_derived restates the fetch theorem about '
                   'the translated get.'),
    'level_note': ('Trusted: Lean kernel; the extractor vlib/extractors/inherit.py; SQLite (joins, integer comparison, '
                   'AUTOINCREMENT id allocation: modelled, cross-checked by execution); the instance cache and the '
                   'per-level cached column values are taken as coherent with the rows (properties C04/C05; exercised '
                   'here with a warm cache and with the cache emptied before every step); the sampling correspondence.'),
    'rule': ('case = (class tree, history of <= 25 ops, warm or cold instance cache); distinct = distinct cases; '
             'non-trivial = the history creates at least one instance of a subclass and uses at least two entry levels; '
             'plus a systematic sweep (every class created x every class as entry level x every operation kind) on the '
             'three-level hierarchy with sibling subclasses'),
    'trusted': ['the AST translator vlib/extractors/pyinhsel.py and the reference semantics of the deep embedding '
                'Model/PyInhSel.lean; the SQL semantics given to clauses (Model/InhSelX.lean: Sat = cross product of the FROM '
                'tables filtered by the WHERE clause)',
                'the AST translator vlib/extractors/pyinherit.py and the reference semantics of the deep embedding '
                'Model/PyInherit.lean (locals, dict values as insertion-ordered pair lists, for over a snapshot, while with a '
                'fuel bound, try/except, calls through an interface record)',
                'the interface assumed of SQLObject.destroySelf / _create / get, the parent class constructor, select / '
                'selectBy and the sqlmeta attributes: stated in the header of Model/InheritX.lean',
                'SQL semantics of the generated joins / integer comparisons / AUTOINCREMENT (SQLite executed, not verified)',
                'instance cache and cached column values coherent with the rows (C04/C05); the model reads the row'],
    'modelled': ['SQLite engine', 'id allocation (AUTOINCREMENT high-water mark per root table, kept by the driver)',
                 'InheritableIteration batching / child prefetch is modelled as one get per selected id',
                 'which table an id comparison is rewritten onto (_patch_id_clause) is not modelled (invisible without orphans)',
                 'deleteMany / deleteBy are modelled per id (a destroy touches only rows of its own id)',
                 'the referencing table (plain class R with cascade=False / null / True keys to the levels) is not in the '
                 'model: which levels are restricted is read from R by raw SELECT and given to the model as data',
                 'fetchmany() batching of InheritableIteration (results spanning several batches are produced by setting the '
                 'class attribute InheritableIteration.defaultArraySize to 1..3 in a third of the histories; the 10000-row '
                 'default is not reached) and the per-registry scan of InheritableSelectResults (all hierarchies of a run '
                 'share ONE class registry and are declared one after the other, each after selects of the earlier ones) '
                 'are exercised by the harness, not modelled',
                 'derived selects (cls.select(f1).filter(f2)...) are modelled as the select of the conjunction; an operation '
                 'through an instance that went through pickle.dumps / loads with an emptied cache is modelled as the same '
                 'operation through a fetched instance (what __getstate__/__setstate__ keep of the _parent chain is checked '
                 'by the oracle and the correspondence only)',
                 'the per-level value caches of the main connection and Transaction.commit (expiry of every level of every '
                 'chain fetched in the transaction: C15_commit_after_write_and_destroy_coherent); what the real commit '
                 'expires is checked by the oracle only: instances loaded on the main connection before a transaction '
                 '(all levels, all attributes read) are read again after commit / rollback through the old handle and through '
                 'get() at every level against the raw rows; transaction-side instances are held until the transaction ends '
                 '(collected ones are the open C07 findings)',
                 'connections: a state is a map connection -> tables; a transaction is begin/rollback/commit of the default '
                 'database (file-backed in those cases, so that what bypasses the transaction is committed on its own)'],
    'assumptions': ['translated-method theorems: instances are built by _init (cold instance cache: _parent is None before '
                    'get attaches it); a table without childName column holds no tag; the keywords of _create come in '
                    'declaration order (a dict is used through lookups only); select / selectBy return exactly the ids the '
                    'model selects (any order); InheritableSQLMeta.addColumn (getter/setter delegation closures built with '
                    'eval / nested functions) is NOT translated: it stays hand-modelled and tied by the differential '
                    'correspondence; InheritableSQLObject.selectBy, _findAlternateID and select (with its nested functions '
                    '_get_patched / _patch_id_clause: in-out parameter, sound when the clause object is not shared) ARE '
                    'translated and proved for all inputs (C15_translated_selectBy_eq_model, _byAlternate_eq_model, '
                    '_select_patch_eq, _select_reduces, _select_eq_model for arbitrary clauses under tables/meaning hypotheses, '
                    '_select_filter_eq_model for filters without an id comparison below NOT; list(select) / '
                    'SQLObject._SO_fetchAlternateID are interface); InheritableIteration.next and fetchChildren ARE '
                    'translated; fetchChildren is run against a world with the TWO cursors explicit (Model/InhIterX.lean) on '
                    'closed witnesses and PROVED for every batch (C15_translated_fetchChildren_eq_model: one query per '
                    'childName group on the second cursor, rows stored by id, the own cursor and the batch untouched); every '
                    'step of the translated next is proved (in-batch, refill = fetchmany + the translated fetchChildren, '
                    'StopIteration) and the drain theorem C15_translated_iteration_eq_model holds for EVERY batch size >= 1: '
                    'one sourceClass.get(id, selectResults=rest of the row, childResults=cr) per selected root row, in order, '
                    'each once, including rows beyond the current batch; NOT proved: that cr is the child table\'s row under a '
                    'faithful-database hypothesis, and the tie of that get(selectResults, childResults) call to the translated '
                    'get (the model\'s most-derived instance) - that last link stays with the differential correspondence',
                    'translated InheritableSelectResults.__init__ (C15_translated_selectInit_*): interface in the header of '
                    'Model/InhSelX.lean (tablesUsedSet = the tables of the clause, allClasses() = every class once in any order, '
                    'distinct classes have distinct table names, SelectResults.__init__ selects FROM the tables of the clause '
                    'plus the source table); the model tie is for filters over own and inherited columns of the class '
                    '(all used tables on one class chain) with inheritedTables / orderBy absent; the general statement '
                    '(any clause, any forest) is the pure join computation C15_translated_selectInit_eq_algo',
                    'only successful operations plus NotFound / AttributeError are modelled; failure atomicity of a child '
                    'INSERT and of a multi-level set() is property C06',
                    'objects are fetched through a class for every operation (public API); destroying the private '
                    '`_parent` instance directly or assigning the reserved `childName` column is outside the property',
                    'integer columns without NULLs in the filters',
                    'a destroy refused by a cascade=False reference to a NON-root level leaves the rows below without their '
                    'root row: open finding of property C06 (C06:inheritable-destroySelf-fails-after-parent-row-deleted); '
                    'kept as C15_refused_destroy_keeps_no_orphan_full_FALSE, replayed as a note, generated histories put '
                    'restrictions on root-level rows only; bulk deletes are not generated while a restriction exists',
                    'documented limitation, not checked: Sub.select(orderBy="<own column name>") fails because the query '
                    'runs on the root table (docs/Inheritance.rst)'],
    'exhaustive': False,
}

CMPS = ['eq', 'ne', 'lt', 'le', 'gt', 'ge']
PYCMP = {'eq': lambda x, y: x == y, 'ne': lambda x, y: x != y, 'lt': lambda x, y: x < y,
         'le': lambda x, y: x <= y, 'gt': lambda x, y: x > y, 'ge': lambda x, y: x >= y}

# the three-level hierarchy with sibling subclasses of the property statement:
#   K0(2 cols) <- K1(1) <- K3(1), K4(0 cols, inheritable) ; K0 <- K2(1) ; K1 <- K5 (0 cols, not inheritable)
DEFAULT_BATCH = 10000
# a hierarchy with alternateID columns on the root (v0k1) and on the middle class (v1k1)
ALT_SHAPE = [(None, 2, 1, 1), (0, 2, 1, 1), (0, 1, 1, 0), (1, 1, 1, 0), (1, 0, 1, 0), (1, 1, 0, 0)]
BASE_SHAPE = [(None, 2, 1), (0, 1, 1), (0, 1, 1), (1, 1, 1), (1, 0, 1), (1, 0, 0)]

_hiers = {}
_counter = [0]


def anc(shape, c):
    out = [c]
    while shape[out[-1]][0] is not None:
        out.append(shape[out[-1]][0])
    return out  # leaf first


def root_of(shape, c):
    return anc(shape, c)[-1]


class Hier(object):
    """the real classes of one tree shape on a private class registry: `conn` is the classes'
    default connection (in-memory, or file-backed when transactions must be isolated from it),
    `conn2` a second, independent in-memory database whose tables were created with
    `createTable(connection=conn2)`; `R` is a plain SQLObject class holding foreign keys to the
    hierarchy's classes: `r<a>` cascade=False, `n<a>` cascade='null',
    `c<a>` cascade=True."""

    def __init__(self, shape, filedb=False):
        sqlo.setup()
        from sqlobject import IntCol, ForeignKey, SQLObject
        from sqlobject.inheritance import InheritableSQLObject
        from sqlobject.sqlite.sqliteconnection import SQLiteConnection

        class LogConn(SQLiteConnection):
            stmts = None

            def _executeRetry(self, conn, cursor, query):
                if self.stmts is not None:
                    self.stmts.append(query)
                return SQLiteConnection._executeRetry(self, conn, cursor, query)

        self.shape = shape
        if filedb:
            _counter[0] += 1
            self.conn = LogConn(os.path.join(scratch_dir(), 'c15_%d.db' % _counter[0]), timeout=0.3)
        else:
            self.conn = LogConn(':memory:')
        self.conn2 = LogConn(':memory:')
        self.tx = None
        self.keep = []   # transaction-side instances, held until the transaction ends
        _counter[0] += 1
        hid = _counter[0]
        # ONE class registry for all hierarchies of the run, each declared when first needed: every
        # hierarchy but the first is declared AFTER inheritable selects have already run in the registry
        self.reg = 'c15shared'
        self.classes = []
        self.names = []
        for c, (par, ncols, inh, alt) in enumerate(shape):
            name = 'H%dK%d' % (hid, c)
            ns = {'_connection': self.conn,
                  'sqlmeta': type('sqlmeta', (), {'registry': self.reg})}
            for k in range(ncols):
                if alt and k == ncols - 1:
                    ns['v%dk%d' % (c, k)] = IntCol(alternateID=True, default=None)
                else:
                    ns['v%dk%d' % (c, k)] = IntCol(default=0)
            if not inh:
                ns['_inheritable'] = False
            base = InheritableSQLObject if par is None else self.classes[par]
            ns['__module__'] = __name__       # importable by name: instances can be pickled
            cls = type(name, (base,), ns)
            globals()[name] = cls
            self.classes.append(cls)
            self.names.append(name)
        ns = {'_connection': self.conn, 'sqlmeta': type('sqlmeta', (), {'registry': self.reg})}
        self.refcols = []
        for c, (par, ncols, inh, alt) in enumerate(shape):
            # (the generators put cascade=False references on root-level rows only; the lower-level
            # columns serve the C06 witness)
            ns['r%d' % c] = ForeignKey(self.names[c], cascade=False, default=None)
            self.refcols.append(('r', c))
            ns['n%d' % c] = ForeignKey(self.names[c], cascade='null', default=None)
            ns['c%d' % c] = ForeignKey(self.names[c], cascade=True, default=None)
            self.refcols += [('n', c), ('c', c)]
        self.R = type('H%dR' % hid, (SQLObject,), ns)
        for cls in self.classes + [self.R]:
            cls.createTable()
            cls.createTable(connection=self.conn2)
        self.idx = dict((n, k) for k, n in enumerate(self.names))
        self.tables = [str(cls.sqlmeta.table) for cls in self.classes]
        self.tidx = dict((t, k) for k, t in enumerate(self.tables))
        self.rtable = str(self.R.sqlmeta.table)

    # k = 0: the default database (through the open transaction if there is one); k = 1: the second one
    def cx(self, k):
        """the `connection=` argument for operations on database k (None = the classes' default)"""
        return self.conn2 if k == 1 else self.tx

    def q(self, k):
        return self.conn2 if k == 1 else (self.tx or self.conn)

    def logc(self, k):
        return self.conn2 if k == 1 else self.conn

    def clear_caches(self):
        self.conn.cache.clear()
        self.conn2.cache.clear()
        if self.tx is not None:
            self.tx.cache.clear()

    def reset(self):
        if self.tx is not None:
            try:
                self.tx.rollback()
            except Exception:
                pass
            self.tx = None
        self.keep = []
        for conn in (self.conn, self.conn2):
            for t in self.tables + [self.rtable]:
                conn.query('DELETE FROM %s' % t)
            conn.query('DELETE FROM sqlite_sequence')
            conn.cache.clear()

    def raw(self, k=0):
        """{class index: {id: (childName index | None | 'BAD:x', (vals...))}} by raw SELECTs"""
        out = {}
        q = self.q(k)
        for c, cls in enumerate(self.classes):
            ncols = self.shape[c][1]
            cols = ['id'] + ['v%dk%d' % (c, k2) for k2 in range(ncols)]
            if self.shape[c][2]:
                cols.append('child_name')
            rows = q.queryAll('SELECT %s FROM %s ORDER BY id' % (', '.join(cols), self.tables[c]))
            d = {}
            for r in rows:
                child = None
                if self.shape[c][2]:
                    cn = r[-1]
                    child = None if cn is None else self.idx.get(cn, 'BAD:%s' % cn)
                d[r[0]] = (child, tuple(r[1:1 + ncols]))
            out[c] = d
        return out

    def blocked_levels(self, k, i):
        """levels whose row `i` is referenced through a cascade=False key (raw SELECT on R's table)"""
        out = []
        for pol, c in self.refcols:
            if pol == 'r':
                n = self.q(k).queryAll('SELECT COUNT(*) FROM %s WHERE r%d_id = %d' % (self.rtable, c, i))[0][0]
                if n:
                    out.append(c)
        return out


_scratch = []


def scratch_dir():
    if not _scratch:
        import atexit
        import shutil
        import tempfile
        d = tempfile.mkdtemp(prefix='c15_')
        _scratch.append(d)
        atexit.register(lambda: shutil.rmtree(d, ignore_errors=True))
    return _scratch[0]


def hier_for(shape, filedb=False):
    key = json.dumps([shape, filedb])
    if not _hiers:
        # primer: a small hierarchy is declared and selected through BEFORE any hierarchy under test is
        # declared in the shared registry, so that every tested hierarchy (also in a replay, which
        # runs one case in a fresh process) is a late-declared one
        primer = Hier([(None, 1, 1, 0), (0, 1, 1, 0)])
        _hiers['primer'] = primer
        primer.classes[1](v0k0=1)
        list(primer.classes[1].select(primer.classes[1].q.v0k0 == 1))
        list(primer.classes[0].select())
    if key not in _hiers:
        _hiers[key] = Hier(shape, filedb)
    return _hiers[key]


# ----------------------------------------------------------------------------- model lines

def fmt_filter(f):
    t = f[0]
    if t == 'tt':
        return 'tt'
    if t == 'attr':
        return 'attr %d %d %s %d' % (f[1], f[2], f[3], f[4])
    if t == 'id':
        return 'id %s %d' % (f[1], f[2])
    if t == 'not':
        return 'not ' + fmt_filter(f[1])
    return '%s %s %s' % (t, fmt_filter(f[1]), fmt_filter(f[2]))


def op_line(op):
    t = op[0]
    if t == 'create':
        return 'create %d' % op[1] + ''.join(' %d:%d:%d' % (a, k, v) for a, k, v in op[2])
    if t in ('get', 'destroy'):
        return '%s %d %d' % (t, op[1], op[2])
    if t == 'read':
        return 'read %d %d %d %d' % tuple(op[1:5])
    if t == 'write':
        return 'write %d %d %d %d %d' % tuple(op[1:6])
    if t == 'set':
        return 'set %d %d' % (op[1], op[2]) + ''.join(' %d:%d:%d' % (a, k, v) for a, k, v in op[3])
    if t == 'select':
        return 'select %d %s' % (op[1], fmt_filter(op[2]))
    if t == 'selectby':
        return 'selectby %d' % op[1] + ''.join(' %d:%d:%d' % (a, k, v) for a, k, v in op[2])
    if t in ('pread', 'pwrite', 'pdestroy'):
        # the same operation through an instance that was pickled and unpickled with a cold cache
        return op_line([t[1:]] + list(op[1:]))
    if t == 'selectf':
        # cls.select(f1).filter(f2) [.filter(f3)]: the rows of select(f1 AND f2 [AND f3])
        f = op[2]
        for g in op[3:]:
            f = ['and', f, g]
        return 'select %d %s' % (op[1], fmt_filter(f))
    if t == 'byalt':
        return 'byalt %d %d %d %d' % tuple(op[1:5])
    if t == 'batch':
        return 'batch %d' % op[1]
    if t == 'conn':
        return 'conn %d' % op[1]
    if t in ('begin', 'rollback', 'commit'):
        return t
    if t == 'addref':
        return 'addref %s %d %d' % (op[1], op[2], op[3])
    if t == 'deletemany':
        return 'bulkdel %d %s' % (op[1], fmt_filter(op[2]))
    if t == 'deleteby':
        return 'bulkdelby %d' % op[1] + ''.join(' %d:%d:%d' % (a, k, v) for a, k, v in op[2])
    raise ValueError(op)


def tree_line(shape):
    return 'tree %d' % len(shape) + ''.join(' %s %d %d' % ('-' if x[0] is None else x[0], x[1], x[2]) for x in shape)


def touched(op):
    t = op[0]
    if t in ('get', 'read', 'write', 'set', 'destroy', 'pread', 'pwrite', 'pdestroy'):
        return op[2]
    return None


def fmt_dump(raw):
    parts = []
    for c in sorted(raw):
        for i in sorted(raw[c]):
            child, vals = raw[c][i]
            parts.append('%d:%d:%s:%s' % (c, i, '-' if child is None else child, ','.join(str(v) for v in vals)))
    return 'dump' + ''.join(' ' + p for p in parts)


# ----------------------------------------------------------------------------- real code

def exc(e):
    if isinstance(e, AttributeError):
        return 'NoAttr'
    if isinstance(e, KeyError):
        return 'KeyError'
    return sqlo.exc_name(e)


def build_clause(h, c, f):
    from sqlobject.sqlbuilder import AND, OR, NOT
    cls = h.classes[c]
    t = f[0]
    if t == 'tt':
        return None
    if t == 'attr':
        fld = getattr(cls.q, 'v%dk%d' % (f[1], f[2]))
        return cmp_expr(fld, f[3], f[4])
    if t == 'id':
        return cmp_expr(cls.q.id, f[1], f[2])
    if t == 'not':
        return NOT(build_clause(h, c, f[1]) if f[1][0] != 'tt' else true_clause())
    a = build_clause(h, c, f[1]) if f[1][0] != 'tt' else true_clause()
    b = build_clause(h, c, f[2]) if f[2][0] != 'tt' else true_clause()
    return AND(a, b) if t == 'and' else OR(a, b)


def true_clause():
    from sqlobject.sqlbuilder import SQLConstant
    return SQLConstant('(1 = 1)')


def cmp_expr(fld, op, v):
    if op == 'eq':
        return fld == v
    if op == 'ne':
        return fld != v
    if op == 'lt':
        return fld < v
    if op == 'le':
        return fld <= v
    if op == 'gt':
        return fld > v
    return fld >= v


def stmt_tables(h, stmts, verb):
    out = []
    for q in stmts:
        m = re.match(r'\s*%s\s+(\w+)' % verb, q)
        if m and m.group(1) in h.tidx:
            out.append(h.tidx[m.group(1)])
    return out


def view_of(h, i, k=0):
    """what every entry level shows for id i on database k: (string in the driver's format, structured)"""
    parts = []
    struct = []
    cx = h.cx(k)
    for e, cls in enumerate(h.classes):
        try:
            o = cls.get(i, connection=cx)
            if h.tx is not None:
                h.keep.append(o)
            m = h.idx.get(type(o).__name__, -1)
            vals = []
            for a in reversed(anc(h.shape, m)) if m >= 0 else []:
                for k2 in range(h.shape[a][1]):
                    try:
                        v = getattr(o, 'v%dk%d' % (a, k2))
                        vals.append((a, k2, v, 'val %s' % (v,)))
                    except Exception as ex:
                        vals.append((a, k2, None, exc(ex)))
            parts.append('%d=%d[%s]' % (e, m, ','.join('%d.%d=%s' % (a, k2, s) for a, k2, _, s in vals)))
            struct.append((e, m, vals))
        except Exception as ex:
            parts.append('%d=%s' % (e, exc(ex)))
            struct.append((e, exc(ex), None))
    return 'views ' + ' '.join(parts), struct


def run_op(h, op, k=0):
    """execute one op on the real code, on database k (k = 1: every call gets `connection=conn2`;
    k = 0: the default connection, or the open transaction); returns the answer in the driver's format"""
    t = op[0]
    conn = h.logc(k)
    cx = h.cx(k)
    try:
        if t == 'create':
            cls = h.classes[op[1]]
            kw = dict(('v%dk%d' % (a, k2), v) for a, k2, v in op[2])
            if cx is not None:
                kw['connection'] = cx
            conn.stmts = []
            try:
                o = cls(**kw)
                if h.tx is not None:
                    h.keep.append(o)
            finally:
                stmts, conn.stmts = conn.stmts, None
            return 'id %d ins%s' % (o.id, ''.join(' %d' % c for c in stmt_tables(h, stmts, 'INSERT INTO')))
        if t == 'addref':
            kw = {'%s%dID' % ({'restrict': 'r', 'null': 'n', 'cascade': 'c'}[op[1]], op[2]): op[3]}
            if cx is not None:
                kw['connection'] = cx
            h.R(**kw)
            return 'ok'
        if t in ('pread', 'pwrite', 'pdestroy'):
            import pickle
            o = h.classes[op[1]].get(op[2], connection=cx)
            data = pickle.dumps(o)
            del o
            h.clear_caches()                 # another process / a cold cache: nothing of the chain is cached
            o = pickle.loads(data)
            if t == 'pread':
                return 'val %s' % (getattr(o, 'v%dk%d' % (op[3], op[4])),)
            if t == 'pwrite':
                setattr(o, 'v%dk%d' % (op[3], op[4]), op[5])
                return 'ok'
            conn.stmts = []
            res = 'ok'
            try:
                o.destroySelf()
            except Exception as ex:
                res = exc(ex)
            finally:
                stmts, conn.stmts = conn.stmts, None
            return '%s del%s' % (res, ''.join(' %d' % c for c in stmt_tables(h, stmts, 'DELETE FROM')))
        if t == 'selectf':
            cls = h.classes[op[1]]

            def derived():
                sr = cls.select(build_clause(h, op[1], op[2]), connection=cx)
                for g in op[3:]:
                    sr = sr.filter(build_clause(h, op[1], g))
                return sr
            res = list(derived())
            cnt = derived().count()
            return 'sel' + ''.join(' %d:%d' % (i, m) for i, m in
                                   sorted((o.id, h.idx.get(type(o).__name__, -1)) for o in res)) + \
                ('' if cnt == len(res) else ' count()=%d' % cnt)
        if t == 'byalt':
            name = 'v%dk%d' % (op[2], op[3])
            o = getattr(h.classes[op[1]], 'by' + name[0].upper() + name[1:])(op[4], connection=cx)
            if h.tx is not None:
                h.keep.append(o)
            return 'ok %d' % h.idx.get(type(o).__name__, -1)
        if t == 'get':
            o = h.classes[op[1]].get(op[2], connection=cx)
            if h.tx is not None:
                h.keep.append(o)
            return 'ok %d' % h.idx.get(type(o).__name__, -1)
        if t == 'read':
            o = h.classes[op[1]].get(op[2], connection=cx)
            if h.tx is not None:
                h.keep.append(o)
            return 'val %s' % (getattr(o, 'v%dk%d' % (op[3], op[4])),)
        if t == 'write':
            o = h.classes[op[1]].get(op[2], connection=cx)
            if h.tx is not None:
                h.keep.append(o)
            setattr(o, 'v%dk%d' % (op[3], op[4]), op[5])
            return 'ok'
        if t == 'set':
            o = h.classes[op[1]].get(op[2], connection=cx)
            if h.tx is not None:
                h.keep.append(o)
            o.set(**dict(('v%dk%d' % (a, k2), v) for a, k2, v in op[3]))
            return 'ok'
        if t == 'destroy':
            o = h.classes[op[1]].get(op[2], connection=cx)
            if h.tx is not None:
                h.keep.append(o)
            conn.stmts = []
            res = 'ok'
            try:
                o.destroySelf()
            except Exception as ex:
                res = exc(ex)
            finally:
                stmts, conn.stmts = conn.stmts, None
            return '%s del%s' % (res, ''.join(' %d' % c for c in stmt_tables(h, stmts, 'DELETE FROM')))
        if t == 'select':
            cls = h.classes[op[1]]
            res = list(cls.select(build_clause(h, op[1], op[2]), connection=cx))
            # the clause is patched in place by select(): build a fresh one for count()
            cnt = cls.select(build_clause(h, op[1], op[2]), connection=cx).count()
            return 'sel' + ''.join(' %d:%d' % (i, m) for i, m in
                                   sorted((o.id, h.idx.get(type(o).__name__, -1)) for o in res)) + \
                ('' if cnt == len(res) else ' count()=%d' % cnt)
        if t == 'selectby':
            cls = h.classes[op[1]]
            kw = dict(('v%dk%d' % (a, k2), v) for a, k2, v in op[2])
            res = list(cls.selectBy(connection=cx, **kw))
            cnt = cls.selectBy(connection=cx, **kw).count()
            return 'sel' + ''.join(' %d:%d' % (i, m) for i, m in
                                   sorted((o.id, h.idx.get(type(o).__name__, -1)) for o in res)) + \
                ('' if cnt == len(res) else ' count()=%d' % cnt)
        if t == 'deletemany':
            cls = h.classes[op[1]]
            cls.deleteMany(where=build_clause(h, op[1], op[2]), connection=cx)
            return 'ok'
        if t == 'deleteby':
            h.classes[op[1]].deleteBy(connection=cx, **dict(('v%dk%d' % (a, k2), v) for a, k2, v in op[2]))
            return 'ok'
        if t == 'begin':
            h.tx = h.conn.transaction()
            return 'ok'
        if t == 'rollback':
            tx, h.tx = h.tx, None
            tx.rollback()
            h.keep = []
            return 'ok'
        if t == 'commit':
            tx, h.tx = h.tx, None
            tx.commit(close=True)
            h.keep = []
            return 'ok'
    except Exception as ex:
        conn.stmts = None
        return exc(ex)
    raise ValueError(op)


# ----------------------------------------------------------------------------- oracle

def check_invariant(shape, raw):
    """the no-orphan invariant on raw table dumps; returns a list of (kind, text)"""
    bad = []
    for c, (par, ncols, inh, alt) in enumerate(shape):
        for i, (child, vals) in raw[c].items():
            if par is not None:
                prow = raw[par].get(i)
                if prow is None:
                    bad.append(('orphan-child-row', 'row %d of K%d has no row in parent K%d' % (i, c, par)))
                elif prow[0] != c:
                    bad.append(('parent-tag-mismatch', 'row %d of K%d: parent K%d row has childName %r'
                                % (i, c, par, prow[0])))
            if child is not None:
                if not isinstance(child, int) or shape[child][0] != c:
                    bad.append(('bad-child-name', 'row %d of K%d has childName %r, not a direct subclass' % (i, c, child)))
                elif i not in raw[child]:
                    bad.append(('orphan-parent-row', 'row %d of K%d says child K%d but that table has no row %d'
                                % (i, c, child, i)))
    return bad


def most_derived(shape, raw, r, i):
    """follow childName from the root table in the raw dump; None when the root has no row"""
    if i not in raw[r]:
        return None
    c = r
    seen = 0
    while True:
        child = raw[c][i][0]
        if child is None or not isinstance(child, int) or i not in raw[child] or seen > len(shape):
            return c
        c = child
        seen += 1


def eval_filter(shape, raw, i, f):
    t = f[0]
    if t == 'tt':
        return True
    if t == 'attr':
        return PYCMP[f[3]](raw[f[1]][i][1][f[2]], f[4])
    if t == 'id':
        return PYCMP[f[1]](i, f[2])
    if t == 'not':
        return not eval_filter(shape, raw, i, f[1])
    if t == 'and':
        return eval_filter(shape, raw, i, f[1]) and eval_filter(shape, raw, i, f[2])
    return eval_filter(shape, raw, i, f[1]) or eval_filter(shape, raw, i, f[2])


def oracle_step(shape, op, ans, before, after):
    """property oracle for one executed step, from raw dumps only; list of (kind, text)"""
    bad = list(check_invariant(shape, after))
    try:
        bad += _oracle_step(shape, op, ans, before, after)
    except Exception as e:  # only reachable when the tables are already inconsistent
        if not bad:
            bad.append(('oracle-cannot-evaluate', '%s on %s: %r' % (type(e).__name__, op_line(op), e)))
    return bad


def _oracle_step(shape, op, ans, before, after):
    bad = []
    if op[0] in ('pread', 'pwrite', 'pdestroy'):
        op = [op[0][1:]] + list(op[1:])
    elif op[0] == 'selectf':
        f = op[2]
        for g in op[3:]:
            f = ['and', f, g]
        op = ['select', op[1], f]
    t = op[0]
    n = len(shape)

    def diff_cells():
        cells = []
        for c in range(n):
            for i in set(before[c]) | set(after[c]):
                if before[c].get(i) != after[c].get(i):
                    cells.append((c, i))
        return cells

    if t == 'create':
        m = re.match(r'id (\d+) ins', ans)
        if m:
            i = int(m.group(1))
            chain = anc(shape, op[1])
            r = chain[-1]
            given = dict(((a, k), v) for a, k, v in op[2])
            for c in range(n):
                if root_of(shape, c) != r:
                    if before[c] != after[c]:
                        bad.append(('create-touches-other-tree', 'creating K%d changed table K%d' % (op[1], c)))
                    continue
                if c in chain:
                    if i in before[c]:
                        bad.append(('create-reuses-id', 'id %d already present in K%d' % (i, c)))
                    row = after[c].get(i)
                    if row is None:
                        bad.append(('create-missing-level', 'K%d(...) -> id %d has no row in K%d' % (op[1], i, c)))
                    else:
                        want = tuple(given.get((c, k), 0) for k in range(shape[c][1]))
                        if row[1] != want:
                            bad.append(('create-values', 'row %d of K%d holds %r, created with %r' % (i, c, row[1], want)))
                elif i in after[c]:
                    bad.append(('create-extra-level', 'K%d(...) -> id %d has a row in K%d' % (op[1], i, c)))
                if set(after[c]) - {i} != set(before[c]) or any(after[c][j] != before[c][j] for j in before[c]):
                    bad.append(('create-changes-other-rows', 'creating K%d changed other rows of K%d' % (op[1], c)))
            if most_derived(shape, after, r, i) != op[1]:
                bad.append(('create-kind', 'id %d created as K%d is most-derived %r by the rows'
                            % (i, op[1], most_derived(shape, after, r, i))))
        elif before != after:
            bad.append(('failed-create-changed-rows', 'create answered %s and changed rows' % ans))
    elif t in ('get', 'read'):
        if before != after:
            bad.append(('read-changes-rows', '%s changed the tables' % t))
        e, i = op[1], op[2]
        md = most_derived(shape, after, root_of(shape, e), i)
        present = i in after[e]
        if t == 'get':
            if present and ans != 'ok %s' % (md,):
                bad.append(('less-derived-instance', 'K%d.get(%d) answered %s, most-derived by the rows is K%s'
                            % (e, i, ans, md)))
            if not present and ans != 'NotFound':
                bad.append(('get-without-row', 'K%d.get(%d) answered %s but K%d has no row %d' % (e, i, ans, e, i)))
        else:
            a, k = op[3], op[4]
            if present and md is not None and a in anc(shape, md) and k < shape[a][1]:
                want = 'val %s' % (after[a][i][1][k],) if i in after[a] else None
                if want is not None and ans != want:
                    bad.append(('inherited-read', 'K%d.get(%d).v%dk%d answered %s, the row of K%d holds %s'
                                % (e, i, a, k, ans, a, want)))
    elif t in ('write', 'set'):
        e, i = op[1], op[2]
        kvs = [(op[3], op[4], op[5])] if t == 'write' else list(op[3])
        cells = diff_cells()
        if ans == 'ok':
            want = dict((c, dict(rows)) for c, rows in before.items())
            md = most_derived(shape, before, root_of(shape, e), i)
            for a, k, v in kvs:
                if md is None or a not in anc(shape, md):
                    continue  # not a column of that instance: plain Python attribute, no row involved
                if i in want[a]:
                    child, vals = want[a][i]
                    vals = list(vals)
                    if k < len(vals):
                        vals[k] = v
                    want[a][i] = (child, tuple(vals))
            if want != after:
                bad.append(('write-not-single-store', '%s through K%d on id %d: changed cells %r, expected exactly '
                            'the declaring rows %r' % (t, e, i, cells, sorted(set((a, i) for a, _, _ in kvs)))))
        elif cells:
            bad.append(('failed-write-changed-rows', '%s answered %s and changed %r' % (t, ans, cells)))
    elif t == 'destroy':
        e, i = op[1], op[2]
        r = root_of(shape, e)
        if ans.startswith('ok'):
            for c in range(n):
                if root_of(shape, c) == r:
                    if i in after[c]:
                        bad.append(('destroy-leaves-row', 'after K%d.get(%d).destroySelf() table K%d still has row %d'
                                    % (e, i, c, i)))
                    if set(before[c]) - {i} != set(after[c]) - {i} or \
                            any(after[c][j] != before[c].get(j) for j in after[c] if j != i):
                        bad.append(('destroy-changes-other-rows', 'destroying id %d changed other rows of K%d' % (i, c)))
                elif before[c] != after[c]:
                    bad.append(('destroy-touches-other-tree', 'destroying changed table K%d' % c))
        elif before != after:
            bad.append(('failed-destroy-changed-rows', 'destroy answered %s and changed rows' % ans))
    elif t == 'byalt':
        if before != after:
            bad.append(('read-changes-rows', 'by<Col>() changed the tables'))
        e, a, k, v = op[1:5]
        owners = [i for i, row in after[a].items() if row[1][k] == v]
        want = 'NotFound'
        if owners and owners[0] in after[e]:
            want = 'ok %s' % (most_derived(shape, after, root_of(shape, e), owners[0]),)
        if ans != want:
            kind = 'byalt-foreign-kind' if ans.startswith('ok') and want == 'NotFound' else 'byalt-result'
            bad.append((kind, 'K%d.byV%dk%d(%d) answered %s; the value belongs to id %r, rows of that id in K%d: %s; expected %s'
                        % (e, a, k, v, ans, owners[:1], e, bool(owners and owners[0] in after[e]), want)))
    elif t in ('deletemany', 'deleteby'):
        c = op[1]
        r = root_of(shape, c)
        gone = set()
        for i in before[c]:
            try:
                if t == 'deletemany':
                    ok = eval_filter(shape, before, i, op[2])
                else:
                    ok = all(before[a][i][1][k] == v for a, k, v in op[2])
            except KeyError:
                continue
            if ok:
                gone.add(i)
        if ans == 'ok':
            for x in range(n):
                if root_of(shape, x) == r:
                    want = dict((i, row) for i, row in before[x].items() if i not in gone)
                    if after[x] != want:
                        left = sorted(i for i in gone if i in after[x])
                        kind = 'bulk-delete-leaves-row' if left else 'bulk-delete-changes-other-rows'
                        bad.append((kind, 'K%d.%s(...): table K%d %s' % (
                            c, t, x, ('still has rows %r of the deleted ids' % left) if left else
                            'lost or changed rows that did not match')))
                elif before[x] != after[x]:
                    bad.append(('bulk-delete-touches-other-tree', 'K%d.%s changed table K%d' % (c, t, x)))
        elif before != after:
            bad.append(('failed-bulk-delete-changed-rows', '%s answered %s and changed rows' % (t, ans)))
    elif t in ('select', 'selectby'):
        if before != after:
            bad.append(('select-changes-rows', 'select changed the tables'))
        c = op[1]
        f = op[2] if t == 'select' else None
        want = []
        for i in sorted(after[c]):
            try:
                if t == 'select':
                    ok = eval_filter(shape, after, i, f)
                else:
                    ok = all(after[a][i][1][k] == v for a, k, v in op[2])
            except KeyError:
                continue  # an ancestor row is missing: reported by the invariant check
            if ok:
                want.append((i, most_derived(shape, after, root_of(shape, c), i)))
        wants = 'sel' + ''.join(' %d:%s' % x for x in want)
        if ans != wants:
            kind = 'select-result'
            got = re.findall(r'(\d+):(-?\d+)', ans) if ans.startswith('sel') else None
            if got is not None:
                gids = [int(g[0]) for g in got]
                wid = dict(want)
                if any(g not in after[c] for g in gids):
                    kind = 'select-foreign-kind'
                elif any(int(m) != wid.get(int(g), int(m)) for g, m in got):
                    kind = 'select-less-derived'
            bad.append((kind, 'K%d.%s(%s) answered %s, the rows say %s'
                        % (c, t, fmt_filter(f) if f else op[2], ans, wants)))
    return bad


def oracle_views(shape, raw, i, struct):
    try:
        return _oracle_views(shape, raw, i, struct)
    except Exception as e:  # only reachable when the tables are already inconsistent
        return [('oracle-cannot-evaluate', '%s on views of id %d: %r' % (type(e).__name__, i, e))]


def _oracle_views(shape, raw, i, struct):
    bad = []
    for e, m, vals in struct:
        present = i in raw[e]
        md = most_derived(shape, raw, root_of(shape, e), i)
        if vals is None:
            if present or m != 'NotFound':
                bad.append(('get-without-row' if not present else 'fetch-fails',
                            'K%d.get(%d) answered %s; row present in K%d: %s' % (e, i, m, e, present)))
            continue
        if not present:
            bad.append(('get-without-row', 'K%d.get(%d) returned K%s but K%d has no row %d' % (e, i, m, e, i)))
            continue
        if m != md:
            bad.append(('less-derived-instance', 'K%d.get(%d) returned K%s, most-derived by the rows is K%s'
                        % (e, i, m, md)))
            continue
        for a, k, v, s in vals:
            row = raw[a].get(i)
            if row is None or s != 'val %s' % (row[1][k],):
                bad.append(('inherited-read', 'through K%d: id %d attribute v%dk%d reads %s, the row of K%d holds %r'
                            % (e, i, a, k, s, a, None if row is None else row[1][k])))
    return bad


# ----------------------------------------------------------------------------- one case

def take_handles(h, shape, raw):
    """most-derived instances of every object of the default database, fetched through the main
    connection with every attribute read once (so that every level's instance holds its values)"""
    out = {}
    for r in range(len(shape)):
        if shape[r][0] is not None:
            continue
        for i in raw[r]:
            try:
                o = h.classes[r].get(i)
                m = h.idx.get(type(o).__name__, -1)
                for a in anc(shape, m):
                    for k in range(shape[a][1]):
                        getattr(o, 'v%dk%d' % (a, k))
                out[(r, i)] = (o, m)
            except Exception:
                pass
    return out


def check_handles(h, shape, raw, handles, after_what):
    """every attribute read through a handle taken before the transaction equals the raw row of the
    declaring level (objects whose rows are gone are skipped)"""
    bad = []
    for (r, i), (o, m) in sorted(handles.items()):
        if m < 0 or i not in raw[m]:
            continue
        for a in reversed(anc(shape, m)):
            for k in range(shape[a][1]):
                try:
                    got = 'val %s' % (getattr(o, 'v%dk%d' % (a, k)),)
                except Exception as ex:
                    got = exc(ex)
                want = 'val %s' % (raw[a][i][1][k],) if i in raw[a] else None
                if want is not None and got != want:
                    bad.append(('stale-level-after-%s' % after_what,
                                'instance K%d id %d loaded before the transaction: after %s v%dk%d (declared by K%d) reads '
                                '%s, the row holds %s' % (m, i, after_what, a, k, a, got, want)))
    return bad


def run_case(shape, ops, cold=False, view_extra=None):
    """run a history on the real code.  returns (lines for the model, impl answers aligned with the
    lines (None for the tree line), oracle failures [(step, kind, text)]).
    cold: the connections' instance caches are emptied before every operation and before every
    fetch of the views (every get is a cache miss: SELECT + childName dispatch + _parent fetch);
    otherwise parent- and child-level instances stay cached across the whole history.
    Histories with `conn` / `begin` ops use two databases: every level's table is dumped on BOTH
    after every step (the one not addressed must not change), a transaction runs on a file-backed
    default database so that what bypasses it is committed independently."""
    multi = any(op[0] in ('conn', 'begin') for op in ops)
    h = hier_for(shape, filedb=any(op[0] == 'begin' for op in ops))
    h.reset()
    lines = [tree_line(shape)]
    impl = [None]
    fails = []
    cur = 0
    state = {0: h.raw(0), 1: h.raw(1)}
    inv0 = check_invariant(shape, state[0])
    allocated = {0: set(), 1: set()}
    handles = {}
    from sqlobject.inheritance import iteration as _iteration
    _iteration.InheritableIteration.defaultArraySize = DEFAULT_BATCH
    for step, op in enumerate(ops):
        if cold:
            h.clear_caches()
        t = op[0]
        if t == 'batch':
            # `InheritableIteration.defaultArraySize` (class attribute, 10000): rows per fetchmany()
            # batch of a select through an inheritable class; small values make results span batches
            _iteration.InheritableIteration.defaultArraySize = op[1]
            continue
        if t == 'conn':
            if h.tx is not None:
                continue
            cur = op[1]
            lines.append(op_line(op))
            impl.append('ok')
            continue
        if t == 'begin' and (cur != 0 or h.tx is not None):
            continue
        if t in ('rollback', 'commit') and h.tx is None:
            continue
        before = state[cur]
        line = op_line(op)
        if t == 'begin' and not cold:
            # handles on the main connection, loaded before the transaction starts: after commit /
            # rollback they must show what the rows hold, at every level
            handles = take_handles(h, shape, before)
        if t == 'destroy':
            bl = h.blocked_levels(cur, op[2])
            if bl:
                line = 'destroyb %d %d%s' % (op[1], op[2], ''.join(' %d' % a for a in bl))
        ans = run_op(h, op, cur)
        after = h.raw(cur)
        state[cur] = after
        if t != 'addref':
            lines.append(line)
            impl.append(ans)
            lines.append('dump')
            impl.append(fmt_dump(after))
        elif before != after:
            fails.append((step, 'reference-changes-rows', 'creating a referencing row changed the hierarchy tables'))
        for kind, text in oracle_step(shape, op, ans, before, after):
            fails.append((step, kind, text))
        if multi:
            o = 1 - cur
            other = h.raw(o)
            if other != state[o]:
                fails.append((step, 'other-database-changed', '%s on database %d changed the tables of database %d'
                              % (op_line(op), cur, o)))
            for kind, text in check_invariant(shape, other):
                fails.append((step, kind, 'database %d: %s' % (o, text)))
            state[o] = other
            lines += ['conn %d' % o, 'dump', 'conn %d' % cur]
            impl += ['ok', fmt_dump(other), 'ok']
        ids = []
        if t in ('commit', 'rollback') and ans == 'ok':
            for kind, text in check_handles(h, shape, after, handles, t):
                fails.append((step, kind, text))
            handles = {}
            ids += sorted(allocated[0])      # and through every class, by get(), on the main connection
        m = re.match(r'id (\d+) ', ans)
        if m:
            ids.append(int(m.group(1)))
            allocated[cur].add(int(m.group(1)))
        if touched(op) is not None:
            ids.append(touched(op))
        if view_extra is not None and allocated[cur]:
            x = view_extra(sorted(allocated[cur]))
            if x not in ids:
                ids.append(x)
        for i in ids:
            if cold:
                h.clear_caches()
            s, struct = view_of(h, i, cur)
            lines.append('views %d' % i)
            impl.append(s)
            for kind, text in oracle_views(shape, after, i, struct):
                fails.append((step, kind, text))
    if h.tx is not None:  # a history that ends inside a transaction: roll it back
        run_op(h, ['rollback'], 0)
        lines.append('rollback')
        impl.append('ok')
        state[0] = h.raw(0)
        lines.append('dump')
        impl.append(fmt_dump(state[0]))
        for kind, text in check_invariant(shape, state[0]):
            fails.append((len(ops), kind, text))
    # at the end: every id ever allocated (and one never allocated) through every level
    for k in ((0, 1) if multi else (0,)):
        if multi:
            lines.append('conn %d' % k)
            impl.append('ok')
        for i in sorted(allocated[k]) + [max(allocated[k] or [0]) + 1]:
            s, struct = view_of(h, i, k)
            lines.append('views %d' % i)
            impl.append(s)
            for kind, text in oracle_views(shape, state[k], i, struct):
                fails.append((len(ops), kind, text))
        after = h.raw(k)
        if after != state[k]:
            fails.append((len(ops), 'read-changes-rows', 'fetching through every level changed the tables'))
    for kind, text in inv0:
        fails.append((-1, kind, text))
    _iteration.InheritableIteration.defaultArraySize = DEFAULT_BATCH
    return lines, impl, fails


# ----------------------------------------------------------------------------- generators

def gen_shape(rng, alt_ok=False):
    n = rng.randint(2, 7)
    shape = []
    depth = []
    for c in range(n):
        cands = [p for p in range(c) if shape[p][2] and depth[p] < 3]
        if c == 0 or not cands or rng.random() < 0.08:
            par = None
        else:
            # prefer deepening and siblings alike
            par = rng.choice(cands)
        ncols = rng.choice([0, 1, 1, 1, 2]) if par is not None else rng.choice([1, 1, 2])
        inh = 1
        shape.append([par, ncols, inh])
        depth.append(0 if par is None else depth[par] + 1)
    # leaves may be declared `_inheritable = False`
    for c in range(n):
        if shape[c][0] is not None and not any(s[0] == c for s in shape) and rng.random() < 0.3:
            shape[c][2] = 0
    out = []
    for c in range(n):
        alt = 1 if (shape[c][1] >= 1 and alt_ok and rng.random() < 0.4) else 0
        out.append((shape[c][0], shape[c][1], shape[c][2], alt))
    return out


def rand_val(rng):
    return rng.randint(-1, 4)


def gen_filter(rng, shape, c, depth=0):
    chain = anc(shape, c)
    attrs = [(a, k) for a in chain for k in range(shape[a][1])]
    r = rng.random()
    if depth >= 2 or r < 0.45:
        r2 = rng.random()
        if r2 < 0.08 and depth == 0:
            return ['tt']
        if r2 < 0.25 or not attrs:
            return ['id', rng.choice(CMPS), rng.randint(0, 6)]
        own = [x for x in attrs if x[0] == c]
        inherited = [x for x in attrs if x[0] != c]
        pool = inherited if (inherited and (not own or rng.random() < 0.6)) else own
        a, k = rng.choice(pool)
        return ['attr', a, k, rng.choice(CMPS), rand_val(rng)]
    if r < 0.6:
        return ['not', gen_filter(rng, shape, c, depth + 1)]
    return [rng.choice(['and', 'or']), gen_filter(rng, shape, c, depth + 1), gen_filter(rng, shape, c, depth + 1)]


def gen_history(rng, shape, nops, flavour='plain'):
    """flavour: 'plain' | 'refs' (rows of another class reference levels of the objects; destroys
    refused by a cascade=False reference to the root level) | 'two' (ops switch between the default
    database and a second one given as connection=) | 'tx' (ops inside transactions on the default
    database, rolled back or committed); 'two' and 'tx' also get some references"""
    import copy
    n = len(shape)
    sims = dict((k, {'live': {}, 'dead': [], 'hi': {}, 'restricted': set()}) for k in (0, 1))
    cur = 0
    in_tx = False
    saved = None
    refs = flavour == 'refs' or (flavour in ('two', 'tx') and rng.random() < 0.4)
    ops = []

    def is_alt(a, k):
        return bool(shape[a][3]) and k == shape[a][1] - 1
    alt_cols = [(a, shape[a][1] - 1) for a in range(n) if shape[a][3]]
    alt_next = [50]
    alt_vals = []
    if rng.random() < 0.35:
        # small fetchmany() batches: the results of the selects span several batches
        ops.append(['batch', rng.choice([1, 2, 3])])
    for step in range(nops):
        S = sims[cur]
        live, dead, hi, restricted = S['live'], S['dead'], S['hi'], S['restricted']  # (root, id) -> class, ...
        if flavour == 'two' and rng.random() < 0.15:
            cur = 1 - cur
            ops.append(['conn', cur])
            continue
        if flavour == 'tx':
            if not in_tx and rng.random() < 0.15:
                saved = copy.deepcopy(sims[0])
                in_tx = True
                ops.append(['begin'])
                continue
            if in_tx and rng.random() < 0.15:
                in_tx = False
                if rng.random() < 0.6:
                    sims[0] = saved
                    ops.append(['rollback'])
                else:
                    ops.append(['commit'])
                continue
        if refs and live and rng.random() < 0.09:
            (root, i), m = rng.choice(sorted(live.items()))
            q = rng.random()
            if q < 0.4:
                ops.append(['addref', 'restrict', root, i])
                restricted.add((root, i))
            else:
                ops.append(['addref', 'null' if q < 0.7 else 'cascade', rng.choice(anc(shape, m)), i])
            continue
        if alt_cols and rng.random() < 0.12:
            # E.by<Col>(v) through the declaring class or any subclass, with a value of an object of
            # the same kind, of a sibling kind, of a bare ancestor, of a destroyed object, or of none
            a, k = rng.choice(alt_cols)
            e = rng.choice([c for c in range(n) if a in anc(shape, c)])
            mine = [v for (a2, k2, v) in alt_vals if (a2, k2) == (a, k)]
            v = rng.choice(mine) if mine and rng.random() < 0.9 else 49
            ops.append(['byalt', e, a, k, v])
            continue
        r = rng.random()
        if not live and r < 0.7:
            r = 0.0
        if restricted and 0.78 <= r < 0.83:
            r = 0.7   # a bulk delete would stop half-way at the restricted object (C06): select instead

        def pick_obj():
            """(entry class, id, most-derived class or None)"""
            q = rng.random()
            if live and q < 0.8:
                (root, i), m = rng.choice(sorted(live.items()))
                chain = anc(shape, m)
                if rng.random() < 0.85:
                    e = rng.choice(chain)          # a level that has the row
                else:
                    e = rng.choice([c for c in range(n) if root_of(shape, c) == root])
                return e, i, (m if e in chain else None)
            if dead and q < 0.92:
                root, i = rng.choice(dead)
                return rng.choice([c for c in range(n) if root_of(shape, c) == root]), i, None
            return rng.randrange(n), rng.randint(1, 9), None

        if r < 0.22:
            c = rng.randrange(n) if rng.random() < 0.5 else rng.choice(
                [x for x in range(n) if shape[x][0] is not None] or [0])
            kvs = []
            for a in reversed(anc(shape, c)):
                for k in range(shape[a][1]):
                    if is_alt(a, k):
                        # alternateID column: always given, unique over the whole history
                        kvs.append([a, k, alt_next[0]])
                        alt_vals.append((a, k, alt_next[0]))
                        alt_next[0] += 1
                    elif rng.random() < 0.8:
                        kvs.append([a, k, rand_val(rng)])
            rng.shuffle(kvs)
            ops.append(['create', c, kvs])
            root = root_of(shape, c)
            hi[root] = hi.get(root, 0) + 1
            live[(root, hi[root])] = c
        elif r < 0.30:
            e, i, m = pick_obj()
            ops.append(['get', e, i])
        elif r < 0.40:
            e, i, m = pick_obj()
            chain = anc(shape, m) if m is not None else anc(shape, e)
            attrs = [(a, k) for a in chain for k in range(shape[a][1])]
            if rng.random() < 0.12 or not attrs:
                # malformed: an attribute the instance's class does not have
                others = [(a, k) for a in range(n) for k in range(shape[a][1]) if (a, k) not in attrs]
                if others and m is not None:
                    attrs = others
            if not attrs:
                ops.append(['get', e, i])
            else:
                a, k = rng.choice(attrs)
                ops.append(['read', e, i, a, k])
        elif r < 0.58:
            e, i, m = pick_obj()
            chain = anc(shape, m) if m is not None else anc(shape, e)
            attrs = [(a, k) for a in chain for k in range(shape[a][1]) if not is_alt(a, k)]
            if not attrs:
                ops.append(['get', e, i])
            else:
                a, k = rng.choice(attrs)
                ops.append(['write', e, i, a, k, rand_val(rng)])
        elif r < 0.66:
            e, i, m = pick_obj()
            chain = anc(shape, m) if m is not None else anc(shape, e)
            attrs = [(a, k) for a in chain for k in range(shape[a][1]) if not is_alt(a, k)]
            rng.shuffle(attrs)
            attrs = attrs[:rng.randint(1, 4)]
            if not attrs:
                ops.append(['get', e, i])
            else:
                ops.append(['set', e, i, [[a, k, rand_val(rng)] for a, k in attrs]])
        elif r < 0.78:
            c = rng.randrange(n)
            ops.append(['select', c, gen_filter(rng, shape, c)])
        elif r < 0.805:
            c = rng.randrange(n)
            ops.append(['deletemany', c, gen_filter(rng, shape, c)])
        elif r < 0.83:
            c = rng.randrange(n)
            chain = anc(shape, c)
            attrs = [(a, k) for a in chain for k in range(shape[a][1])]
            rng.shuffle(attrs)
            attrs = attrs[:rng.randint(0, 2)] if rng.random() < 0.85 else []
            ops.append(['deleteby', c, [[a, k, rand_val(rng)] for a, k in attrs]])
        elif r < 0.89:
            c = rng.randrange(n)
            chain = anc(shape, c)
            attrs = [(a, k) for a in chain for k in range(shape[a][1])]
            rng.shuffle(attrs)
            attrs = attrs[:rng.randint(0, 2)]
            ops.append(['selectby', c, [[a, k, rand_val(rng)] for a, k in attrs]])
        else:
            e, i, m = pick_obj()
            ops.append(['destroy', e, i])
            if m is not None and (root_of(shape, e), i) not in restricted:
                root = root_of(shape, e)
                del live[(root, i)]
                dead.append((root, i))
    out = []
    for op in ops:
        if flavour == 'plain' and op[0] in ('read', 'write', 'destroy') and rng.random() < 0.2:
            # through an instance that went through pickle.dumps / loads with a cold cache
            op = ['p' + op[0]] + op[1:]
        elif op[0] == 'select' and rng.random() < 0.3:
            # a derived select: conditions added afterwards with .filter()
            op = ['selectf', op[1], op[2]] + [gen_filter(rng, shape, op[1], 1) for _ in range(rng.choice([1, 1, 2]))]
        out.append(op)
    return out


def sweep_cases(shape):
    """every class created x every class used as the entry point x every operation kind, with a
    sibling / other-kind population around it (systematic, no randomness)"""
    n = len(shape)
    cases = []
    for c in range(n):
        chain = anc(shape, c)
        attrs = [(a, k) for a in reversed(chain) for k in range(shape[a][1])]
        for e in range(n):
            if root_of(shape, e) != root_of(shape, c):
                continue  # another hierarchy: ids are per hierarchy, names of c's columns mean nothing there
            ops = []
            # population: one instance of every class, the class under test twice (ids 1..n+1 per root)
            order = [x for x in range(n) if x != c] + [c, c]
            ids = {}
            hi = {}
            for x in order:
                r = root_of(shape, x)
                hi[r] = hi.get(r, 0) + 1
                ids.setdefault(x, []).append(hi[r])
                ops.append(['create', x, [[a, k, (a + k + len(ops)) % 4] for a in reversed(anc(shape, x))
                                          for k in range(shape[a][1])]])
            i = ids[c][0]
            ops.append(['get', e, i])
            for (a, k) in attrs:
                ops.append(['read', e, i, a, k])
            for (a, k) in attrs:
                ops.append(['write', e, i, a, k, 7])
                ops.append(['select', e, ['attr', a, k, 'eq', 7]] if a in anc(shape, e) else ['select', c, ['attr', a, k, 'eq', 7]])
            if attrs:
                ops.append(['set', e, i, [[a, k, 3] for a, k in attrs]])
                ops.append(['selectby', c, [[a, k, 3] for a, k in attrs[:2]]])
            ops.append(['select', e, ['tt']])
            ops.append(['selectby', e, []])
            ops.append(['destroy', e, i])
            ops.append(['select', e, ['tt']])
            ops.append(['get', c, i])
            if e % 2 == 0:
                ops.append(['deleteby', e, []])
            else:
                ops.append(['deletemany', e, ['id', 'ge', 0]])
            ops.append(['select', root_of(shape, c), ['tt']])
            ops.append(['destroy', c, ids[c][1]])
            ops.append(['select', root_of(shape, c), ['tt']])
            cases.append((shape, ops, (c + e) % 2 == 1))
    return cases


def tx_sweep_cases(shape):
    """one transaction changes an object (every attribute of its chain, entered through every level
    in turn) and destroys an object of another / the same kind, then commits or rolls back; the
    objects were loaded on the main connection before (systematic, no randomness)"""
    n = len(shape)
    cases = []
    for c in range(n):
        chain = anc(shape, c)
        attrs = [(a, k) for a in reversed(chain) for k in range(shape[a][1])]
        if not attrs:
            continue
        for d in range(n):
            if root_of(shape, d) != root_of(shape, c):
                continue
            ops = [['create', c, [[a, k, 1] for a, k in attrs]],
                   ['create', d, []], ['create', c, []], ['get', root_of(shape, c), 1], ['get', c, 3]]
            end = 'rollback' if (c + d) % 3 == 2 else 'commit'
            ops.append(['begin'])
            for j, (a, k) in enumerate(attrs):
                ops.append(['write', chain[j % len(chain)], 1, a, k, 5 + j])
            ops.append(['destroy', root_of(shape, d) if d % 2 else d, 2])
            ops.append(['set', c, 3, [[a, k, 9] for a, k in attrs[:2]]])
            ops.append([end])
            ops.append(['select', root_of(shape, c), ['tt']])
            ops.append(['begin'])
            ops.append(['write', c, 3, attrs[0][0], attrs[0][1], 4])
            ops.append(['destroy', c, 1])
            ops.append(['commit'])
            cases.append((shape, ops, False))
    return cases


def corpus_cases():
    cases = []
    d = os.path.join(os.path.dirname(os.path.dirname(os.path.abspath(__file__))), 'corpus', 'C15')
    if os.path.isdir(d):
        for fn in sorted(os.listdir(d)):
            if fn.endswith('.json'):
                data = json.load(open(os.path.join(d, fn)))
                for case in (data if isinstance(data, list) else [data]):
                    cases.append((case['shape'], case['ops'], bool(case.get('cold'))))
    return cases


def norm_shape(shape):
    """(parent, number of own columns, inheritable, the last own column is an alternateID column)"""
    return [(None if x[0] is None else int(x[0]), int(x[1]), int(x[2]), int(x[3]) if len(x) > 3 else 0) for x in shape]


# ----------------------------------------------------------------------------- minimisation / keys

def fail_kinds(shape, ops, cold=False):
    try:
        _, _, fails = run_case(shape, ops, cold=cold)
    except Exception as e:  # the harness must survive whatever the real code does
        return {'harness-error:%s' % type(e).__name__}
    return set(k for _, k, _ in fails)


def minimise(shape, ops, kind, cold=False):
    """greedy one-op-at-a-time reduction keeping an oracle failure of the same kind"""
    ops = list(ops)
    changed = True
    rounds = 0
    while changed and rounds < 6:
        changed = False
        rounds += 1
        k = len(ops) - 1
        while k >= 0:
            trial = ops[:k] + ops[k + 1:]
            if kind in fail_kinds(shape, trial, cold):
                ops = trial
                changed = True
            k -= 1
    return ops


def op_key(op):
    """like op_line, but naming what the model line does not show"""
    if op[0] in ('pread', 'pwrite', 'pdestroy'):
        return 'unpickled:' + op_line(op)
    if op[0] == 'selectf':
        return 'select %d %s' % (op[1], fmt_filter(op[2])) + ''.join(' .filter %s' % fmt_filter(g) for g in op[3:])
    return op_line(op)


def case_key(kind, shape, ops, cold=False):
    return 'C15:%s%s:%s:%s' % (kind, ':cold' if cold else '', ''.join('%s%d%d%s' % ('r' if x[0] is None else x[0], x[1], x[2], 'u' if len(x) > 3 and x[3] else '') for x in shape),
                             ';'.join(op_key(op) for op in ops))


# ----------------------------------------------------------------------------- run

def run(ctx):
    sqlo.setup()
    rng = ctx.rng
    cases = [(norm_shape(s), o, c) for s, o, c in corpus_cases()]
    nshapes = ctx.budget(10, 60)
    shapes = [norm_shape(BASE_SHAPE)] + [norm_shape(gen_shape(rng)) for _ in range(nshapes)]
    # hierarchies with alternateID columns: random histories only (the sweeps reuse column values)
    alt_shapes = [norm_shape(ALT_SHAPE)] + [norm_shape(gen_shape(rng, alt_ok=True)) for _ in range(max(2, nshapes // 4))]
    cases += sweep_cases(shapes[0])
    cases += tx_sweep_cases(shapes[0])
    if ctx.tier == 'thorough' or ctx.deep:
        for sh in shapes[1:6]:
            cases += sweep_cases(sh)
    ncorpus = len(cases)
    ncases = ctx.budget(1200, 15000)
    for k in range(ncases):
        q = rng.random()
        shape = shapes[0] if q < 0.3 else alt_shapes[0] if q < 0.42 else rng.choice(alt_shapes) if q < 0.5 \
            else rng.choice(shapes)
        nops = rng.randint(3, 25)
        q = rng.random()
        flavour = 'plain' if q < 0.55 else 'refs' if q < 0.75 else 'two' if q < 0.92 else 'tx'
        cases.append((shape, gen_history(rng, shape, nops, flavour), flavour != 'tx' and rng.random() < 0.3))

    all_lines = []
    results = []
    for idx, (shape, ops, cold) in enumerate(cases):
        try:
            lines, impl, fails = run_case(shape, ops, cold=cold, view_extra=(lambda ids: rng.choice(ids)))
        except Exception as e:
            ctx.note('harness error on a case: %r' % (e,))
            raise
        results.append((shape, ops, cold, lines, impl, fails, len(all_lines)))
        all_lines.extend(lines)
    outs = ctx.model(all_lines)
    run_sublevel_witness(ctx)

    reported = set()
    for idx, (shape, ops, cold, lines, impl, fails, off) in enumerate(results):
        desc = {'shape': [list(s) for s in shape], 'ops': ops, 'cold': cold}
        kinds = [op[0] for op in ops]
        levels = set(op[1] for op in ops if op[0] in ('get', 'read', 'write', 'set', 'destroy'))
        sub = any(op[0] == 'create' and shape[op[1]][0] is not None for op in ops)
        ctx.case((tuple(shape), json.dumps(ops), cold), nontrivial=sub and len(levels) >= 2,
                 sample={'case': {'shape': desc['shape'], 'ops': [op_line(o) for o in ops][:12]},
                         'impl': [a for a in impl[1:8]]},
                 kind=('corpus+sweep' if idx < ncorpus else ('base-hierarchy' if shape == shapes[0] else 'random-tree'))
                 + ('/cold-cache' if cold else '/warm-cache')
                 + ('/small-batches' if any(o[0] == 'batch' for o in ops) else '')
                 + ('/alternate-ids' if any(o[0] == 'byalt' for o in ops) else '')
                 + ('/pickled' if any(o[0] in ('pread', 'pwrite', 'pdestroy') for o in ops) else '')
                 + ('/derived-selects' if any(o[0] == 'selectf' for o in ops) else '')
                 + ('/two-databases' if any(o[0] == 'conn' for o in ops) else '')
                 + ('/transaction' if any(o[0] == 'begin' for o in ops) else '')
                 + ('/references' if any(o[0] == 'addref' for o in ops) else ''))
        for t in kinds:
            ctx.count('op:' + t)
        for a in impl:
            if a in ('NotFound', 'NoAttr'):
                ctx.count('answer:' + a)
            elif a is not None and a.startswith('Integrity'):
                ctx.count('answer:destroy refused (Integrity)')
        for step, kind, text in fails:
            if kind in reported and not ctx.deep:
                continue
            reported.add(kind)
            mops = minimise(shape, ops[:step + 1] if 0 <= step < len(ops) else ops, kind, cold)
            ctx.oracle_fail(case_key(kind, shape, mops, cold), text,
                            {'shape': desc['shape'], 'ops': mops, 'kind': kind, 'cold': cold})
        if outs is not None:
            for j, line in enumerate(lines):
                if impl[j] is None:
                    continue
                w = line.split(' ')[0]
                stream = ('tables after every step: model = raw SELECT' if w == 'dump' else
                          'views through every entry level: model = real instances' if w == 'views' else
                          'operation answers (ids, statement order, classes, values): model = real code')
                if not ctx.compare(stream, {'shape': desc['shape'], 'ops': ops, 'cold': cold, 'at': line},
                                   outs[off + j], impl[j]):
                    break


# witness of C15_refused_destroy_keeps_no_orphan_full_FALSE: a cascade=False reference to a NON-root
# level refuses after the levels above are deleted.  This is the open finding of property C06
# (C06:inheritable-destroySelf-fails-after-parent-row-deleted): replayed and compared with the model
# here, reported as a note only.
SUBLEVEL_WITNESS = {'shape': [list(x) for x in BASE_SHAPE],
                    'ops': [['create', 3, [[0, 0, 1]]], ['addref', 'restrict', 1, 1], ['destroy', 0, 1]]}


def run_sublevel_witness(ctx):
    shape = norm_shape(SUBLEVEL_WITNESS['shape'])
    lines, impl, fails = run_case(shape, SUBLEVEL_WITNESS['ops'])
    k = [j for j, l in enumerate(lines) if l.startswith('destroy')][0]
    lines, impl = lines[:k + 2], impl[:k + 2]      # up to the dump after the refused destroy
    orphan = any(kind.startswith('orphan') for _, kind, _ in fails)
    ctx.case(('sublevel-restriction',), nontrivial=True, kind='C06 witness (note only)')
    if orphan:
        ctx.note('destroy refused by a cascade=False reference to a non-root level leaves the lower rows without '
                 'their root row (%s): finding of property C06, not alarmed here; '
                 'C15_refused_destroy_keeps_no_orphan_full_FALSE describes it' % impl[k])
    else:
        ctx.note('the sub-level restriction witness no longer leaves an orphan: '
                 'C15_refused_destroy_keeps_no_orphan_full_FALSE describes code that has changed')
    outs = ctx.model(lines)
    if outs is not None:
        for j, line in enumerate(lines):
            if impl[j] is not None:
                ctx.compare('destroy refused below the root level (C06 finding): model = real code',
                            {'case': SUBLEVEL_WITNESS, 'at': line}, outs[j], impl[j])


def replay(case):
    sqlo.setup()
    shape = norm_shape(case['shape'])
    lines, impl, fails = run_case(shape, case['ops'], cold=bool(case.get('cold')))
    text = ['history%s:' % (' (cache emptied before every step)' if case.get('cold') else '')] + ['  ' + op_line(o) for o in case['ops']] + ['answers:'] + \
           ['  %s -> %s' % (l, a) for l, a in zip(lines, impl) if a is not None and not l.startswith('views')]
    if fails:
        text += ['oracle failures:'] + ['  step %d [%s] %s' % f for f in fails]
    else:
        text += ['oracle: the tables satisfy the no-orphan invariant and every level agrees with the rows']
    return not fails, '\n'.join(text)
