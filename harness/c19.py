"""C19 — row events fire exactly once, in order around the database write; listener edits of the
create/update kwargs are what gets stored; appended post-callbacks run after the operation; fetches
emit no create event; in an inheritance chain the create-finished events come after the INSERTs of
all levels.

correspondence: ordered log of the real `events.listen` listeners (fresh classes per case), the
post-callbacks they append and the INSERT/UPDATE/DELETE statements seen by a harness-side
SQLiteConnection subclass, merged into one sequence, against the Lean model driver (`drv_c19`),
plus the table contents (raw SELECT) after every step.
oracle (independent of the model): per operation on a live row the count and order of the signals
around the write statement, stored row == kwargs as rewritten by the listeners (recomputed on a
plain dict), every appended callback ran once after the write, no create event on fetch/select; for
the chain: every RowCreatedSignal of an object after the INSERTs of all its levels.
"""
import json
import os
import re

from vlib import sqlo

PROP = 'C19'
META = {
    'extractors': ['pyevents', 'pyevmain', 'pyinherit', 'pyevsub'],
    'technique': ('Lean 4 proof (induction over the listener list for every send; per-operation log-shape equations '
                  'for every state and listener configuration; induction over histories; induction over the '
                  'chain depth) + differential correspondence on the merged signal/statement log'),
    'level_text': ('Theorems C19_*: for every listener configuration (any number of listeners, each observing, rewriting '
                   'the kwargs or appending a post-callback), every state and every operation, the model of '
                   '__init__/_SO_setValue/set/syncUpdate/destroySelf contributes exactly the segment '
                   '[before-event to every listener once in connection order, write, after-event to every listener once, '
                   'callbacks] at the positions the code gives them; the stored row is the kwargs as rewritten by the '
                   'listeners in connection order; fetch/select contribute nothing; for every history ids are inserted once '
                   'and every created-event follows its INSERT; for an inheritance chain of any depth and every create order, '
                   'every RowCreatedSignal follows the INSERTs of all levels of its object.  The hand-written model is compared '
                   'with the real code on generated histories (eager and lazy classes, 0-6 listeners).'),
    'level_note': ('TRANSLATOR tie (vlib/extractors/pyevents.py -> Extracted/PyEvents.lean, Model/EventsX.lean): events.listen and '
                   'sqlmeta.send are translated from the AST on every run (and events.send = dispatcher.send is checked); '
                   'C19_translated_send_eq_model proves the translated send = the model function deliver, '
                   'C19_translated_listen_eq_model that listen appends one connection, with pydispatch (connect / send: every '
                   'connected receiver once in connection order) as a stated parameter. '
                   'TRANSLATOR tie 2 (vlib/extractors/pyevmain.py -> Extracted/PyEvMain.lean, Model/PyEv.lean, Model/EvMainX.lean): '
                   'SQLObject.__init__, _create, _SO_finishCreate (+ its postponed _send_RowCreatedSignal thunk), _init, _SO_setValue, set, '
                   'syncUpdate and the signal frame of destroySelf are translated WITH their sqlmeta.send calls and post-callback loops on '
                   'every run; C19_translated_set_eq_model / _setValue_eq_model (incl. the listener-changed-the-dict delegation under the suppress '
                   'flag) / _syncUpdate_eq_model / _destroySelf_eq_model / _create_eq_model (__init__ -> _create -> set -> _SO_finishCreate -> '
                   '_init -> thunk flush; success, validation failure, lazy) prove the translated programs = opSet / opAssign / opSyncUpdate / '
                   'opDestroy / opCreate for every listener list, state and kwargs, and C19_translated_events_once_in_order(_create) / '
                   '_rewrite_is_stored / _post_funcs_run_after restate the property about the translated source; C19_translated_created_after_all_levels: for every chain depth and listener placement the translated '
                   'outermost constructor (SQLObject.__init__ with the PyInherit translation of InheritableSQLObject._create run over the same world: '
                   'nested translated __init__ of the parent, then SQLObject._create under the parent id; flush loop over n thunks; induction on '
                   'the depth) logs exactly Chain.createObj, so every RowCreatedSignal follows the INSERTs of all levels (assumes constructors '
                   'without column keywords, RowCreateSignal listeners that leave kwargs empty, validating defaults: ChainOk); still hand model + '
                   'correspondence only: get / select (no events), listeners that create rows of another class, (events._makeSubclassConnectionsPost is translated: C19_translated_subclass_listeners_eq_model, vlib/extractors/pyevsub.py; '
                   'C19_translated_effective_listeners_eq_model chains it with the translated listen along a top-down declaration history to '
                   'Chain.effective, and C19_translated_created_after_all_levels_history reads the classes\' listeners off that table); create needs >= 1 column and a fresh next id; connection, cache, '
                   'validators and the cascade inside destroySelf are stated parameters (header of Model/EvMainX.lean). '
                   'Trusted: Lean kernel; pydispatch delivery order (modelled as connection order, checked by the '
                   'correspondence run); the sampling correspondence.  The lazy path is stated as the code behaves: a lazy '
                   'assign/set delivers only the before-event, syncUpdate delivers one write and one after-event for all '
                   'assignments since the last sync (the property text is silent on how many before-events belong to one '
                   'lazy write; see C19_lazy_* theorems).'),
    'rule': ('cases = (eager|lazy class, cacheValues on|off, with 3 int columns, 0-6 listeners, history of <=20 ops create/assign/set/'
             'syncUpdate/sync/destroy/fetch/select incl. invalid values and unknown keywords) and (3-level inheritance '
             'chain, listeners per level some connected before the subclass exists, create order); in 30% of the cases some '
             'listeners / appended callbacks create rows of a second class with its own listeners; distinct = distinct '
             'request line; non-trivial = at least one listener and one successful write'),
    'trusted': ['pydispatch: receivers of (class, signal) are called once each in connection order',
                'SQLite executes the logged INSERT/UPDATE/DELETE statements as written'],
    'modelled': ['validation is abstracted to {int, None, rejected value} on IntCol columns',
                 'classes without joins/dependents (destroySelf cascade paths belong to C12/C06)',
                 "a RowCreateSignal listener setting kwargs['connection'] (12% of the plain cases): the model has one table per class "
                 'and treats it as an observing listener; the harness reads the table of, and fetches through, the connection the '
                 'listener chose, so a row stored elsewhere is a diff and a stored-row oracle failure',
                 'listener lifetime: a listener registered with weak=True is kept alive by the program, one registered with '
                 'weak=False by the registration alone (30% of the generated listeners, plain classes and chain levels; the harness '
                 'drops its own reference); the model knows live listeners only',
                 'listeners that raise are outside the model; the clean-up of the thread-local postponed list when a '
                 'create-finished listener or callback raises is checked by a directed oracle scenario only'],
    'assumptions': ['operations address objects created in the same history (handles); listeners are of the four '
                    'modelled kinds (observe / kwargs[k]=v / kwargs.pop(k) / post_funcs.append / create a row of another class, '
                    'from the listener itself or from a callback it appended); the listeners of that other class do not create rows'],
    'exhaustive': False,
}

NCOLS = 3
DEFAULTS = [100, 101, 102]
SIGS = ['c', 'C', 'u', 'U', 'd', 'D']
HAS_KW = {'c', 'u'}
HAS_POST = {'c', 'C', 'U', 'd', 'D'}
BAD = 'x'

_env = {}


def env():
    if _env:
        return _env
    sqlo.setup()
    from sqlobject import events
    from sqlobject.sqlite.sqliteconnection import SQLiteConnection

    class LogConn(SQLiteConnection):
        """statement log: every INSERT/UPDATE/DELETE that was executed goes to the current sink"""
        verif_sink = None
        verif_tables = {}

        def _executeRetry(self, conn, cursor, query):
            r = SQLiteConnection._executeRetry(self, conn, cursor, query)
            sink = self.verif_sink
            if sink is not None:
                q = query.lstrip()
                head = q[:6].upper()
                if head in ('INSERT', 'UPDATE', 'DELETE'):
                    sink.append(('sql', q, cursor.lastrowid))
            return r

    conn = LogConn(':memory:')
    _env['LogConn'] = LogConn
    _env['conn2'] = LogConn(':memory:')      # a second database: where a RowCreateSignal listener may route new rows
    sigmap = {'c': events.RowCreateSignal, 'C': events.RowCreatedSignal, 'u': events.RowUpdateSignal,
              'U': events.RowUpdatedSignal, 'd': events.RowDestroySignal, 'D': events.RowDestroyedSignal}
    _env.update(conn=conn, sigmap=sigmap, events=events)
    return _env


# ----------------------------------------------------------------------------- encoding
def enc_val(v):
    if v is None:
        return 'n'
    if isinstance(v, bool) or not isinstance(v, int):
        return 'b'
    return 'i%d' % v


def enc_kw(kw):
    """kw: list of (key, value) or dict key->value"""
    items = sorted(dict(kw).items())
    if not items:
        return '-'
    return ','.join('%d=%s' % (k, enc_val(v)) for k, v in items)


def enc_act(act):
    if act[0] == 'o':
        return 'o'
    if act[0] == 's':
        return 's.%d.%s' % (act[1], enc_val(act[2]))
    if act[0] == 'd':
        return 'd.%d' % act[1]
    if act[0] == 'x':
        return 'x'
    if act[0] == 'k':
        return 'o'          # routing the row to another connection: for the model (one table) an observing listener
    return 'p.%d' % act[1]


def enc_op(op):
    k = op[0]
    if k == 'C':
        return 'C %s' % enc_kw(op[1])
    if k == 'A':
        return 'A %d %d %s' % (op[1], op[2], enc_val(op[3]))
    if k == 'S':
        return 'S %d %s' % (op[1], enc_kw(op[2]))
    if k == 'L':
        return 'L'
    return '%s %d' % (k, op[1])


def line_of(case):
    if case['kind'] == 'P':
        return 'P %d %d %s %d | %s | %s | %s' % (
            1 if case['lazy'] else 0, NCOLS, ','.join(enc_val(v) for v in DEFAULTS), 1 if case.get('cv', True) else 0,
            ' '.join('%s:%s' % (s, enc_act(a)) for s, a in case['listeners']),
            ' ; '.join(enc_op(op) for op in case['ops']),
            ' '.join('%s:%s' % (s, enc_act(a)) for s, a in case.get('blisteners', [])))
    return 'H | %s | %s' % (
        ' / '.join(' '.join('%s:%s:%d' % (s, enc_act(a), 1 if e else 0) for s, a, e in lv) for lv in case['levels']),
        ' '.join(str(x) for x in case['creates']))


def norm_case(case):
    """JSON round trip gives lists; normalise to tuples"""
    if case['kind'] == 'P':
        return {'kind': 'P', 'lazy': bool(case['lazy']), 'cv': bool(case.get('cv', True)),
                'listeners': [(s, tuple(a)) for s, a in case['listeners']],
                'blisteners': [(s, tuple(a)) for s, a in case.get('blisteners', [])],
                'strong': list(case.get('strong') or []),
                'ops': [tuple(tuple(map(tuple, x)) if isinstance(x, list) else x for x in op) for op in case['ops']]}
    return {'kind': 'H', 'levels': [[(s, tuple(a), bool(e)) for s, a, e in lv] for lv in case['levels']],
            'creates': list(case['creates']), 'strong': [tuple(x) for x in (case.get('strong') or [])]}


SPAWN_CB = 1000      # callbacks numbered >= 1000 create a row of class B when they run


# ----------------------------------------------------------------------------- real code, plain class
def colname(k):
    return 'c%d' % k if k < NCOLS else 'zz%d' % k


def keyof(name):
    if name.startswith('c') and name[1:].isdigit():
        return int(name[1:])
    if name.startswith('zz'):
        return int(name[2:])
    return 99


_sql_ins = re.compile(r'INSERT INTO (\w+) \((.*?)\) VALUES \((.*)\)$')
_sql_upd = re.compile(r'UPDATE (\w+) SET (.*) WHERE id = \((\d+)\)$')
_sql_del = re.compile(r'DELETE FROM (\w+) WHERE id = \((\d+)\)$')


def sql_val(t):
    t = t.strip()
    if t.startswith('(') and t.endswith(')'):
        t = t[1:-1]
    return 'n' if t == 'NULL' else 'i%d' % int(t)


def fmt_plain_sql(q, lastrowid, btable=None):
    if btable is not None and re.match(r'(INSERT INTO|UPDATE|DELETE FROM) %s\b' % btable, q):
        return 'b:' + fmt_plain_sql(q, lastrowid)
    m = _sql_ins.match(q)
    if m:
        cols = [c.strip() for c in m.group(2).split(',')]
        vals = [v for v in m.group(3).split(',')]
        assert cols == [colname(k) for k in range(NCOLS)], q
        return 'I%d[%s]' % (lastrowid, ','.join(sql_val(v) for v in vals))
    m = _sql_upd.match(q)
    if m:
        items = []
        for part in m.group(2).split(', '):
            c, v = part.split(' = ')
            items.append('%d=%s' % (keyof(c), sql_val(v)))
        return 'U%s[%s]' % (m.group(3), ','.join(items) or '-')
    m = _sql_del.match(q)
    if m:
        return 'D%s' % m.group(2)
    return 'SQL?%s' % q


def exc_out(e):
    n = sqlo.exc_name(e)
    if n == 'Invalid':
        return 'Invalid'
    if n == 'NotFound':
        return 'NotFound'
    if isinstance(e, TypeError):
        return 'TypeError'
    return n


_made = [0]


def renew_conn():
    """a fresh in-memory database every few hundred cases keeps the schema (and the run time) small"""
    e = env()
    _made[0] += 1
    if _made[0] % 300 == 0:
        try:
            e['conn'].close()
        except Exception:
            pass
        e['conn'] = e['LogConn'](':memory:')
        try:
            e['conn2'].close()
        except Exception:
            pass
        e['conn2'] = e['LogConn'](':memory:')


def make_class(lazy, cache_values=True):
    from sqlobject import SQLObject, IntCol
    e = env()
    name = sqlo.uniq('C19P')
    attrs = {'_connection': e['conn']}
    for k in range(NCOLS):
        attrs[colname(k)] = IntCol(default=DEFAULTS[k], dbName=colname(k))

    class sqlmeta:
        lazyUpdate = bool(lazy)
        cacheValues = bool(cache_values)
        table = name.lower()
    attrs['sqlmeta'] = sqlmeta
    cls = type(name, (SQLObject,), attrs)
    cls.createTable()
    return cls


def make_listener(sink, idx, sig, act, label=None, prefix='', spawn=None, route=None):
    """returns the receiver; it logs `e<sig><idx>@<id>[kw]` and performs `act` when applicable
    (`spawn`: callable creating a row of another class, for act `x` and callbacks numbered >= 1000)"""
    def rec(inst, *args):
        oid = inst.__dict__.get('id')
        tag = prefix + 'e%s%s@%s' % (sig, idx if label is None else label(inst, idx), '-' if oid is None else oid)
        if label is None:
            if sig in HAS_KW:
                tag += '[%s]' % enc_kw({keyof(k): v for k, v in args[0].items() if k != 'connection'})
            else:
                tag += '~'
        sink.append(tag)
        if act[0] == 's' and sig in HAS_KW:
            args[0][colname(act[1])] = act[2]
        elif act[0] == 'd' and sig in HAS_KW:
            args[0].pop(colname(act[1]), None)
        elif act[0] == 'k':
            if sig == 'c' and route is not None:
                args[0]['connection'] = route       # kwargs['connection'] = <other connection>: the row goes there
        elif act[0] == 'x':
            if spawn is not None:
                spawn()
        elif act[0] == 'p' and sig in HAS_POST:
            p = act[1]

            def cb(i):
                sink.append(prefix + ('p%d@%d' % (p, i.id) if label is None else 'p%d.%s@%d' % (p, label(i, None), i.id)))
                if p >= SPAWN_CB and spawn is not None:
                    spawn()
            args[-1].append(cb)
    return rec


def raw_table(cls, conn=None):
    conn = conn or cls._connection
    rows = conn.queryAll('SELECT id, %s FROM %s ORDER BY id' % (', '.join(colname(k) for k in range(NCOLS)),
                                                                  cls.sqlmeta.table))
    return [(r[0], list(r[1:])) for r in rows]


def fmt_table(rows):
    if not rows:
        return '-'
    return ' '.join('%d:%s' % (i, ','.join(enc_val(v) for v in vals)) for i, vals in rows)


def run_plain(case):
    """returns list of per-op dicts: out, entries (list of str), table (list), live-before info"""
    renew_conn()
    e = env()
    conn = e['conn']
    events = e['events']
    cls = make_class(case['lazy'], case.get('cv', True))
    by = make_class(False)          # bystander class: its events must never reach cls's listeners and vice versa
    bcls = make_class(False)        # class B: rows of it are created from inside listeners / callbacks of cls
    btable = bcls.sqlmeta.table
    sink = []
    keep = []
    for idx, (sig, act) in enumerate(case.get('blisteners', [])):
        f = make_listener(sink, idx, sig, act, prefix='b:')
        keep.append(f)
        events.listen(f, bcls, e['sigmap'][sig])
    # a RowCreateSignal listener may set kwargs['connection']: every row of the class then lives in the second database
    routed = any(sig == 'c' and act[0] == 'k' for sig, act in case['listeners'])
    conn2 = e['conn2']
    dconn = conn2 if routed else None
    if routed:
        cls.createTable(connection=conn2)
    strong = set(case.get('strong') or [])
    for idx, (sig, act) in enumerate(case['listeners']):
        f = make_listener(sink, idx, sig, act, spawn=bcls, route=conn2)
        if idx in strong:
            # registered with weak=False and referenced by nobody else (the closure-at-the-call-site style that
            # weak=False exists for): the registration itself must keep the listener alive
            events.listen(f, cls, e['sigmap'][sig], weak=False)
        else:
            keep.append(f)
            events.listen(f, cls, e['sigmap'][sig])
        f = None
    bysink = []
    for sig in SIGS:
        f = make_listener(bysink, 0, sig, ('o',))
        keep.append(f)
        events.listen(f, by, e['sigmap'][sig])
    objs = []
    results = []
    conn.verif_sink = sink
    conn2.verif_sink = sink
    try:
        for n, op in enumerate(case['ops']):
            del sink[:]
            before = raw_table(cls, dconn)
            out = 'ok'
            k = op[0]
            h = op[1] if k not in ('C', 'L') else None
            if h is not None and h >= len(objs):
                results.append({'out': 'nohandle', 'entries': [], 'table': before, 'before': before, 'id': None,
                                'bcount': len(raw_table(bcls))})
                continue
            oid = objs[h].id if h is not None else None
            try:
                if k == 'C':
                    o = cls(**{colname(kk): v for kk, v in op[1]})
                    objs.append(o)
                    oid = o.id
                elif k == 'A':
                    if op[2] >= NCOLS:
                        out = 'skip'
                    else:
                        setattr(objs[h], colname(op[2]), op[3])
                elif k == 'S':
                    objs[h].set(**{colname(kk): v for kk, v in op[2]})
                elif k == 'Y':
                    objs[h].syncUpdate()
                elif k == 'N':
                    objs[h].sync()
                elif k == 'D':
                    objs[h].destroySelf()
                elif k in ('F', 'L'):
                    pending = any(getattr(o, '_SO_createValues', None) for o in objs)
                    if not pending:
                        conn.cache.clear()          # force real fetches from the database
                        conn2.cache.clear()
                    if k == 'F':
                        o = cls.get(oid, connection=dconn) if routed else cls.get(oid)
                        if not pending:
                            objs[h] = o
                    else:
                        got = list(cls.select(connection=dconn)) if routed else list(cls.select())
                        if not pending:
                            byid = dict((o.id, o) for o in got)
                            for i, o in enumerate(objs):
                                if o.id in byid:
                                    objs[i] = byid[o.id]
                        if sorted(o.id for o in got) != [r[0] for r in before]:
                            out = 'select-mismatch'
                if n % 5 == 2:
                    # bystander activity: a create + update + destroy on another class
                    conn.verif_sink = None
                    b = by(c0=1)
                    b.c1 = 2
                    b.destroySelf()
                    conn.verif_sink = sink
            except Exception as ex:
                out = exc_out(ex)
                conn.verif_sink = sink
            entries = [x if isinstance(x, str) else fmt_plain_sql(x[1], x[2], btable) for x in sink]
            results.append({'out': out, 'entries': entries, 'table': raw_table(cls, dconn), 'before': before, 'id': oid,
                            'bcount': len(raw_table(bcls))})
    finally:
        conn.verif_sink = None
        conn2.verif_sink = None
    ok_by = (len(bysink) % 6 == 0) and all(x.startswith('e') for x in bysink)
    return results, ok_by, bysink


def fmt_results(results):
    return ' ; '.join('%s %s # %s # b%d' % (r['out'], ' '.join(r['entries']) or '-', fmt_table(r['table']), r['bcount'])
                      for r in results)


# ----------------------------------------------------------------------------- oracle, plain class
def rewritten(listeners, sig, kw):
    d = dict(kw)
    for s, act in listeners:
        if s != sig:
            continue
        if act[0] == 's':
            d[act[1]] = act[2]
        elif act[0] == 'd':
            d.pop(act[1], None)
    return d


def oracle_plain(ctx, case, results):
    L = case['listeners']
    lazy = case['lazy']
    idx = dict((s, [i for i, (s2, _) in enumerate(L) if s2 == s]) for s in SIGS)
    posts = dict((s, sorted(a[1] for s2, a in L if s2 == s and a[0] == 'p' and s in HAS_POST)) for s in SIGS)
    pend = {}         # handle -> dict of pending column values (harness-side bookkeeping for the lazy class)
    handles = 0
    mode = 'lazy' if lazy else 'eager'

    def fail(kind, check, what, n):
        ctx.oracle_fail('C19:%s-%s:%s' % (kind, mode, check), what + ' | op %d of %s' % (n, line_of(case)), case_json(case))

    BL = case.get('blisteners', [])
    bidx = dict((s, [i for i, (s2, _) in enumerate(BL) if s2 == s]) for s in SIGS)
    spawners = set(i for i, (s2, a) in enumerate(L) if a[0] == 'x')
    bseen = 0
    for n, (op, r) in enumerate(zip(case['ops'], results)):
        k = op[0]
        ent = r['entries']
        # rows of class B created from inside the listeners / callbacks of this operation: every one of them
        # gets its before-events before and its after-events after its INSERT, once per listener of B
        triggers = sum(1 for x in ent if (x.startswith('e') and int(re.match(r'e.(\d+)@', x).group(1)) in spawners)
                       or (x.startswith('p') and int(re.match(r'p(\d+)@', x).group(1)) >= SPAWN_CB))
        b_ins = [(i, int(re.match(r'b:I(\d+)\[', x).group(1))) for i, x in enumerate(ent) if x.startswith('b:I')]
        if len(b_ins) != triggers or r['bcount'] != bseen + triggers:
            fail('nested-create', 'write-once', '%d creating listener calls / callbacks, INSERTs of the other class: %s, rows %d -> %d'
                 % (triggers, [x for _, x in b_ins], bseen, r['bcount']), n)
        bseen = r['bcount']
        got_before = [int(re.match(r'b:ec(\d+)@', x).group(1)) for x in ent if x.startswith('b:ec')]
        if got_before != bidx['c'] * len(b_ins):
            fail('nested-create', 'before-once', 'before-events of the nested creates went to %s, listeners %s x %d rows: %s'
                 % (got_before, bidx['c'], len(b_ins), ent), n)
        for pos, bid in b_ins:
            got = [(i, int(re.match(r'b:eC(\d+)@', x).group(1))) for i, x in enumerate(ent)
                   if x.startswith('b:eC') and x.endswith('@%d~' % bid)]
            if [j for _, j in got] != bidx['C'] or any(i < pos for i, _ in got):
                fail('nested-create', 'after-once', 'row %d of the other class, created inside a listener/callback: RowCreatedSignal '
                     'delivered to %s (listeners %s) in %s' % (bid, [j for _, j in got], bidx['C'], ent), n)
        evs = [x for x in ent if x.startswith('e')]
        wr = [x for x in ent if x[0] in 'IUD']
        ps = [x for x in ent if x.startswith('p')]
        before = dict(r['before'])
        after = dict(r['table'])

        def sig_idx(s):
            return [int(re.match(r'e.(\d+)@', x).group(1)) for x in evs if x[1] == s]

        def check_shape(kind, bsig, asig, wkind, oid, expect_write=True, expect_before=True, expect_after=True):
            others = [x for x in evs if x[1] not in ((bsig if expect_before else '') + (asig if expect_after else ''))]
            if others:
                fail(kind, 'foreign-signal', 'unexpected signals %s' % others, n)
            if expect_before and sig_idx(bsig) != idx[bsig]:
                fail(kind, 'before-once', 'before-event delivered to %s, listeners are %s' % (sig_idx(bsig), idx[bsig]), n)
            if expect_after and sig_idx(asig) != idx[asig]:
                fail(kind, 'after-once', 'after-event delivered to %s, listeners are %s' % (sig_idx(asig), idx[asig]), n)
            want = ['%s%d' % (wkind, oid)] if expect_write else []
            got = [re.match(r'[IUD]\d+', x).group(0) for x in wr]
            if got != want:
                fail(kind, 'write-once', 'write statements %s, expected %s' % (wr, want), n)
                return
            if expect_write:
                w = ent.index(wr[0])
                if expect_before and any(ent.index(x) > w for x in evs if x[1] == bsig):
                    fail(kind, 'order', 'a before-event after the write: %s' % ent, n)
                if expect_after and any(ent.index(x) < w for x in evs if x[1] == asig):
                    fail(kind, 'order', 'an after-event before the write: %s' % ent, n)
                if any(i < w for i, x in enumerate(ent) if x.startswith('p')):
                    fail(kind, 'posts', 'a post-callback ran before the write: %s' % ent, n)
            elif expect_before and expect_after:
                # nothing to write: still before-events first
                lastb = max([i for i, x in enumerate(ent) if x[1:2] == bsig and x[0] == 'e'] or [-1])
                firsta = min([i for i, x in enumerate(ent) if x[1:2] == asig and x[0] == 'e'] or [len(ent)])
                if lastb > firsta:
                    fail(kind, 'order', 'after-event before a before-event: %s' % ent, n)
            wantp = sorted((posts[bsig] if expect_before else []) + (posts[asig] if expect_after else []))
            gotp = sorted(int(re.match(r'p(\d+)@', x).group(1)) for x in ps)
            if gotp != wantp:
                fail(kind, 'posts', 'callbacks run %s, appended %s' % (gotp, wantp), n)
            if any(not x.endswith('@%d' % oid) for x in ps):
                fail(kind, 'posts', 'callback called with another instance: %s' % ps, n)

        if k == 'C':
            if r['out'] == 'ok':
                oid = r['id']
                check_shape('create', 'c', 'C', 'I', oid)
                kw = rewritten(L, 'c', op[1])
                want = [kw.get(c, DEFAULTS[c]) for c in range(NCOLS)]
                if after.get(oid) != want:
                    fail('create', 'stored', 'row %s, rewritten kwargs give %s' % (after.get(oid), want), n)
                pend[handles] = {}
                handles += 1
            continue
        if k == 'L':
            if ent:
                fail('select', 'no-events', 'select produced %s' % ent, n)
            continue
        h = op[1]
        if h >= handles:
            continue
        oid = r['id']
        live = oid in before
        if k == 'F':
            if ent:
                fail('fetch', 'no-events', 'get produced %s' % ent, n)
            continue
        if not live:
            continue                      # operations through a handle of a destroyed row: correspondence only
        if k in ('A', 'S'):
            if k == 'A' and op[2] >= NCOLS:
                continue
            kw0 = [(op[2], op[3])] if k == 'A' else op[2]
            kw = rewritten(L, 'u', kw0)
            cols = dict((c, v) for c, v in kw.items() if c < NCOLS)
            kind = 'assign' if k == 'A' else 'set'
            if r['out'] == 'ok':
                if lazy:
                    check_shape(kind, 'u', 'U', 'U', oid, expect_write=False, expect_after=False)
                    pend[h].update(cols)
                    if after != before:
                        fail(kind, 'stored', 'lazy update changed the table before syncUpdate', n)
                else:
                    check_shape(kind, 'u', 'U', 'U', oid, expect_write=bool(cols))
                    want = [cols.get(c, before[oid][c]) for c in range(NCOLS)]
                    if after.get(oid) != want:
                        fail(kind, 'stored', 'row %s, rewritten kwargs give %s' % (after.get(oid), want), n)
            elif after != before:
                fail(kind, 'stored', 'a failed update changed the table', n)
            # a failed lazy set() leaves nothing pending (unknown keywords are refused before the
            # values are taken over, fix bf075e4): the next sync must not write them (checked there)
        elif k in ('Y', 'N'):
            if r['out'] == 'ok':
                if pend[h]:
                    check_shape('sync', 'u', 'U', 'U', oid, expect_before=False)
                    want = [pend[h].get(c, before[oid][c]) for c in range(NCOLS)]
                    if after.get(oid) != want:
                        fail('sync', 'stored', 'row %s, pending rewritten values give %s' % (after.get(oid), want), n)
                    pend[h] = {}
                elif ent:
                    fail('sync', 'no-events', 'nothing pending but %s' % ent, n)
        elif k == 'D':
            if r['out'] == 'ok':
                check_shape('destroy', 'd', 'D', 'D', oid)
                if oid in after:
                    fail('destroy', 'stored', 'row still there', n)


def case_json(case):
    return json.loads(json.dumps(case))


# ----------------------------------------------------------------------------- real code, chain
def run_chain(case):
    from sqlobject import IntCol
    from sqlobject.inheritance import InheritableSQLObject
    renew_conn()
    e = env()
    conn = e['conn']
    events = e['events']
    sink = []
    keep = []
    classes = []
    level_of = {}
    eff = []          # per level: list of receivers in connection order

    def label(inst, idx):
        lv = level_of[type(inst)]
        if idx is None:
            return '%d' % lv
        return '%d.%d' % (lv, eff[lv].index(idx))

    depth = len(case['levels'])
    cstrong = set(tuple(x) for x in (case.get('strong') or []))
    # a plain class B whose rows are created by `x` listeners of the chain classes ("audit row" pattern);
    # the chain model ignores B (its entries are checked by the oracle and filtered from the comparison)
    bcls = make_class(False)
    for sg in ('c', 'C'):
        f = make_listener(sink, 0, sg, ('o',), prefix='b:')
        keep.append(f)
        events.listen(f, bcls, e['sigmap'][sg])
    recs = []
    for lv in range(depth):
        recs.append([make_listener(sink, (lv, i), s, a, label=label, spawn=bcls)
                     for i, (s, a, early) in enumerate(case['levels'][lv])])
    keep.append(recs)
    for lv in range(depth):
        name = sqlo.uniq('C19H%d_' % lv)
        attrs = {'v%d' % lv: IntCol(default=lv)}
        if lv == 0:
            attrs['_connection'] = conn
            base = InheritableSQLObject
        else:
            base = classes[lv - 1]
            attrs['_inheritable'] = lv < depth - 1

        class sqlmeta:
            table = name.lower()
        attrs['sqlmeta'] = sqlmeta
        cls = type(name, (base,), attrs)
        classes.append(cls)
        level_of[cls] = lv
        # what the subclass inherited (cloned connections), root first
        inherited = []
        for j in range(lv):
            inherited += [(j, i) for i, (s, a, early) in enumerate(case['levels'][j]) if early]
        eff.append(inherited + [(lv, i) for i in range(len(case['levels'][lv]))])
        for i, (s, a, early) in enumerate(case['levels'][lv]):
            if early:
                events.listen(recs[lv][i], cls, e['sigmap'][s], weak=((lv, i) not in cstrong))
    for lv in range(depth):
        for i, (s, a, early) in enumerate(case['levels'][lv]):
            if not early:
                events.listen(recs[lv][i], classes[lv], e['sigmap'][s], weak=((lv, i) not in cstrong))
    # listeners registered with weak=False are referenced by nobody but the dispatcher from here on
    for lv, i in cstrong:
        recs[lv][i] = None
    for cls in classes:
        cls.createTable()
    tables = dict((cls.sqlmeta.table, lv) for lv, cls in enumerate(classes))
    out = []
    conn.verif_sink = sink
    try:
        for lv in case['creates']:
            del sink[:]
            try:
                o = classes[lv]()
                oid = o.id
            except Exception as ex:
                sink.append('EXC:%s' % exc_out(ex))
                oid = None
            seg = []
            for x in sink:
                if isinstance(x, str):
                    seg.append(x)
                    continue
                q = x[1]
                m = re.match(r'INSERT INTO (\w+) \((.*?)\) VALUES \((.*)\)$', q)
                if m and m.group(1) in tables:
                    cols = [c.strip() for c in m.group(2).split(',')]
                    if cols[0] == 'id':
                        rid = int(m.group(3).split(',')[0])
                    else:
                        rid = x[2]
                    seg.append('I%d@%d' % (tables[m.group(1)], rid))
                elif m and m.group(1) == bcls.sqlmeta.table:
                    seg.append('b:I@%d' % x[2])
                else:
                    seg.append('SQL?%s' % q)
            out.append((lv, oid, seg))
    finally:
        conn.verif_sink = None
    return out


def oracle_chain(ctx, case, out):
    for n, (lv, oid, seg) in enumerate(out):
        if oid is None:
            continue
        # rows of the plain class B created from inside listeners of the chain classes
        b_ins = [(i, int(x.split('@')[1])) for i, x in enumerate(seg) if x.startswith('b:I@')]
        for pos, bid in b_ins:
            before = [i for i, x in enumerate(seg) if x.startswith('b:ec0@') and i < pos]
            after = [i for i, x in enumerate(seg) if x == 'b:eC0@%d~' % bid]
            if len(after) != 1 or after[0] < pos or not before:
                ctx.oracle_fail('C19:chain:nested-create:after-once',
                                'row %d created inside a listener of the chain: RowCreatedSignal delivered %d times in %s'
                                % (bid, len(after), seg) + ' | create %d of %s' % (n, line_of(case)), case_json(case))
        pos_ins = {}
        for i, x in enumerate(seg):
            m = re.match(r'I(\d+)@(\d+)$', x)
            if m and int(m.group(2)) == oid:
                pos_ins.setdefault(int(m.group(1)), []).append(i)
        key = None
        if sorted(pos_ins) != list(range(lv + 1)) or any(len(v) != 1 for v in pos_ins.values()):
            key, what = 'C19:chain:insert-per-level', 'INSERTs per level %s for an object of level %d' % (pos_ins, lv)
        else:
            last_ins = max(v[0] for v in pos_ins.values())
            created = [i for i, x in enumerate(seg) if x.startswith('eC')]
            if any(i < last_ins for i in created):
                key, what = 'C19:chain:created-before-all-levels', 'a RowCreatedSignal before the last INSERT: %s' % seg
            # every effective created-listener of every level exactly once
            for j in range(lv + 1):
                inherited = []
                for a in range(j):
                    inherited += [(s, e) for (s, act, e) in case['levels'][a] if e]
                effj = [s for s, e in inherited] + [s for (s, act, e) in case['levels'][j]]
                want = [i for i, s in enumerate(effj) if s == 'C']
                got = [int(re.match(r'eC\d+\.(\d+)@', x).group(1)) for x in seg if x.startswith('eC%d.' % j)]
                if got != want and key is None:
                    key, what = 'C19:chain:created-once', 'level %d created-events to %s, listeners %s' % (j, got, want)
        if key:
            ctx.oracle_fail(key, what + ' | create %d of %s' % (n, line_of(case)), case_json(case))


# ----------------------------------------------------------------------------- generators
def gen_val(rng, allow_bad=True):
    r = rng.random()
    if allow_bad and r < 0.06:
        return BAD
    if r < 0.16:
        return None
    return rng.randint(-3, 30)


def gen_kw(rng, allow_bad=True, allow_unknown=True):
    n = rng.choice([0, 1, 1, 2, 2, 3])
    keys = rng.sample(range(NCOLS), min(n, NCOLS))
    kw = [(k, gen_val(rng, allow_bad)) for k in keys]
    if allow_unknown and rng.random() < 0.04:
        kw.append((NCOLS, 1))
    return tuple(kw)


def gen_listener(rng):
    s = rng.choice(['c', 'C', 'u', 'u', 'U', 'U', 'd', 'D'])
    r = rng.random()
    if s in HAS_KW and r < 0.6:
        if rng.random() < 0.7:
            k = rng.randint(0, NCOLS - 1) if rng.random() < 0.93 else NCOLS
            return (s, ('s', k, gen_val(rng, allow_bad=rng.random() < 0.1)))
        return (s, ('d', rng.randint(0, NCOLS)))
    if s in HAS_POST and r < 0.6:
        return (s, ('p', rng.randint(0, 9)))
    if r > 0.95:
        # inapplicable action (no effect): appending on RowUpdateSignal / editing a dict that is not kwargs
        return (s, ('p', 9)) if s == 'u' else (s, ('s', 0, 1))
    return (s, ('o',))


def gen_blistener(rng):
    s = rng.choice(['c', 'C', 'C'])
    return (s, ('p', rng.randint(0, 9))) if rng.random() < 0.4 else (s, ('o',))


def gen_plain(rng, maxops):
    lazy = rng.random() < 0.45
    listeners = [gen_listener(rng) for _ in range(rng.choice([0, 1, 2, 3, 3, 4, 5, 6]))]
    blisteners = []
    if rng.random() < 0.3:
        # the "audit row" pattern: listeners / callbacks that create a row of another class
        for _ in range(rng.choice([1, 1, 2, 3])):
            s = rng.choice(['c', 'C', 'C', 'C', 'u', 'U', 'd', 'D'])
            act = ('p', SPAWN_CB + rng.randint(0, 9)) if (s in HAS_POST and rng.random() < 0.4) else ('x',)
            listeners.insert(rng.randint(0, len(listeners)), (s, act))
        blisteners = [gen_blistener(rng) for _ in range(rng.choice([1, 2, 3]))]
    ops = [('C', gen_kw(rng, allow_bad=False, allow_unknown=False))]
    nh = 1
    for _ in range(rng.randint(3, maxops)):
        r = rng.random()
        h = rng.randint(0, nh - 1) if rng.random() < 0.95 else nh
        if r < 0.12:
            ops.append(('C', gen_kw(rng)))
            nh += 1                      # may fail; handle numbering then simply runs ahead (nohandle)
        elif r < 0.40:
            ops.append(('A', h, rng.randint(0, NCOLS - 1), gen_val(rng)))
        elif r < 0.62:
            ops.append(('S', h, gen_kw(rng)))
        elif r < 0.74:
            ops.append(('Y', h))
        elif r < 0.79:
            ops.append(('N', h))
        elif r < 0.87:
            ops.append(('D', h))
        elif r < 0.94:
            ops.append(('F', h))
        else:
            ops.append(('L',))
    # sqlmeta.cacheValues = False (eager and lazy): nothing kept on the instance, the events must be the same
    if rng.random() < 0.12:
        # a RowCreateSignal listener that routes the new row to another connection (kwargs['connection'] = ...)
        listeners.insert(rng.randint(0, len(listeners)), ('c', ('k',)))
    # some listeners are registered with weak=False and kept alive by that registration alone
    strong = [i for i in range(len(listeners)) if rng.random() < 0.3]
    return {'kind': 'P', 'lazy': lazy, 'cv': rng.random() >= 0.3, 'listeners': listeners, 'ops': ops,
            'blisteners': blisteners, 'strong': strong}


def gen_chain(rng):
    levels = []
    for lv in range(3):
        own = []
        for _ in range(rng.choice([0, 1, 2, 3])):
            s = rng.choice(['c', 'C', 'C', 'C'])
            act = ('p', rng.randint(0, 9)) if rng.random() < 0.4 else ('o',)
            if rng.random() < 0.15:
                act = ('x',)              # creates a row of another (plain) class
            own.append((s, act, rng.random() < 0.5))
        own.sort(key=lambda x: not x[2])      # connections made before the subclass exists come first
        levels.append(own)
    creates = [rng.randint(0, 2) for _ in range(rng.randint(1, 5))]
    strong = [(lv, i) for lv in range(3) for i in range(len(levels[lv])) if rng.random() < 0.3]
    return {'kind': 'H', 'levels': levels, 'creates': creates, 'strong': strong}


def fmt_chain(out):
    segs = [x for (_, _, seg) in out for x in seg if not x.startswith('b:')]
    return ' '.join(segs) or '-'


def corpus_cases():
    d = os.path.join(os.path.dirname(os.path.dirname(os.path.abspath(__file__))), 'corpus', 'C19')
    cases = []
    if os.path.isdir(d):
        for fn in sorted(os.listdir(d)):
            if fn.endswith('.jsonl'):
                for line in open(os.path.join(d, fn)):
                    line = line.strip()
                    if line and not line.startswith('#'):
                        cases.append(norm_case(json.loads(line)))
    return cases


def exhaustive_chain_orders():
    """every create order of length <= 3 over the three levels, with a fixed listener layout"""
    import itertools
    levels = [[('c', ('o',), True), ('C', ('p', 1), True), ('C', ('o',), False)],
              [('C', ('o',), True), ('c', ('p', 2), False)],
              [('C', ('p', 3), False)]]
    for n in (1, 2, 3):
        for order in itertools.product(range(3), repeat=n):
            yield {'kind': 'H', 'levels': levels, 'creates': list(order)}


def run_case(ctx, case, model_out):
    line = line_of(case)
    if case['kind'] == 'P':
        results, ok_by, bysink = run_plain(case)
        impl = fmt_results(results)
        nwrites = sum(1 for r in results for x in r['entries'] if x[0] in 'IUD')
        ctx.case(line, nontrivial=bool(case['listeners']) and nwrites > 0,
                 sample={'case': line, 'impl': impl[:400]},
                 kind='%s%s/%d-listeners' % ('lazy' if case['lazy'] else 'eager', '' if case.get('cv', True) else '-nocachevalues',
                                             min(len(case['listeners']), 4)))
        for r in results:
            ctx.count('out:' + r['out'])
        ctx.compare('plain class: merged signal/statement log and table = model', case_json(case), model_out, impl)
        oracle_plain(ctx, case, results)
        if not ok_by:
            ctx.oracle_fail('C19:bystander:foreign-signal', 'listeners of another class saw %s' % bysink[:8], case_json(case))
    else:
        out = run_chain(case)
        impl = fmt_chain(out)
        ctx.case(line, nontrivial=any(lv for lv in case['levels']), sample={'case': line, 'impl': impl[:400]}, kind='chain')
        ctx.compare('inheritance chain: signal/INSERT log = model', case_json(case), model_out, impl)
        oracle_chain(ctx, case, out)


def raising_listener_case(variant, ncreates=3):
    """Directed scenario (oracle only; listeners that raise are outside the Lean model, which takes the
    thread-local postponed list to be gone whenever a constructor has returned or raised): a
    RowCreatedSignal listener (variant 'listener') or a callback it appends (variant 'post') raises on its
    first call.  The first create propagates the exception; every later successful create must still
    deliver RowCreatedSignal exactly once, after its INSERT.  Returns (ok, text)."""
    e = env()
    renew_conn()
    conn = e['conn']
    events = e['events']
    cls = make_class(False)
    sink = []
    state = {'raised': False}

    def boom():
        if not state['raised']:
            state['raised'] = True
            raise RuntimeError('listener failure injected by the harness')

    def created(inst, kw, post_funcs):
        sink.append('eC0@%s~' % inst.__dict__.get('id'))
        if variant == 'listener':
            boom()
        else:
            post_funcs.append(lambda i: boom())
    events.listen(created, cls, e['sigmap']['C'])
    problems = []
    text = []
    conn.verif_sink = sink
    try:
        for n in range(ncreates):
            del sink[:]
            try:
                cls(c0=n)
                out = 'ok'
            except RuntimeError:
                out = 'RuntimeError'
            except Exception as ex:
                out = exc_out(ex)
            ent = [x if isinstance(x, str) else fmt_plain_sql(x[1], x[2]) for x in sink]
            text.append('%s %s' % (out, ' '.join(ent) or '-'))
            ins = [i for i, x in enumerate(ent) if x.startswith('I')]
            evs = [i for i, x in enumerate(ent) if x.startswith('eC')]
            want_out = 'RuntimeError' if n == 0 else 'ok'
            if out != want_out or len(ins) != 1 or len(evs) != 1 or evs[0] < ins[0]:
                problems.append('create %d: %s %s' % (n, out, ent))
    finally:
        conn.verif_sink = None
    return (not problems), 'variant %s: %s%s' % (variant, ' ; '.join(text),
                                                 (' | PROBLEMS: ' + '; '.join(problems)) if problems else '')


def run(ctx):
    env()
    rng = ctx.rng
    for variant in ('listener', 'post'):
        ok, text = raising_listener_case(variant)
        ctx.case('raising-' + variant, nontrivial=True, sample={'case': 'raising created-' + variant, 'impl': text[:300]},
                 kind='raising-listener')
        if not ok:
            ctx.oracle_fail('C19:create-after-raising-listener:after-once',
                            'after a create-finished %s raised once, later creates do not deliver RowCreatedSignal once '
                            'after their INSERT: %s' % (variant, text), {'kind': 'R', 'variant': variant})
    cases = corpus_cases()
    cases += list(exhaustive_chain_orders())
    nplain = ctx.budget(1800, 5000)     # per-case cost grows with the number of classes ever created
    nchain = ctx.budget(300, 800)
    maxops = 20
    for _ in range(nplain):
        cases.append(gen_plain(rng, maxops))
    for _ in range(nchain):
        cases.append(gen_chain(rng))
    outs = ctx.model([line_of(c) for c in cases])
    for i, case in enumerate(cases):
        run_case(ctx, case, outs[i] if outs is not None else None)


def replay(case):
    env()
    if case.get('kind') == 'R':
        return raising_listener_case(case['variant'])
    case = norm_case(case)

    class Ctx:
        fails = []

        def oracle_fail(self, key, what, case):
            self.fails.append((key, what))
    c = Ctx()
    if case['kind'] == 'P':
        results, ok_by, bysink = run_plain(case)
        oracle_plain(c, case, results)
        text = fmt_results(results)
    else:
        out = run_chain(case)
        oracle_chain(c, case, out)
        text = fmt_chain(out)
    return (not c.fails), 'case: %s\nimplementation log: %s\noracle: %s' % (
        line_of(case), text, c.fails or 'all checks passed')
