"""C08 — ConnectionHub.doInTransaction is all-or-nothing, re-raises the same exception, restores the hub, releases
the low-level connection.

correspondence: every body of <= 4 steps over {create new, create existing, update, delete} x an exception of
either kind (Exception subclass / BaseException only) after every prefix (or none) x the calling thread (process-level
binding, or one of two threads with their own thread-level connection) through the real `doInTransaction` with real
threads (sequentialised), against the Lean model driver `drv_c08` (Model/Hub.lean).
oracle (independent of the model): a Python dict reference for the body; a third plain sqlite3 connection reads the
committed rows; exception identity with `is`; every thread's hub resolution (object and level) before = after; pool
length restored; the write lock is free afterwards.
"""
import atexit
import gc
import itertools
import os
import queue
import shutil
import sqlite3
import tempfile
import threading

from vlib import sqlo

PROP = 'C08'
META = {
    'extractors': [],
    'technique': ('Lean 4 proof about an executable model of ConnectionHub.doInTransaction (hub bindings per thread and '
                  'process, body routed through the hub, commit/rollback/finally, Transaction.__del__) + exhaustive small-scope '
                  'differential correspondence with real threads + dict/raw-connection oracle'),
    'level_text': ('Theorem C08_doInTransaction_atomic_restores: for every world (rows, bindings of any number of threads, pool '
                   'counts), calling thread, body (any number of create/update/delete steps) and exception of either kind after any '
                   'prefix or raised by the library mid-body: all steps committed and the value returned, or nothing committed and '
                   'the same exception re-raised; the hub is exactly as before; the low-level connection is released (for a '
                   'non-Exception BaseException: when Transaction.__del__ runs).'),
    'level_note': ('Trusted: Lean kernel; the hand-written model Model/Hub.lean tied to the code by the exhaustive small-scope '
                   'correspondence; SQLite transaction semantics; CPython reference counting for Transaction.__del__.'),
    'rule': ('case = (calling thread: 0 = process-level binding, 1/2 = own thread-level connection; body of <= 4 steps over '
             '{create id 3, create id 1 (exists), update id 1, delete id 1}; raise point: none, or after k = 0..len steps an Exception '
             'subclass or a BaseException-only exception); the whole space is enumerated; distinct = distinct cases; '
             'non-trivial = the body has at least one step or raises'),
    'trusted': ['SQLite transaction semantics (a rolled-back / never committed transaction leaves the committed rows unchanged)',
                'CPython reference counting: dropping the traceback of the escaped BaseException runs Transaction.__del__'],
    'modelled': ['a BaseException that is not an Exception (KeyboardInterrupt, SystemExit, GeneratorExit) is not caught by '
                 'doInTransaction: the transaction is rolled back by Transaction.__del__ -> rollback() when the traceback\'s reference '
                 'dies (refcounting); modelled as an explicit `collect` step, observed by dropping the exception in the harness',
                 'nested doInTransaction (binding already a Transaction) is outside the model',
                 'the pool is observed through len(connection._pool) relative to a warmed-up baseline'],
    'assumptions': ['the calling thread\'s binding is a database connection (not a URI string, not already a transaction)'],
    'exhaustive': True,
}

INITIAL = {1: 10, 2: 20}
ALPHABET = ['c3', 'c1', 'u1', 'd1']
DUP_ID, NF_ID = 1000001, 1000002
_env = {}


class BodyError(Exception):
    pass


class BodyAbort(BaseException):
    pass


E_CLASSES = [BodyError, ValueError, KeyError, RuntimeError]
K_CLASSES = [KeyboardInterrupt, SystemExit, GeneratorExit, BodyAbort]


class Worker(threading.Thread):
    """a real thread that executes commands one at a time (sequentialised by the main thread)"""

    def __init__(self, tid, e):
        threading.Thread.__init__(self, daemon=True)
        self.tid = tid
        self.e = e
        self.inq = queue.Queue()
        self.outq = queue.Queue()
        self.slot = {}

    def call(self, *cmd):
        self.inq.put(cmd)
        kind, val = self.outq.get()
        if kind == 'crash':
            raise RuntimeError('worker %d: %s' % (self.tid, val))
        return val

    def run(self):
        while True:
            cmd = self.inq.get()
            if cmd[0] == 'stop':
                self.outq.put(('ok', None))
                return
            try:
                self.outq.put(('ok', getattr(self, 'do_' + cmd[0])(*cmd[1:])))
            except BaseException as ex:      # a bug of the harness itself
                import traceback
                self.outq.put(('crash', traceback.format_exc()))

    # -- commands
    def do_bind(self, conn):
        self.e['hub'].threadConnection = conn
        return True

    def do_setup(self):
        self.e['cls'].createTable(connection=self.e['conns'][0])
        return True

    def do_resolve(self):
        hub = self.e['hub']
        try:
            hub.threadConnection
            lvl = 'T'
        except AttributeError:
            lvl = 'P'
        try:
            c = hub.getConnection()
        except AttributeError:
            return '-'
        names = {id(x): 'b%d' % i for i, x in enumerate(self.e['conns'])}
        return '%s:%s' % (lvl, names.get(id(c), 't?' if type(c).__name__ == 'Transaction' else '??'))

    def do_run(self, steps, raise_at, exc_obj):
        hub, cls = self.e['hub'], self.e['cls']
        rec = {}

        def body():
            try:
                rec['inside'] = type(hub.getConnection()).__name__
                for i, (op, k, v) in enumerate(steps):
                    if raise_at == i:
                        raise exc_obj
                    if op == 'c':
                        cls(id=k, v=v)
                    elif op == 'u':
                        cls.get(k).v = v
                    else:
                        cls.get(k).destroySelf()
                if raise_at == len(steps):
                    raise exc_obj
            except BaseException as ex:
                rec['left_body'] = ex
                raise
            return 7
        try:
            value = hub.doInTransaction(body)
            out = ('returned', value, True)
        except BaseException as ex:
            self.slot['exc'] = ex          # keeps the traceback (and with it the transaction) alive until `collect`
            out = ('raised', ex, ex is rec.get('left_body'))
        res = {'outcome': out[0], 'same_object': out[2], 'inside': rec.get('inside')}
        if out[0] == 'returned':
            res['value'] = out[1]
        else:
            ex = out[1]
            res['is_given'] = ex is exc_obj
            res['exc_kind'] = 'E' if isinstance(ex, Exception) else 'K'
            res['exc_name'] = type(ex).__name__
        del out
        return res

    def do_collect(self):
        # drop the escaped exception and its traceback: reference counting alone must finish the transaction
        ex = self.slot.pop('exc', None)
        if ex is not None:
            ex.__traceback__ = None
        del ex
        return True

    def do_gc(self):
        gc.collect()
        return True


def env():
    if _env:
        return _env
    sqlo.setup()
    from sqlobject import SQLObject, IntCol
    from sqlobject.dbconnection import ConnectionHub
    d = tempfile.mkdtemp(prefix='verif_c08_', dir='/dev/shm' if os.access('/dev/shm', os.W_OK) else None)
    atexit.register(shutil.rmtree, d, True)
    path = os.path.join(d, 'c08.db')
    hub = ConnectionHub()
    cls = type('C08Row', (SQLObject,), {'_connection': hub, 'v': IntCol()})
    conns = [sqlo.file_conn(path) for _ in range(3)]
    hub.processConnection = conns[0]
    _env.update(dir=d, path=path, hub=hub, cls=cls, conns=conns)
    workers = [Worker(t, _env) for t in range(3)]
    for w in workers:
        w.start()
    workers[0].call('setup')
    workers[1].call('bind', conns[1])
    workers[2].call('bind', conns[2])
    raw = sqlite3.connect(path, isolation_level=None, timeout=0)
    _env.update(workers=workers, raw=raw, table=cls.sqlmeta.table)
    # warm-up: one empty transaction per thread, so that every pool holds the thread's low-level connection
    for w in workers:
        w.call('run', [], None, None)
        w.call('collect')
    gc.collect()
    gc.freeze()
    _env['baseline'] = [len(c._pool) for c in conns]
    _env['made'] = [c._connectionCount for c in conns]
    return _env


def reset_db(e):
    raw = e['raw']
    raw.execute('DELETE FROM %s' % e['table'])
    for k, v in sorted(INITIAL.items()):
        raw.execute('INSERT INTO %s (id, v) VALUES (%d, %d)' % (e['table'], k, v))


def raw_rows(e):
    return dict(e['raw'].execute('SELECT id, v FROM %s' % e['table']).fetchall())


def fmt_rows(rows):
    return ''.join(' %d=%d' % (k, rows[k]) for k in sorted(rows))


def concrete_steps(word):
    out = []
    for pos, sym in enumerate(word):
        op, k = sym[0], int(sym[1:])
        out.append((op, k, {'c': 30, 'u': 100, 'd': 0}[op] + pos))
    return out


def step_token(st):
    op, k, v = st
    return '%s%d' % (op, k) if op == 'd' else '%s%d=%d' % (op, k, v)


def reference(steps, raise_at, kind, exc_id):
    """Python dict reference of the body alone: (final rows or None, exception tag or None)"""
    rows = dict(INITIAL)
    for i, (op, k, v) in enumerate(steps):
        if raise_at == i:
            return None, '%s:%d' % (kind, exc_id)
        if op == 'c':
            if k in rows:
                return None, 'E:%d' % DUP_ID
            rows[k] = v
        elif op == 'u':
            if k not in rows:
                return None, 'E:%d' % NF_ID
            rows[k] = v
        else:
            if k not in rows:
                return None, 'E:%d' % NF_ID
            del rows[k]
    if raise_at == len(steps):
        return None, '%s:%d' % (kind, exc_id)
    return rows, None


def gen_cases(ctx):
    maxlen = 5 if ctx.tier == 'thorough' else 4
    cases = []
    n = 0
    import glob
    import json
    for path in sorted(glob.glob(os.path.join(os.path.dirname(os.path.dirname(os.path.abspath(__file__))), 'corpus', 'C08', '*.json'))):
        for c in json.load(open(path)).get('cases', []):
            cases.append((c['tid'], tuple(c['word']), c['raise_after'], c['kind']))
    for ln in range(0, maxlen + 1):
        for word in itertools.product(ALPHABET, repeat=ln):
            points = [(None, None)] + [(k, kind) for k in range(ln + 1) for kind in 'EK']
            for (ra, kind) in points:
                tids = (0, 1, 2)
                for tid in tids:
                    cases.append((tid, word, ra, kind))
                n += 1
    return cases


def inuse(e):
    return [b - len(c._pool) for b, c in zip(e['baseline'], e['conns'])]


def run_case(ctx, e, case, idx, model_out):
    tid, word, ra, kind = case
    steps = concrete_steps(word)
    exc_id = 5 + idx % 90
    exc_obj = None
    if ra is not None:
        classes = E_CLASSES if kind == 'E' else K_CLASSES
        exc_obj = classes[idx % len(classes)]('case %d' % idx)
    desc = {'tid': tid, 'level': 'process' if tid == 0 else 'thread', 'steps': [step_token(s) for s in steps],
            'raise_after': ra, 'exception': type(exc_obj).__name__ if exc_obj is not None else None}
    key = 'C08:%s:%s:%s' % ('P0' if tid == 0 else 'T%d' % tid, ','.join(word) or '-', '-' if ra is None else '%d%s' % (ra, kind))
    reset_db(e)
    workers = e['workers']
    before = [w.call('resolve') for w in workers]
    res = workers[tid].call('run', steps, ra, exc_obj)
    rows1 = raw_rows(e)
    hub1 = [w.call('resolve') for w in workers]
    use1 = inuse(e)
    workers[tid].call('collect')
    if any(inuse(e)):
        workers[tid].call('gc')          # a cycle kept the transaction alive: let the collector run __del__
        ctx.count('needed gc.collect() to finish the transaction')
    rows2 = raw_rows(e)
    use2 = inuse(e)
    made2 = [c._connectionCount for c in e['conns']]
    lock_free = True
    try:
        e['raw'].execute('BEGIN IMMEDIATE')
        e['raw'].execute('ROLLBACK')
    except sqlite3.OperationalError:
        lock_free = False
    # ---- oracle
    want_rows, want_exc = reference(steps, ra, kind, exc_id)
    if res['outcome'] == 'returned':
        tag = 'returned %s' % res['value']
    else:
        if res['is_given']:
            tag_id = exc_id
        else:
            tag_id = {'DuplicateEntryError': DUP_ID, 'SQLObjectNotFound': NF_ID}.get(res['exc_name'], 0)
        tag = 'raised %s:%d' % (res['exc_kind'], tag_id)
    ctx.case(key, nontrivial=bool(word) or ra is not None,
             sample={'case': desc, 'impl': tag, 'rows': fmt_rows(rows2)},
             kind='%s len%d %s' % ('process' if tid == 0 else 'thread', len(word),
                                   'no-raise' if ra is None else 'raise-' + kind))
    if res.get('inside') != 'Transaction':
        ctx.oracle_fail(key + ':not-in-transaction', 'inside the body the hub resolves to %s, not to a transaction' % res.get('inside'), desc)
    if want_exc is None:
        if tag != 'returned 7':
            ctx.oracle_fail(key + ':outcome', 'the body returns 7 without raising but doInTransaction gave %s' % tag, desc)
        if rows1 != want_rows or rows2 != want_rows:
            ctx.oracle_fail(key + ':not-all', 'the body succeeded; committed rows are%s, expected%s' % (fmt_rows(rows2), fmt_rows(want_rows)), desc)
    else:
        if tag != 'raised ' + want_exc:
            ctx.oracle_fail(key + ':outcome', 'the body raises %s but doInTransaction gave %s' % (want_exc, tag), desc)
        if not res['same_object']:
            ctx.oracle_fail(key + ':identity', 'the exception leaving doInTransaction is not the object the body raised', desc)
        if rows1 != INITIAL or rows2 != INITIAL:
            ctx.oracle_fail(key + ':not-nothing', 'the body raised %s; committed rows are%s /%s, expected the initial%s'
                            % (want_exc, fmt_rows(rows1), fmt_rows(rows2), fmt_rows(INITIAL)), desc)
    if hub1 != before:
        ctx.oracle_fail(key + ':hub', 'hub resolution per thread was %s, afterwards %s' % (before, hub1), desc)
    if any(use2):
        ctx.oracle_fail(key + ':pool', 'low-level connections not back in the pool: %s' % use2, desc)
    if made2 != e['made']:
        ctx.oracle_fail(key + ':pool-growth', 'new low-level connections were opened: %s -> %s' % (e['made'], made2), desc)
        e['made'] = made2
    if not lock_free:
        ctx.oracle_fail(key + ':lock', 'the database write lock is still held after doInTransaction', desc)
    # ---- correspondence
    impl = '%s | db%s | hub%s | inuse %s zombies %d | collected inuse %s db%s' % (
        tag, fmt_rows(rows1), ''.join(' %d:%s' % (t, h) for t, h in enumerate(hub1)),
        ','.join(str(x) for x in use1), sum(use1), ','.join(str(x) for x in use2), fmt_rows(rows2))
    ctx.compare('doInTransaction outcome / committed rows / hub / pool: model = implementation', desc, model_out, impl)


def line_for(case, idx):
    tid, word, ra, kind = case
    steps = concrete_steps(word)
    return '%d %s %s' % (tid, ','.join(step_token(s) for s in steps) or '-',
                         '-' if ra is None else '%d:%s:%d' % (ra, kind, 5 + idx % 90))


def run(ctx):
    e = env()
    cases = gen_cases(ctx)
    outs = ctx.model([line_for(c, i) for i, c in enumerate(cases)])
    for i, c in enumerate(cases):
        run_case(ctx, e, c, i, outs[i] if outs is not None else None)


def replay(case):
    e = env()

    class Dummy:
        fails = []

        def case(self, *a, **k):
            pass

        def compare(self, *a, **k):
            return True

        def count(self, *a, **k):
            pass

        def oracle_fail(self, key, what, c):
            self.fails.append('%s: %s' % (key, what))
    d = Dummy()
    word = tuple(t.split('=')[0] for t in case['steps'])
    kind = None
    if case.get('exception'):
        kind = 'E' if case['exception'] in [c.__name__ for c in E_CLASSES] else 'K'
    run_case(d, e, (case['tid'], word, case['raise_after'], kind), 0, None)
    return not d.fails, '\n'.join(d.fails) or 'property holds on this case'
