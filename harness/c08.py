"""C08 — ConnectionHub.doInTransaction is all-or-nothing, re-raises the same exception, restores the hub, releases
the low-level connection.

correspondence: hub configuration of the calling thread {thread binding only, process binding only, both set to different
connections, both set to the SAME connection object} x connection.autoCommit {True, False, 'exception'} x every body of
<= 3 steps over {create new, create existing, update, delete} (4-step bodies with the configuration rotating) x an
exception of either kind (Exception subclass / BaseException only) after every prefix (or none), through the real
`doInTransaction` with real threads (sequentialised; two bystander threads), against the Lean model driver `drv_c08`.
oracle (independent of the model): a Python dict reference for the body; a third plain sqlite3 connection reads the
committed rows; a second plain connection inside the body sees none of the body's writes (the body really runs inside the
transaction); exception identity with `is`; threadConnection and processConnection attributes (separately) and every
thread's resolution before = after; pool length restored and no new low-level connection opened by repeated calls;
pooled connection left in the mode autoCommit asks for; the write lock is free afterwards.
"""
import atexit
import gc
import itertools
import os
import queue
import shutil
import sqlite3
import tempfile
import threading

from vlib import sqlo

PROP = 'C08'
META = {
    'extractors': ['pytx'],
    'technique': ('Lean 4 proof about an executable model of ConnectionHub.doInTransaction (hub bindings per thread and '
                  'process, body routed through the hub, commit/rollback/finally, Transaction.__del__) + exhaustive small-scope '
                  'differential correspondence with real threads + dict/raw-connection oracle'),
    'level_text': ('Theorem C08_doInTransaction_atomic_restores: for every world (rows, bindings of any number of threads, pool '
                   'counts), calling thread, body (any number of create/update/delete steps) and exception of either kind after any '
                   'prefix or raised by the library mid-body: all steps committed and the value returned, or nothing committed and '
                   'the same exception re-raised; the hub is exactly as before; the low-level connection is released (for a '
                   'non-Exception BaseException: when Transaction.__del__ runs).'),
    'level_note': ('Trusted: Lean kernel; the hand-written model Model/Hub.lean tied to the code by the exhaustive small-scope '
                   'correspondence AND by translation: vlib/extractors/pytx.py translates doInTransaction from the AST on every '
                   'run into a PyTx program (Model/PyTx.lean), C08_translated_doInTransaction_eq_model proves by symbolic '
                   'execution that running it from the image of any model world gives doInTx (all paths); the calls into other '
                   'objects (transaction(), the body, commit(close=True), rollback(), the hub attributes) are interpreter '
                   'parameters stated in Model/HubX.lean; SQLite transaction semantics; CPython reference counting for '
                   'Transaction.__del__.'),
    'rule': ('case = (hub configuration T/P/TP/S of the calling thread; autoCommit 1/0/X; body over {create id 3, create id 1 '
             '(exists), update id 1, delete id 1}; raise point: none, or after k = 0..len steps an Exception subclass or a '
             'BaseException-only exception); bodies of <= 3 steps: the full product is enumerated; 4 steps (thorough: the full '
             'product; 5 steps rotating): every body x raise point with (configuration, autoCommit) rotating; distinct = distinct '
             'cases; non-trivial = the body has at least one step or raises'),
    'trusted': ['SQLite transaction semantics (a rolled-back / never committed transaction leaves the committed rows unchanged)',
                'CPython reference counting: dropping the traceback of the escaped BaseException runs Transaction.__del__'],
    'modelled': ['the cache flag of the connection and the moment the class was declared are not in the model (it has no cache): the same '
                 'model answers must hold in all four variants',
                 'a BaseException that is not an Exception (KeyboardInterrupt, SystemExit, GeneratorExit) is not caught by '
                 'doInTransaction: the transaction is rolled back by Transaction.__del__ -> rollback() when the traceback\'s reference '
                 'dies (refcounting); modelled as an explicit `collect` step, observed by dropping the exception in the harness',
                 'nested doInTransaction (binding already a Transaction) is outside the model',
                 'the pool is observed through len(connection._pool) relative to a warmed-up baseline'],
    'assumptions': ['the calling thread\'s binding is a database connection (not a URI string, not already a transaction)',
                    'exhaustive = the full product for bodies of <= 3 steps; longer bodies are enumerated with the hub configuration rotating',
                    'C08_translated_doInTransaction_eq_model: the calls into other objects are interpreter parameters (Model/HubX.lean '
                    'header): transaction() = Transaction.__init__ (text checked by the translator), func(*args, **kw) = runBody through '
                    'the hub as it is at that moment, commit(close=True) / rollback() as summarised there (the translated '
                    'Transaction.commit/rollback/_makeObsolete are tied to Model/Tx.lean by C07_translated_* and '
                    'C08_translated_commit_close_releases / C08_translated_rollback_releases)'],
    'exhaustive': True,
}

INITIAL = {1: 10, 2: 20}
# c/u/d: `Cls(id=..)`, `Cls.get(k).v = x`, `Cls.get(k).destroySelf()` inside the body; U/D: assignment / destroySelf on an
# instance the program obtained BEFORE the call on the hub's connection (by get or from a select)
# s: `list(Cls.select())` inside the body (a read through the transaction)
ALPHABET = ['c3', 'c1', 'u1', 'd1', 'u2', 'U1', 'D2', 's']
K_STALE_RB = 'C08:stale-after-rollback:preloaded-instance-assigned-in-body'
K_EVICT = 'C08:stale-after-commit:held-instance-evicted-by-rollback-in-del'
DUP_ID, NF_ID = 1000001, 1000002
_env = {}


class BodyError(Exception):
    pass


class BodyAbort(BaseException):
    pass


E_CLASSES = [BodyError, ValueError, KeyError, RuntimeError]
K_CLASSES = [KeyboardInterrupt, SystemExit, GeneratorExit, BodyAbort]


class Worker(threading.Thread):
    """a real thread that executes commands one at a time (sequentialised by the main thread)"""

    def __init__(self, tid, e):
        threading.Thread.__init__(self, daemon=True)
        self.tid = tid
        self.e = e
        self.inq = queue.Queue()
        self.outq = queue.Queue()
        self.slot = {}

    def call(self, *cmd):
        self.inq.put(cmd)
        kind, val = self.outq.get()
        if kind == 'crash':
            raise RuntimeError('worker %d: %s' % (self.tid, val))
        return val

    def run(self):
        while True:
            cmd = self.inq.get()
            if cmd[0] == 'stop':
                self.outq.put(('ok', None))
                return
            try:
                self.outq.put(('ok', getattr(self, 'do_' + cmd[0])(*cmd[1:])))
            except BaseException as ex:      # a bug of the harness itself
                import traceback
                self.outq.put(('crash', traceback.format_exc()))

    # -- commands
    def do_bind(self, conn):
        hub = self.e['hub']
        if conn is None:
            try:
                del hub.threadConnection
            except AttributeError:
                pass
        else:
            hub.threadConnection = conn
        return True

    def do_setup(self):
        for cls in self.e['classes'].values():
            cls.createTable(connection=self.e['conns'][0])
        return True

    def do_open_raw(self):
        # this thread's own plain DB-API connection: the observer used from inside the body
        self.raw = sqlite3.connect(self.e['path'], isolation_level=None, timeout=0)
        return True

    def name_of(self, c):
        names = {id(x): 'b%d' % i for i, x in enumerate(self.e['conns'])}
        if c is None:
            return '-'
        if type(c).__name__ == 'Transaction':
            return 't' + names.get(id(getattr(c, '_dbConnection', None)), 'b?')[1:]
        return names.get(id(c), '??')

    def do_resolve(self):
        """(this thread's threadConnection attribute, what this thread resolves to with its level)"""
        hub = self.e['hub']
        try:
            tc = hub.threadConnection
            lvl = 'T'
        except AttributeError:
            tc = None
            lvl = 'P'
        try:
            c = hub.getConnection()
        except AttributeError:
            return self.name_of(tc), '-'
        return self.name_of(tc), '%s:%s' % (lvl, self.name_of(c))

    def do_ident(self):
        return threading.get_ident()

    def do_preload(self, mode):
        """instances of rows 1 and 2 on the hub's (plain) connection, obtained by get or out of a select"""
        hub, cls = self.e['hub'], self.e['cls']
        hub.getConnection().expireAll()          # the rows were reset behind the ORM's back
        if mode == 'select':
            self.pre = dict((o.id, o) for o in cls.select(orderBy='id'))
        else:
            self.pre = {1: cls.get(1), 2: cls.get(2)}
        return sorted(self.pre)

    def do_orm_view(self, skip, keep=False):
        """what the ORM shows on the restored connection: the instances held from before the call, and a fresh get"""
        from sqlobject import SQLObjectNotFound
        cls = self.e['cls']
        held, fresh = {}, {}
        for k, o in sorted(self.pre.items()):
            if k in skip:
                continue
            try:
                held[k] = o.v
            except SQLObjectNotFound:
                held[k] = None
            except Exception as ex:
                held[k] = 'error:%s' % type(ex).__name__
        for k in (1, 2, 3):
            try:
                fresh[k] = cls.get(k).v
            except SQLObjectNotFound:
                fresh[k] = None
            except Exception as ex:
                fresh[k] = 'error:%s' % type(ex).__name__
        if not keep:
            self.pre = {}
        return held, fresh

    def do_run(self, steps, raise_at, exc_obj):
        hub, cls = self.e['hub'], self.e['cls']
        rec = {}
        pre = getattr(self, 'pre', {})

        def probe():
            return dict(self.raw.execute('SELECT id, v FROM %s' % self.e['table']).fetchall())

        def body():
            try:
                rec['inside'] = type(hub.getConnection()).__name__
                for i, (op, k, v) in enumerate(steps):
                    if raise_at == i:
                        raise exc_obj
                    if op == 'c':
                        cls(id=k, v=v)
                    elif op == 'u':
                        cls.get(k).v = v
                    elif op == 'd':
                        cls.get(k).destroySelf()
                    elif op == 'U':
                        pre[k].v = v
                    elif op == 's':
                        rec['selected'] = sorted(o.id for o in cls.select())
                    else:
                        pre[k].destroySelf()
                if raise_at == len(steps):
                    raise exc_obj
                rec['raw_inside'] = probe()
            except BaseException as ex:
                rec['left_body'] = ex
                rec['raw_inside'] = probe()      # still inside doInTransaction: nothing may be visible yet
                raise
            return 7
        try:
            value = hub.doInTransaction(body)
            out = ('returned', value, True)
        except BaseException as ex:
            self.slot['exc'] = ex          # keeps the traceback (and with it the transaction) alive until `collect`
            out = ('raised', ex, ex is rec.get('left_body'))
        res = {'outcome': out[0], 'same_object': out[2], 'inside': rec.get('inside'), 'raw_inside': rec.get('raw_inside')}
        if out[0] == 'returned':
            res['value'] = out[1]
        else:
            ex = out[1]
            res['is_given'] = ex is exc_obj
            res['exc_kind'] = 'E' if isinstance(ex, Exception) else 'K'
            res['exc_name'] = type(ex).__name__
        del out
        return res

    def do_run_gated(self, key, value, exc_obj):
        """a call whose body stops in the middle and serves `resolve` requests until it is told to `go`: lets the main
        thread overlap the calls of two threads in a chosen enter / leave order"""
        hub, cls = self.e['hub'], self.e['cls']
        rec = {}

        def body():
            try:
                rec['inside'] = self.name_of(hub.getConnection())
                rec['read'] = cls.get(key).v
                self.outq.put(('ok', 'entered'))
                while True:
                    cmd = self.inq.get()
                    if cmd[0] == 'go':
                        break
                    self.outq.put(('ok', getattr(self, 'do_' + cmd[0])(*cmd[1:])))
                cls.get(key).v = value
                rec['inside_after'] = self.name_of(hub.getConnection())
                if exc_obj is not None:
                    raise exc_obj
            except BaseException as ex:
                rec['left_body'] = ex
                raise
            return 7
        try:
            out = ('returned', hub.doInTransaction(body), True)
        except BaseException as ex:
            self.slot['exc'] = ex
            out = ('raised', type(ex).__name__, ex is rec.get('left_body') and ex is exc_obj)
        return {'outcome': out[0], 'detail': out[1], 'same_object': out[2], 'inside': rec.get('inside'),
                'inside_after': rec.get('inside_after'), 'read': rec.get('read')}

    def do_collect(self):
        # drop the escaped exception and its traceback: reference counting alone must finish the transaction
        ex = self.slot.pop('exc', None)
        if ex is not None:
            ex.__traceback__ = None
        del ex
        return True

    def do_gc(self):
        gc.collect()
        return True


CONFIGS = ['T', 'P', 'TP', 'S']
AUTOCOMMITS = [('1', True), ('0', False), ('X', 'exception')]


def configure(e, cfg, ac):
    """hub configuration of the calling thread (worker 1) and connection.autoCommit of every connection"""
    hub, conns = e['hub'], e['conns']
    for c in conns:
        c.autoCommit = ac
    if cfg == 'T':
        try:
            del hub.processConnection
        except AttributeError:
            pass
    else:
        hub.processConnection = conns[0]
    e['workers'][1].call('bind', {'T': conns[1], 'TP': conns[1], 'S': conns[0], 'P': None}[cfg])


def used_conn(cfg):
    return 1 if cfg in ('T', 'TP') else 0


def env():
    if _env:
        return _env
    sqlo.setup()
    from sqlobject import SQLObject, IntCol
    from sqlobject.dbconnection import ConnectionHub
    d = tempfile.mkdtemp(prefix='verif_c08_', dir='/dev/shm' if os.access('/dev/shm', os.W_OK) else None)
    atexit.register(shutil.rmtree, d, True)
    path = os.path.join(d, 'c08.db')
    hub = ConnectionHub()
    # declared while the hub is still unbound ...
    cls_early = type('C08Row', (SQLObject,), {'_connection': hub, 'v': IntCol()})
    base = type('C08Base', (SQLObject,), {'_connection': hub})
    conns_by = {'1': [sqlo.file_conn(path, timeout=0) for _ in range(3)],
                '0': [sqlo.file_conn(path, timeout=0, cache=False) for _ in range(3)]}
    hub.processConnection = conns_by['1'][0]
    # ... and declared after the application has connected ("connect first, import the models later")
    # it declares no connection of its own: it gets the hub from its base class
    cls_late = type('C08Late', (base,), {'v': IntCol()})
    _env.update(dir=d, path=path, hub=hub, classes={'e': cls_early, 'l': cls_late}, conns_by=conns_by,
                cls=cls_early, conns=conns_by['1'], table=cls_early.sqlmeta.table, variant=('1', 'e'))
    workers = [Worker(t, _env) for t in range(3)]
    for w in workers:
        w.start()
    workers[0].call('setup')
    workers[2].call('bind', conns_by['1'][2])
    for w in workers:
        w.call('open_raw')
    raw = sqlite3.connect(path, isolation_level=None, timeout=0)
    _env.update(workers=workers, raw=raw, ident=workers[1].call('ident'), baseline_by={}, made_by={})
    # warm-up: the calling thread uses connection 1 (T, TP) and connection 0 (P, S): one empty transaction on each, so that
    # every pool holds the thread's low-level connection before the baseline is taken
    for cache in ('1', '0'):
        _env['conns'] = conns_by[cache]
        workers[2].call('bind', conns_by[cache][2])
        for cfg in CONFIGS:
            configure(_env, cfg, True)
            workers[1].pre = {}
            workers[1].call('run', [], None, None)
            workers[1].call('collect')
        workers[2].pre = {}
        workers[2].call('run', [], None, None)      # the second thread of the overlapping calls warms up its own connection
        workers[2].call('collect')
    gc.collect()
    gc.freeze()
    for cache in ('1', '0'):
        _env['baseline_by'][cache] = [len(c._pool) for c in conns_by[cache]]
        _env['made_by'][cache] = [c._connectionCount for c in conns_by[cache]]
    _env['variant'] = None
    select_variant(_env, '1', 'e')
    return _env


def select_variant(e, cache, which):
    """connections with cache=True / cache=False, and the class declared before / after the hub was bound"""
    if e.get('variant') == (cache, which):
        return
    if e.get('variant') is not None:
        e['made_by'][e['variant'][0]] = e['made']
    e['variant'] = (cache, which)
    e['conns'] = e['conns_by'][cache]
    e['cls'] = e['classes'][which]
    e['table'] = e['cls'].sqlmeta.table
    e['baseline'] = e['baseline_by'][cache]
    e['made'] = e['made_by'][cache]
    e['workers'][2].call('bind', e['conns'][2])
    e['configured'] = None


def reset_db(e):
    raw = e['raw']
    raw.execute('DELETE FROM %s' % e['table'])
    for k, v in sorted(INITIAL.items()):
        raw.execute('INSERT INTO %s (id, v) VALUES (%d, %d)' % (e['table'], k, v))


def raw_rows(e):
    return dict(e['raw'].execute('SELECT id, v FROM %s' % e['table']).fetchall())


def fmt_rows(rows):
    return ''.join(' %d=%d' % (k, rows[k]) for k in sorted(rows))


def concrete_steps(word):
    out = []
    for pos, sym in enumerate(word):
        if sym == 's':
            out.append(('s', 0, 0))
            continue
        op, k = sym[0], int(sym[1:])
        out.append((op, k, {'c': 30, 'u': 100, 'd': 0, 'U': 200, 'D': 0}[op] + pos))
    return out


def step_token(st):
    op, k, v = st
    if op == 's':
        return 's'
    return '%s%d' % (op, k) if op in 'dD' else '%s%d=%d' % (op, k, v)


def reference(steps, raise_at, kind, exc_id):
    """Python dict reference of the body alone: (final rows or None, exception tag or None, steps executed)"""
    rows = dict(INITIAL)
    for i, (op, k, v) in enumerate(steps):
        if raise_at == i:
            return None, '%s:%d' % (kind, exc_id), i
        if op == 'c':
            if k in rows:
                return None, 'E:%d' % DUP_ID, i
            rows[k] = v
        elif op == 'u':
            if k not in rows:
                return None, 'E:%d' % NF_ID, i
            rows[k] = v
        elif op == 'd':
            if k not in rows:
                return None, 'E:%d' % NF_ID, i
            del rows[k]
        elif op == 'U':
            if k in rows:
                rows[k] = v
        elif op == 's':
            pass
        else:
            rows.pop(k, None)
    if raise_at == len(steps):
        return None, '%s:%d' % (kind, exc_id), len(steps)
    return rows, None, len(steps)


def gen_cases(ctx):
    """(cfg, autoCommit, how the pre-loaded instances were obtained, body, raise point, kind)"""
    thorough = ctx.tier == 'thorough'
    combos = [(cfg, ac) for cfg in CONFIGS for ac, _ in AUTOCOMMITS]
    modes = ['get', 'select']
    variants = [(cache, which) for cache in '10' for which in 'el']
    cases = []
    n = 0
    import glob
    import json
    for path in sorted(glob.glob(os.path.join(os.path.dirname(os.path.dirname(os.path.abspath(__file__))), 'corpus', 'C08', '*.json'))):
        for c in json.load(open(path)).get('cases', []):
            word = tuple(c['word']) if 'word' in c else tuple('c%d' % i for i in range(10, 10 + c['creates']))
            cases.append((c['cfg'], c['ac'], c.get('mode', 'get'), word, c['raise_after'], c['kind'],
                          (c.get('cache', '1'), c.get('declared', 'e'))))
    for ln in range(0, (5 if thorough else 4) + 1):
        for word in itertools.product(ALPHABET, repeat=ln):
            points = [(None, None)] + [(k, kind) for k in range(ln + 1) for kind in 'EK']
            for (ra, kind) in points:
                n += 1
                if ln <= 1 or (thorough and ln <= 2):
                    sel = [(c, m) for c in combos for m in modes]                         # full product
                elif ln == 2 or (thorough and ln == 3):
                    sel = [((cfg, AUTOCOMMITS[(n + i) % 3][0]), modes[(n + i) % 2]) for i, cfg in enumerate(CONFIGS)]
                elif ln == 3 or (thorough and ln == 4):
                    sel = [(combos[n % 12], modes[n % 2])]
                else:
                    # the longest bodies: a fixed eighth of them (all raise points), configuration rotating
                    if hash_word(word) % 8 != 0:
                        continue
                    sel = [(combos[n % 12], modes[(n // 12) % 2])]
                for i, ((cfg, ac), mode) in enumerate(sel):
                    for var in (variants if ln == 0 else [variants[(n + i) % 4]]):
                        cases.append((cfg, ac, mode, word, ra, kind, var))
    # grouped by variant and configuration so that the hub is re-bound rarely
    order = {c: i for i, c in enumerate(combos)}
    cases.sort(key=lambda c: (c[6], order[(c[0], c[1])]))
    return cases


def hash_word(word):
    h = 0
    for sym in word:
        h = h * 11 + ALPHABET.index(sym)
    return h


def inuse(e):
    return [b - len(c._pool) for b, c in zip(e['baseline'], e['conns'])]


def observe_hub(e):
    """threadConnection attribute of the caller, processConnection attribute, and what each thread resolves to"""
    res = [w.call('resolve') for w in e['workers']]
    proc = getattr(e['hub'], 'processConnection', None)
    return 't1=%s p=%s%s' % (res[1][0], e['workers'][0].name_of(proc), ''.join(' %d:%s' % (t, r[1]) for t, r in enumerate(res)))


def pool_mode(e, cfg):
    """autocommit mode of the calling thread's pooled low-level connection (None when it cannot be told)"""
    conn = e['conns'][used_conn(cfg)]
    ll = getattr(conn, '_threadPool', {}).get(e['ident'])
    if ll is None:
        return None
    return ll.isolation_level is None


_known_seen = {}


def known_once(ctx, what, desc, key=None):
    """a recorded finding is reported once per run (the framework keeps a bounded list of failures)"""
    key = key or K_STALE_RB
    _known_seen[key] = _known_seen.get(key, 0) + 1
    if _known_seen[key] == 1:
        ctx.oracle_fail(key, what, desc)


def run_case(ctx, e, case, idx, model_out):
    cfg, ac, mode, word, ra, kind, var = case
    select_variant(e, *var)
    steps = concrete_steps(word)
    exc_id = 5 + idx % 90
    exc_obj = None
    if ra is not None:
        classes = E_CLASSES if kind == 'E' else K_CLASSES
        exc_obj = classes[idx % len(classes)]('case %d' % idx)
    desc = {'cfg': cfg, 'ac': ac, 'cache': var[0], 'declared': var[1], 'preloaded_by': mode,
            'steps': [step_token(s) for s in steps] if len(steps) <= 12 else None, 'creates': len(steps) if len(steps) > 12 else None,
            'raise_after': ra, 'exception': type(exc_obj).__name__ if exc_obj is not None else None}
    key = 'C08:%s:ac%s:cache%s:%s:%s:%s:%s' % (cfg, ac, var[0], {'e': 'early', 'l': 'late'}[var[1]], mode,
                                                (','.join(word) or '-') if len(word) <= 12 else '%dcreates' % len(word),
                                                '-' if ra is None else '%d%s' % (ra, kind))
    if e.get('configured') != (cfg, ac):
        configure(e, cfg, dict(AUTOCOMMITS)[ac])
        e['configured'] = (cfg, ac)
    reset_db(e)
    caller = e['workers'][1]
    # the program's own instances of rows 1 and 2, obtained on the hub's connection before the call (plain ORM use needs
    # autoCommit on; the call itself runs under the case's setting)
    for c in e['conns']:
        c.autoCommit = True
    caller.call('preload', mode)
    for c in e['conns']:
        c.autoCommit = dict(AUTOCOMMITS)[ac]
    before = observe_hub(e)
    res = caller.call('run', steps, ra, exc_obj)
    rows1 = raw_rows(e)
    hub1 = observe_hub(e)
    use1 = inuse(e)
    caller.call('collect')
    if any(inuse(e)):
        caller.call('gc')          # a cycle kept the transaction alive: let the collector run __del__
        ctx.count('needed gc.collect() to finish the transaction')
    rows2 = raw_rows(e)
    use2 = inuse(e)
    made2 = [c._connectionCount for c in e['conns']]
    pmode = pool_mode(e, cfg)
    lock_free = True
    try:
        e['raw'].execute('BEGIN IMMEDIATE')
        e['raw'].execute('ROLLBACK')
    except sqlite3.OperationalError:
        lock_free = False
    for c in e['conns']:
        c.autoCommit = True
    held, fresh = caller.call('orm_view', [2] if 'D2' in word else [])
    for c in e['conns']:
        c.autoCommit = dict(AUTOCOMMITS)[ac]
    # ---- oracle
    want_rows, want_exc, executed = reference(steps, ra, kind, exc_id)
    if res['outcome'] == 'returned':
        tag = 'returned %s' % res['value']
    else:
        if res['is_given']:
            tag_id = exc_id
        else:
            tag_id = {'DuplicateEntryError': DUP_ID, 'SQLObjectNotFound': NF_ID}.get(res['exc_name'], 0)
        tag = 'raised %s:%d' % (res['exc_kind'], tag_id)
    ctx.case(key, nontrivial=bool(word) or ra is not None,
             sample={'case': desc, 'impl': tag, 'rows': fmt_rows(rows2)},
             kind='%s ac%s len%d %s' % (cfg, ac, len(word), 'no-raise' if ra is None else 'raise-' + kind))
    if res.get('inside') != 'Transaction':
        ctx.oracle_fail(key + ':not-in-transaction', 'inside the body the hub resolves to %s, not to a transaction' % res.get('inside'), desc)
    if res.get('raw_inside') != INITIAL:
        ctx.oracle_fail(key + ':visible-before-commit', 'a plain connection inside the body already sees%s: the body did not run inside '
                        'the transaction' % fmt_rows(res.get('raw_inside') or {}), desc)
    if want_exc is None:
        if tag != 'returned 7':
            ctx.oracle_fail(key + ':outcome', 'the body returns 7 without raising but doInTransaction gave %s' % tag, desc)
        if rows1 != want_rows or rows2 != want_rows:
            ctx.oracle_fail(key + ':not-all', 'the body succeeded; committed rows are%s, expected%s' % (fmt_rows(rows2), fmt_rows(want_rows)), desc)
    else:
        if tag != 'raised ' + want_exc:
            ctx.oracle_fail(key + ':outcome', 'the body raises %s but doInTransaction gave %s' % (want_exc, tag), desc)
        if not res['same_object']:
            ctx.oracle_fail(key + ':identity', 'the exception leaving doInTransaction is not the object the body raised', desc)
        if rows1 != INITIAL or rows2 != INITIAL:
            ctx.oracle_fail(key + ':not-nothing', 'the body raised %s; committed rows are%s /%s, expected the initial%s'
                            % (want_exc, fmt_rows(rows1), fmt_rows(rows2), fmt_rows(INITIAL)), desc)
    # through the ORM on the restored connection: the instances the program held from before the call, and a fresh get
    def assigned(k):
        vals = [vv for (op, kk, vv) in steps[:executed] if op == 'U' and kk == k]
        return vals[-1] if vals else None
    for k, v in sorted(held.items()):
        if v != rows2.get(k):
            if want_exc is not None and assigned(k) is not None and v == assigned(k):
                known_once(ctx, 'after the rolled-back doInTransaction the instance of row %d that the body assigned to still '
                           'shows %s; the row holds %s' % (k, v, rows2.get(k)), desc)
            else:
                ctx.oracle_fail(key + ':orm-stale-held', 'after doInTransaction the instance of row %d held from before the call (obtained '
                                'by %s) shows %s on the restored connection; the row holds %s' % (k, mode, v, rows2.get(k)), desc)
    for k, v in sorted(fresh.items()):
        if v != rows2.get(k):
            if want_exc is not None and assigned(k) is not None and v == assigned(k):
                known_once(ctx, 'after the rolled-back doInTransaction get(%d) on the restored connection shows %s; the row '
                           'holds %s' % (k, v, rows2.get(k)), desc)
            else:
                ctx.oracle_fail(key + ':orm-stale-fresh', 'after doInTransaction get(%d) on the restored connection shows %s; the row holds %s'
                                % (k, v, rows2.get(k)), desc)
    if hub1 != before:
        ctx.oracle_fail(key + ':hub', 'hub attributes / resolution per thread were [%s], afterwards [%s]' % (before, hub1), desc)
    if any(use2):
        ctx.oracle_fail(key + ':pool', 'low-level connections not back in the pool: %s' % use2, desc)
    if made2 != e['made']:
        ctx.oracle_fail(key + ':pool-growth', 'new low-level connections were opened by a repeated call: %s -> %s' % (e['made'], made2), desc)
        e['made'] = made2
    if pmode is not None and pmode != bool(dict(AUTOCOMMITS)[ac]):
        ctx.oracle_fail(key + ':pool-mode', 'the pooled low-level connection is left with autocommit=%s although connection.autoCommit=%r'
                        % (pmode, dict(AUTOCOMMITS)[ac]), desc)
    if not lock_free:
        ctx.oracle_fail(key + ':lock', 'the database write lock is still held after doInTransaction', desc)
    # ---- correspondence
    impl = '%s | db%s | hub %s | inuse %s zombies %d | collected inuse %s auto %s db%s' % (
        tag, fmt_rows(rows1), hub1, ','.join(str(x) for x in use1), sum(use1), ','.join(str(x) for x in use2),
        'true' if (pmode if pmode is not None else bool(dict(AUTOCOMMITS)[ac])) else 'false', fmt_rows(rows2))
    ctx.compare('doInTransaction outcome / committed rows / hub attributes / pool: model = implementation', desc, model_out, impl)


def repeated_calls(ctx, e, only=None):
    """three calls in a row per (configuration, autoCommit): the pool neither shrinks nor grows, no new low-level connection"""
    for cfg in CONFIGS:
        for ac, acv in AUTOCOMMITS:
            if only is not None and only != (cfg, ac):
                continue
            configure(e, cfg, acv)
            e['configured'] = (cfg, ac)
            conn = e['conns'][used_conn(cfg)]
            snap = (len(conn._pool), conn._connectionCount)
            for i in range(3):
                reset_db(e)
                e['workers'][1].pre = {}
                e['workers'][1].call('run', concrete_steps(('u1',)), None, None)
                e['workers'][1].call('collect')
            now = (len(conn._pool), conn._connectionCount)
            ctx.case(('repeat', cfg, ac), kind='three calls in a row')
            if now != snap:
                ctx.oracle_fail('C08:%s:ac%s:repeat3:pool' % (cfg, ac), 'three doInTransaction calls in a row changed (pool length, '
                                'low-level connections ever opened) from %s to %s' % (snap, now), {'cfg': cfg, 'ac': ac, 'steps': ['u1=100'],
                                                                                                   'raise_after': None, 'exception': None, 'repeat': 3})
                e['made'] = [c._connectionCount for c in e['conns']]


def overlapping_calls(ctx, e):
    """two threads, each with its own thread connection, inside doInTransaction at the same time; every enter order x
    leave order x outcome of each body x autoCommit"""
    workers = e['workers']
    orders = [(a, b, first) for (a, b) in ((1, 2), (2, 1)) for first in (a, b)]
    outcomes = [None, 'E', 'K']
    n = 0
    for ac, acv in AUTOCOMMITS:
        configure(e, 'TP', acv)
        e['configured'] = ('TP', ac)
        for (a, b, first) in orders:
            second = b if first == a else a
            for oa in outcomes:
                for ob in outcomes:
                    n += 1
                    raises = {a: oa, b: ob}
                    excs = {t: (None if raises[t] is None else (E_CLASSES if raises[t] == 'E' else K_CLASSES)[n % 4]('overlap %d' % n))
                            for t in (a, b)}
                    evs = ['e%d' % a, 'e%d' % b, 'l%d' % first, 'l%d' % second]
                    desc = {'overlap': evs, 'ac': ac, 'cache': e['variant'][0], 'declared': e['variant'][1],
                            'raises': {str(t): raises[t] for t in (a, b)}}
                    key = 'C08:overlap:%s:ac%s:cache%s:%s' % ('-'.join(evs), ac, e['variant'][0],
                                                              ''.join(str(raises[t] or '-') for t in (1, 2)))
                    reset_db(e)
                    for w in workers:
                        w.pre = {}
                    seen = []

                    def snap():
                        seen.append('%s %s' % tuple('%d:%s' % (t, workers[t].call('resolve')[1]) for t in (1, 2)))
                    res = {}
                    for t in (a, b):
                        workers[t].inq.put(('run_gated', t, 100 + t, excs[t]))
                        got = workers[t].outq.get()
                        if got != ('ok', 'entered'):
                            res[t] = got[1]          # the call ended before the gate (only if the code is broken)
                        snap()
                    for t in (first, second):
                        if t not in res:
                            workers[t].inq.put(('go',))
                            kind, val = workers[t].outq.get()
                            res[t] = val
                        snap()
                        workers[t].call('collect')
                    rows = raw_rows(e)
                    proc = workers[0].name_of(getattr(e['hub'], 'processConnection', None))
                    use = inuse(e)
                    made = [c._connectionCount for c in e['conns']]
                    ctx.case(key, sample={'case': desc, 'resolution after each event': seen}, kind='overlapping calls')
                    # ---- oracle: expected resolution after every event, from the event list alone
                    inside = set()
                    want_seen = []
                    for ev in evs:
                        t = int(ev[1])
                        if ev[0] == 'e':
                            inside.add(t)
                        else:
                            inside.discard(t)
                        want_seen.append(' '.join('%d:T:%s%d' % (x, 't' if x in inside else 'b', x) for x in (1, 2)))
                    if seen != want_seen:
                        ctx.oracle_fail(key + ':hub', 'overlapping calls %s: the threads resolved to [%s] after the events, expected [%s]'
                                        % (evs, ' | '.join(seen), ' | '.join(want_seen)), desc)
                    if proc != 'b0':
                        ctx.oracle_fail(key + ':hub-process', 'overlapping thread-level calls changed the process binding to %s' % proc, desc)
                    want_rows = dict(INITIAL)
                    for t in (1, 2):
                        r = res.get(t)
                        if not isinstance(r, dict):
                            ctx.oracle_fail(key + ':outcome', 'the call of thread %d ended early: %r' % (t, r), desc)
                            continue
                        if r['inside'] != 't%d' % t or (r['inside_after'] or 't%d' % t) != 't%d' % t:
                            ctx.oracle_fail(key + ':not-in-transaction', 'inside its body thread %d resolved to %s / %s, not to its own '
                                            'transaction' % (t, r['inside'], r['inside_after']), desc)
                        if raises[t] is None:
                            want_rows[t] = 100 + t
                            if r['outcome'] != 'returned' or r['detail'] != 7:
                                ctx.oracle_fail(key + ':outcome', 'thread %d: body returned 7, doInTransaction gave %s %s'
                                                % (t, r['outcome'], r['detail']), desc)
                        elif r['outcome'] != 'raised' or not r['same_object']:
                            ctx.oracle_fail(key + ':identity', 'thread %d: the body raised %s, doInTransaction gave %s %s (same object: %s)'
                                            % (t, type(excs[t]).__name__, r['outcome'], r['detail'], r['same_object']), desc)
                    if rows != want_rows:
                        ctx.oracle_fail(key + ':rows', 'committed rows are%s, expected%s' % (fmt_rows(rows), fmt_rows(want_rows)), desc)
                    if any(use) or made != e['made']:
                        ctx.oracle_fail(key + ':pool', 'pool not restored after overlapping calls: in use %s, opened %s -> %s'
                                        % (use, e['made'], made), desc)
                        e['made'] = made
                    # ---- correspondence
                    outs = ctx.model(['O ' + ' '.join(evs)])
                    ctx.compare('overlapping calls, resolution of both threads after every enter / leave: model = implementation',
                                desc, outs[0] if outs is not None else None, ' | '.join(seen))


def chained_runs(ctx, e, only_plans=None, prefix='C08:chain'):
    """several doInTransaction calls in a row while the program keeps its instances of rows 1 and 2 across ALL of them:
    after every call the kept instances (and a fresh get) show the committed rows on the restored connection"""
    caller = e['workers'][1]
    plans = [[('u1', None), ('u1', None), ('u1', None)],
             [('u1', None), ('u2', None), ('u1', None), ('u2', None)],
             [('u1', None), ('u1', 'E'), ('u1', None)],
             [('u2', None), ('u1', 'K'), ('u1', None), ('d1', None), ('c1', None), ('u1', None)]]
    n = 0
    for cfg in CONFIGS:
        for mode in ('get', 'select'):
            for pi, plan in enumerate(plans):
                if only_plans is not None and pi not in only_plans:
                    continue
                n += 1
                ac, acv = AUTOCOMMITS[n % 3]
                configure(e, cfg, acv)
                e['configured'] = None
                reset_db(e)
                for c in e['conns']:
                    c.autoCommit = True
                caller.call('preload', mode)
                rows = dict(INITIAL)
                evicted = set()      # rows a BaseException-aborted call fetched inside its body: Transaction.__del__ rolls back AFTER
                                     # the hub was restored, and the expire() of its instances then hits the parent cache (recorded finding)
                desc = {'chain': [list(x) for x in plan], 'cfg': cfg, 'ac': ac, 'cache': e['variant'][0], 'declared': e['variant'][1],
                        'preloaded_by': mode}
                for i, (sym, raises) in enumerate(plan):
                    for c in e['conns']:
                        c.autoCommit = acv
                    steps = concrete_steps((sym,))
                    steps = [(op, k, v + 10 * (i + 1)) for (op, k, v) in steps]
                    exc_obj = None if raises is None else (BodyError if raises == 'E' else BodyAbort)('chain %d' % n)
                    res = caller.call('run', steps, len(steps) if raises else None, exc_obj)
                    caller.call('collect')
                    want, want_exc, _ = reference_from(rows, steps, len(steps) if raises else None)
                    if want_exc is None:
                        rows = want
                    if raises == 'K':
                        evicted.update(k for (op, k, _) in steps if op in 'ud')
                    raw = raw_rows(e)
                    for c in e['conns']:
                        c.autoCommit = True
                    held, fresh = caller.call('orm_view', [], True)
                    key = '%s:%s:ac%s:cache%s:%s:plan%d:run%d' % (prefix, cfg, ac, e['variant'][0], mode, pi, i + 1)
                    ctx.case(key, sample={'case': desc, 'run': i + 1, 'held': held, 'rows': fmt_rows(raw)}, kind='chained calls')
                    if raw != rows:
                        ctx.oracle_fail(key + ':rows', 'after call %d of the chain the committed rows are%s, expected%s'
                                        % (i + 1, fmt_rows(raw), fmt_rows(rows)), desc)
                    for k, v in sorted(held.items()):
                        if v != raw.get(k) and k in evicted and want_exc is None:
                            known_once(ctx, 'after a doInTransaction aborted by a BaseException (rolled back by Transaction.__del__ after the hub '
                                       'was restored) the kept instance of row %d is no longer in the parent cache: call %d of the chain '
                                       'committed %s, the instance shows %s' % (k, i + 1, raw.get(k), v), desc, K_EVICT)
                        elif v != raw.get(k):
                            ctx.oracle_fail(key + ':orm-stale-held', 'after call %d of the chain the instance of row %d kept from before '
                                            'the first call shows %s on the restored connection; the row holds %s'
                                            % (i + 1, k, v, raw.get(k)), desc)
                    for k, v in sorted(fresh.items()):
                        if v != raw.get(k):
                            ctx.oracle_fail(key + ':orm-stale-fresh', 'after call %d of the chain get(%d) shows %s; the row holds %s'
                                            % (i + 1, k, v, raw.get(k)), desc)
                caller.pre = {}


def reference_from(rows, steps, raise_at):
    """the dict reference of `reference`, started from given rows"""
    saved = dict(INITIAL)
    try:
        INITIAL.clear()
        INITIAL.update(rows)
        return reference(steps, raise_at, 'E', 0)
    finally:
        INITIAL.clear()
        INITIAL.update(saved)


def line_for(case, idx):
    cfg, ac, mode, word, ra, kind, var = case
    steps = concrete_steps(word)
    return '%s %s %s %s' % (cfg, ac, ','.join(step_token(s) for s in steps) or '-',
                            '-' if ra is None else '%d:%s:%d' % (ra, kind, 5 + idx % 90))


def run(ctx):
    e = env()
    _known_seen.clear()
    cases = gen_cases(ctx)
    outs = ctx.model([line_for(c, i) for i, c in enumerate(cases)])
    for i, c in enumerate(cases):
        run_case(ctx, e, c, i, outs[i] if outs is not None else None)
    for var in (('1', 'e'), ('0', 'l')):
        select_variant(e, *var)
        repeated_calls(ctx, e)
        overlapping_calls(ctx, e)
        chained_runs(ctx, e)


def replay(case):
    e = env()

    class Dummy:
        fails = []

        def case(self, *a, **k):
            pass

        def compare(self, *a, **k):
            return True

        def count(self, *a, **k):
            pass

        def model(self, lines):
            return None

        def oracle_fail(self, key, what, c):
            self.fails.append('%s: %s' % (key, what))
    d = Dummy()
    select_variant(e, case.get('cache', '1'), case.get('declared', 'e'))
    if case.get('chain'):
        chained_runs(d, e)
        mine = [f for f in d.fails if ':%s:' % case['cfg'] in f and ':%s:' % case['preloaded_by'] in f]
        return not mine, '\n'.join(mine) or 'property holds on this case'
    if case.get('overlap'):
        overlapping_calls(d, e)
        want = '-'.join(case['overlap'])
        mine = [f for f in d.fails if ':%s:ac%s:' % (want, case['ac']) in f]
        return not mine, '\n'.join(mine) or 'property holds on this case'
    if case.get('repeat'):
        repeated_calls(d, e, only=(case['cfg'], case['ac']))
        return not d.fails, '\n'.join(d.fails) or 'property holds on this case'
    if case.get('creates'):
        word = tuple('c%d' % i for i in range(10, 10 + case['creates']))
    else:
        word = tuple(t.split('=')[0] for t in case['steps'])
    kind = None
    if case.get('exception'):
        kind = 'E' if case['exception'] in [c.__name__ for c in E_CLASSES] else 'K'
    run_case(d, e, (case['cfg'], case['ac'], case.get('preloaded_by', 'get'), word, case['raise_after'], kind,
                    (case.get('cache', '1'), case.get('declared', 'e'))), 0, None)
    return not d.fails, '\n'.join(d.fails) or 'property holds on this case'
