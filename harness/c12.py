"""C12 — destroySelf honours the declared cascade policy over the whole reference graph.

correspondence: generated schemas (2-4 classes created dynamically, private registry each, 0-3 foreign keys per
class with every cascade setting, self references, related joins declared from one or both sides) x populations
of <= 6 rows x every victim, run through the real `destroySelf` on in-memory SQLite (cached and cache=False
connections) and through the Lean model driver (`drv_c12`); two further scenarios go through the same pipeline:
'fault' (a post_func / RowDestroyedSignal listener of a row of the closure raises: oracle only — whatever was deleted must not be
reachable by id), 'conn2' (the classes' default connection is one database, the objects live on an explicit second connection with another
population: every access with connection=; the default database must be neither consulted nor changed),
'tx' (file-backed SQLite in a mkdtemp directory: rows loaded and held through the parent connection, the victim destroyed
through `conn.transaction()` + commit, everything observed on the parent: get(id) of every closure member must raise
SQLObjectNotFound and the held parent instances must not answer) and 'evolve' (the classes are used, one destroySelf per
class, then a ForeignKey / RelatedJoin is added at run time with sqlmeta.addColumn(changeSchema=True) / addJoin, the tables
are repopulated and the victim destroyed); compared: outcome (ok / Integrity / RecursionError),
full dump of every table and link table, and which of the original ids `get` still returns.
oracle: an independent Python computation of the property's wording on the dumped tables (cascade closure,
set-null, link rows, restriction), compared with what the real code left behind.
"""
import glob
import json
import os
import sys

from vlib import sqlo

PROP = 'C12'
META = {
    'extractors': ['graph', 'pydestroy'],
    'technique': ('TRANSLATOR tie: main.py destroySelf / findDependantColumns / findDependencies are translated from the AST on every run into a deep embedding '
                  '(Model/PyDestroy.lean) and the translated program is proved, by symbolic execution with loop invariants, to compute exactly '
                  'the hand model (C12_translated_destroySelf_eq_model: translated destroySelf with the recursive call bound to destroy S n '
                  '= destroy S (n+1), for every schema, database with unique ids, victim and budget) + '
                  'Lean 4 proof (induction on recursion fuel over a step-by-step model of destroySelf; closure, frame and cache '
                  'postconditions; acyclic data => bounded rank => termination with fuel = rows+1, fuel monotonicity; simulation of the '
                  'model by a walk of the immutable original graph = exact refusal condition; divergence on cascade cycles) + extracted '
                  'link-row DELETE statements + differential correspondence on generated reference graphs'),
    'level_text': ('Theorems C12_*: for every schema, population and victim, a successful model destroySelf deletes exactly '
                   'the cascade closure, nulls the null-policy references to it, removes link rows on both sides, leaves '
                   'other references alone and leaves no destroyed row reachable by id; refusal is characterised exactly; '
                   'termination is proved for acyclic data and divergence for cascade cycles (the real code: RecursionError). '
                   'The model is compared with the real destroySelf on every generated graph, and the property oracle is '
                   'evaluated on the real tables.'),
    'level_note': ('Trusted: Lean kernel; the harness; SQLite executing the DELETE/UPDATE/SELECT statements; the sampling '
                   'correspondence between Model/Graph.lean and main.py destroySelf.'),
    'rule': ('case = (schema, population, link rows, victim, cached?); distinct = distinct canonical case text; '
             'non-trivial = the victim is referenced by at least one row or link row'),
    'trusted': ['Model/Graph.lean `destroy` is tied to main.py destroySelf by the translator proof C12_translated_destroySelf_eq_model and `depCols` to '
                'findDependantColumns by C12_translated_findDependantColumns_eq_model, under the interface assumptions listed in the header of '
                'Model/GraphX.lean (what select / count / iteration of a select result / getattr(row, name) / row.set / syncUpdate / the link-table DELETE / '
                '_SO_delete / cache.expire / the signals do); `dependents` is tied to findDependencies (= _SO_depends, text-checked) by '
                'C12_translated_findDependencies_eq_model; those interface assumptions and the reference semantics of the embedding '
                '(Model/PyDestroy.lean) are what the differential run still ties',
                'the two link-row DELETE statements of destroySelf (template, column, loop guard) are read from the AST into '
                'Extracted/Graph.lean and the model deletes by the extracted column; the rest of destroySelf is control flow, tied by the differential run'],
    'modelled': ['SQLite engine (DELETE / UPDATE / lazy cursor of the dependent select; executed, not verified)',
                 'Python recursion limit modelled as fuel; weakref/GC of cached instances not modelled (instances are held by the harness)'],
    'assumptions': ['the inheritance scenario (InheritableSQLObject hierarchies of 2-3 levels as victims and closure members, keys to and from every '
                    'level) has no Lean model: it is decided by the object-level closure oracle only (success: every level of every closure '
                    'object gone; refusal: the victim is not partly deleted)',
                    'the transaction scenario has no Lean model of Transaction.commit: the model answer used for it is the plain destroySelf '
                    'result (what the parent must show after commit); what decides it is the oracle (NotFound for every closure member)',
                    'classes live in one registry and are plain SQLObject classes (no InheritableSQLObject, no per-connection instances)',
                    'foreign keys hold ids of the target class or NULL; SQLite foreign-key enforcement is off (the default)'],
    'exhaustive': False,
}

NAMES = ['A', 'B', 'C', 'D']
POL = {'c': True, 'r': False, 'n': 'null', 'k': None}

K_CYCLE = 'C12:cascade-cycle-recursion'
K_MIXED = 'C12:restrict-key-refuses-reference-through-sibling-key'
K_INSIDE = 'C12:restrict-reference-from-inside-closure-not-refused'

_built = {}


_tmpdir = []
_default_conn = {}
_bomb = [None]      # ('post' | 'destroyed', class name, id): the callback of that row raises


class Boom(Exception):
    """raised by a post-destroy callback / RowDestroyedSignal listener of the harness"""


def install_listeners(classes):
    from sqlobject import events

    def on_destroy(inst, post_funcs):
        def post(inst):
            b = _bomb[0]
            if b and b[0] == 'post' and b[1] == type(inst).__name__ and b[2] == inst.id:
                raise Boom('post_func of %s %d' % (b[1], b[2]))
        post_funcs.append(post)

    def on_destroyed(inst, post_funcs):
        b = _bomb[0]
        if b and b[0] == 'destroyed' and b[1] == type(inst).__name__ and b[2] == inst.id:
            raise Boom('RowDestroyedSignal listener of %s %d' % (b[1], b[2]))
    for cls in classes:
        events.listen(on_destroy, cls, events.RowDestroySignal, weak=False)
        events.listen(on_destroyed, cls, events.RowDestroyedSignal, weak=False)


def scratch_dir():
    """file-backed SQLite databases live outside /repo and /verif and are removed at exit"""
    if not _tmpdir:
        import atexit
        import shutil
        import tempfile
        _tmpdir.append(tempfile.mkdtemp(prefix='verif_c12_'))
        atexit.register(shutil.rmtree, _tmpdir[0], True)
    return _tmpdir[0]


def join_def(k, jx, o, t, own):
    from sqlobject import RelatedJoin, SQLRelatedJoin
    J = RelatedJoin if (jx + k + t) % 2 == 0 else SQLRelatedJoin
    return J(NAMES[o], intermediateTable='lt%d' % t, joinColumn='ca' if own else 'cb',
             otherColumn='cb' if own else 'ca', createRelatedTable=False)


def base_of(case):
    """schema / rows before the run-time addition of an 'evolve' case (the late item is the last of its class)"""
    late = case['late']
    classes = json.loads(json.dumps(case['classes']))
    kind = 'fks' if 'fk' in late else 'joins'
    classes[late['cls']][kind].pop()
    rows = [[c, i, vals[:len(classes[c]['fks'])]] for c, i, vals in case['rows']]
    tables = {t for cd in classes for o, t, own in cd['joins']}
    links = [l for l in case['links'] if l[0] in tables]
    return classes, rows, links


def build(classes, cached, mode='plain', case=None):
    """create (once) the real classes of a schema on a private connection and registry"""
    key = (json.dumps(classes), cached, mode, json.dumps(case['late']) if mode == 'evolve' else None)
    if key in _built:
        return _built[key]
    sqlo.setup()
    from sqlobject import SQLObject, ForeignKey
    reg = sqlo.uniq('c12reg')
    default_conn = None
    if mode == 'tx':
        conn = sqlo.file_conn(os.path.join(scratch_dir(), sqlo.uniq('db') + '.sqlite'), cache=cached)
    elif mode == 'conn2':
        # the classes' default connection is another database; `conn` is only ever passed explicitly
        default_conn = sqlo.mem_conn()
        conn = sqlo.mem_conn(cache=cached)
    else:
        conn = sqlo.mem_conn(cache=cached)
    decl = classes
    if mode == 'evolve':
        decl, base_rows, base_links = base_of(case)
    out = []
    tables = set()
    for k, cd in enumerate(decl):
        d = {'sqlmeta': type('sqlmeta', (), {'registry': reg, 'lazyUpdate': bool(cd.get('lazy'))}),
             '_connection': default_conn or conn}
        for f, (t, p) in enumerate(cd['fks']):
            d['f%d' % f] = ForeignKey(NAMES[t], cascade=POL[p], default=None)
        for jx, (o, t, own) in enumerate(cd['joins']):
            d['j%d' % jx] = join_def(k, jx, o, t, own)
            tables.add(t)
        out.append(type(NAMES[k], (SQLObject,), d))
    for cn in ([default_conn, conn] if default_conn else [conn]):
        for cls in out:
            cls.createTable(connection=cn)
        for t in sorted(tables):
            cn.query('CREATE TABLE lt%d (ca INT, cb INT)' % t)
    if mode == 'fault':
        install_listeners(out)
    if mode == 'evolve':
        # schema evolution: use the classes (one destroySelf per class, so that anything remembered about the
        # dependency graph is remembered), then add a foreign key / related join at run time
        late = case['late']
        fill(conn, out, sorted(tables), base_rows, base_links)
        for k, cls in enumerate(out):
            for c, i, vals in base_rows:
                if c == k:
                    try:
                        cls.get(i).destroySelf()
                    except Exception:
                        pass
                    break
        k = late['cls']
        if 'fk' in late:
            t, p = late['fk']
            f = len(decl[k]['fks'])
            out[k].sqlmeta.addColumn(ForeignKey(NAMES[t], name='f%d' % f, cascade=POL[p], default=None), changeSchema=True)
        else:
            o, t, own = late['join']
            jd = join_def(k, len(decl[k]['joins']), o, t, own)
            jd.joinMethodName = 'j%d' % len(decl[k]['joins'])
            out[k].sqlmeta.addJoin(jd)
            if t not in tables:
                tables.add(t)
                conn.query('CREATE TABLE lt%d (ca INT, cb INT)' % t)
    if len(_built) > 400:
        _built.clear()
    _built[key] = (conn, out, sorted(tables))
    if default_conn is not None:
        _default_conn[id(conn)] = default_conn
    return _built[key]


def fill(conn, classes, tables, rows, links, explicit=False):
    """explicit: every object is created through `connection=conn` (conn is not the classes' default connection)"""
    ckw = {'connection': conn} if explicit else {}
    for cls in classes:
        conn.query('DELETE FROM %s' % cls.sqlmeta.table)
    for t in tables:
        conn.query('DELETE FROM lt%d' % t)
    conn.cache.clear()
    objs = {}
    for c, i, vals in rows:
        objs[(c, i)] = classes[c](id=i, **ckw)
    for c, i, vals in rows:
        kw = {'f%dID' % f: v for f, v in enumerate(vals) if v is not None}
        if kw:
            objs[(c, i)].set(**kw)
            if objs[(c, i)].sqlmeta.lazyUpdate:
                objs[(c, i)].syncUpdate()
    for t, a, b in links:
        conn.query('INSERT INTO lt%d (ca, cb) VALUES (%d, %d)' % (t, a, b))
    return objs


def populate(case):
    mode = case.get('mode', 'plain')
    conn, classes, tables = build(case['classes'], case['cache'], mode, case)
    if mode == 'conn2':
        # another population in the database of the default connection
        fill(_default_conn[id(conn)], classes, tables, case['rows_default'], case['links_default'])
    objs = fill(conn, classes, tables, case['rows'], case['links'], explicit=(mode == 'conn2'))
    return conn, classes, tables, objs


def dump(case, conn, classes, tables):
    rows = []
    for c, cls in enumerate(classes):
        n = len(case['classes'][c]['fks'])
        cols = ''.join(', f%d_id' % f for f in range(n))
        for r in conn.queryAll('SELECT id%s FROM %s ORDER BY id' % (cols, cls.sqlmeta.table)):
            rows.append((c, r[0], tuple(r[1:])))
    links = []
    for t in tables:
        for a, b in conn.queryAll('SELECT ca, cb FROM lt%d' % t):
            links.append((t, a, b))
    return sorted(rows), sorted(links)


def run_impl(case):
    """-> (outcome, rows, links, reachable keys, stale) after destroySelf of the victim on the real code.
    mode 'tx': the victim is fetched and destroyed through `conn.transaction()`, committed; everything is then
    observed on the parent connection, whose instances were loaded before and are still held."""
    import sqlobject
    conn, classes, tables, objs = populate(case)
    mode = case.get('mode', 'plain')
    vc, vi = case['victim']
    limit = sys.getrecursionlimit()
    tx = None
    try:
        sys.setrecursionlimit(400)   # a cascade cycle recurses for ever; 400 frames are as good as 1000
        try:
            if mode == 'tx':
                tx = conn.transaction()
                victim = classes[vc].get(vi, connection=tx)
            elif mode == 'conn2':
                victim = classes[vc].get(vi, connection=conn)
            else:
                victim = classes[vc].get(vi)
            if mode == 'fault':
                _bomb[0] = (case['bomb'][0], NAMES[case['bomb'][1]], case['bomb'][2])
            victim.destroySelf()
            outcome = 'ok'
        except sqlobject.main.SQLObjectIntegrityError:
            outcome = 'refused'
        except RecursionError:
            outcome = 'fuel'
        except Boom:
            outcome = 'boom'
        except Exception as e:  # any other exception of the real code is an observable outcome
            outcome = 'error:' + sqlo.exc_name(e)
        finally:
            _bomb[0] = None
        if tx is not None:
            try:
                if outcome == 'ok':
                    tx.commit(close=True)
                else:
                    tx.rollback()
            except Exception as e:
                outcome = 'error:commit:' + sqlo.exc_name(e)
    finally:
        sys.setrecursionlimit(limit)
    rows, links = dump(case, conn, classes, tables)
    reach = []
    stale = []
    rowmap = {(c, i): vals for c, i, vals in rows}
    for (c, i) in sorted(objs):
        nf = len(case['classes'][c]['fks'])
        if mode == 'tx' and (c, i) not in rowmap and nf:
            # an instance of a destroyed row, held by the parent connection's user, must not answer
            try:
                getattr(objs[(c, i)], 'f0ID')
                reach.append((c, i, 'held instance still answers'))
            except sqlobject.SQLObjectNotFound:
                pass
            except Exception as e:
                reach.append((c, i, 'held instance: ' + sqlo.exc_name(e)))
        try:
            o = classes[c].get(i, connection=conn) if mode == 'conn2' else classes[c].get(i)
        except sqlobject.SQLObjectNotFound:
            continue
        except Exception as e:
            reach.append((c, i, 'error:' + sqlo.exc_name(e)))
            continue
        reach.append((c, i))
        if (c, i) in rowmap and mode != 'tx':     # staleness of survivors across a commit is property C07's
            try:
                seen = tuple(getattr(o, 'f%dID' % f) for f in range(nf))
            except Exception as e:
                seen = 'error:' + sqlo.exc_name(e)
            if seen != rowmap[(c, i)]:
                stale.append(((c, i), seen, rowmap[(c, i)]))
    if mode == 'conn2':
        dc = _default_conn[id(conn)]
        d_rows, d_links = dump(case, dc, classes, tables)
        want = (sorted((c, i, tuple(v)) for c, i, v in case['rows_default']), sorted(tuple(l) for l in case['links_default']))
        if (d_rows, d_links) != want:
            stale.append(('default connection', (d_rows, d_links), want))
    return outcome, rows, links, reach, stale


# ------------------------------------------------------------------ the property's own semantics (oracle)
def oracle(case):
    """what the property's wording demands: (expected outcome, rows, links, reachable, info)"""
    S = case['classes']
    rows = {(c, i): list(vals) for c, i, vals in case['rows']}
    vic = tuple(case['victim'])
    closure = {vic}
    changed = True
    while changed:
        changed = False
        for (c, i), vals in rows.items():
            if (c, i) in closure:
                continue
            for f, v in enumerate(vals):
                t, p = S[c]['fks'][f]
                if p == 'c' and v is not None and (t, v) in closure:
                    closure.add((c, i))
                    changed = True
                    break
    # a cascade cycle among the rows of the closure?
    def cyc():
        color = {}

        def visit(x):
            color[x] = 1
            for (c, i), vals in rows.items():
                if (c, i) not in closure:
                    continue
                for f, v in enumerate(vals):
                    t, p = S[c]['fks'][f]
                    if p == 'c' and v is not None and (t, v) == x:
                        if color.get((c, i)) == 1:
                            return True
                        if (c, i) not in color and visit((c, i)):
                            return True
            color[x] = 2
            return False
        return visit(vic)
    restrictors = []
    for (c, i), vals in rows.items():
        for f, v in enumerate(vals):
            t, p = S[c]['fks'][f]
            if p == 'r' and v is not None and (t, v) in closure:
                restrictors.append(((c, i), f))
    info = {'closure': sorted(closure), 'cycle': cyc(), 'restrictors': restrictors,
            'restrictor_inside': any(r in closure for r, f in restrictors),
            'restrictor_outside': any(r not in closure for r, f in restrictors)}
    if restrictors:
        return 'refused', None, None, None, info
    out_rows = []
    for (c, i), vals in sorted(rows.items()):
        if (c, i) in closure:
            continue
        nv = []
        for f, v in enumerate(vals):
            t, p = S[c]['fks'][f]
            nv.append(None if (p == 'n' and v is not None and (t, v) in closure) else v)
        out_rows.append((c, i, tuple(nv)))
    # which class owns which column of which link table
    owner = {}
    for k, cd in enumerate(S):
        for o, t, own in cd['joins']:
            owner.setdefault((t, 0 if own else 1), set()).add(k)
            owner.setdefault((t, 1 if own else 0), set()).add(o)
    out_links = []
    for t, a, b in case['links']:
        dead = any((k, a) in closure for k in owner.get((t, 0), ())) or \
            any((k, b) in closure for k in owner.get((t, 1), ()))
        if not dead:
            out_links.append((t, a, b))
    reach = [k for k in sorted(rows) if k not in closure]
    return 'ok', sorted(out_rows), sorted(out_links), reach, info


def is_mixed(case, info):
    """some class has, towards the class of a closure member, a cascade=False key next to a key with another policy"""
    S = case['classes']
    for k, cd in enumerate(S):
        for t in range(len(S)):
            pols = {p for tt, p in cd['fks'] if tt == t and p != 'k'}
            if 'r' in pols and len(pols) > 1:
                return True
    return False


# ------------------------------------------------------------------ model side
def model_line(case):
    toks = []
    for cd in case['classes']:
        toks.append('K')
        for t, p in cd['fks']:
            toks += ['F', str(t), p]
        for o, t, own in cd['joins']:
            toks += ['J', str(o), str(t), '1' if own else '0']
    for c, i, vals in case['rows']:
        toks += ['R', str(c), str(i)] + ['-' if v is None else str(v) for v in vals]
        toks += ['C', str(c), str(i)]
    for t, a, b in case['links']:
        toks += ['L', str(t), str(a), str(b)]
    toks += ['D', str(case['victim'][0]), str(case['victim'][1]), str(len(case['rows']) + 1)]
    return ' '.join(toks)


def parse_model(ans):
    parts = [p.strip() for p in ans.split('|')]
    if len(parts) != 5:
        return ('bad', ans)
    rows = []
    for t in parts[1].split():
        c, i, vs = t.split(':')
        vals = tuple(None if v == '-' else int(v) for v in vs.split(',')) if vs else ()
        rows.append((int(c), int(i), vals))
    links = [tuple(int(x) for x in t.split(':')) for t in parts[2].split()]
    reach = [tuple(int(x) for x in t.split(':')) for t in parts[3].split()]
    return parts[0], sorted(rows), sorted(links), sorted(reach), parts[4]


# ------------------------------------------------------------------ generators
def gen_schema(rng):
    n = rng.choice([2, 2, 3, 3, 3, 4])
    classes = [{'fks': [], 'joins': []} for _ in range(n)]
    for k in range(n):
        nf = rng.choice([0, 1, 1, 2, 2, 3])
        for _ in range(nf):
            r = rng.random()
            t = k if r < 0.2 else rng.randrange(n)
            # bias towards a few target classes so that chains and mixed policies on one target happen
            if r > 0.6:
                t = rng.choice([0, (k + 1) % n])
            p = rng.choice(['c', 'c', 'c', 'r', 'n', 'n', 'k'])
            classes[k]['fks'].append([t, p])
    for k in range(n):
        if rng.random() < 0.25:
            classes[k]['lazy'] = True      # sqlmeta.lazyUpdate: assignments are pending until syncUpdate()
    nt = rng.choice([0, 0, 1, 1, 2])
    for t in range(nt):
        k1 = rng.randrange(n)
        k2 = rng.randrange(n)
        sides = rng.choice(['both', 'both', 'first', 'second'])
        if sides in ('both', 'first'):
            classes[k1]['joins'].append([k2, t, 1])
        if sides in ('both', 'second'):
            classes[k2]['joins'].append([k1, t, 0])
    return classes


def table_ends(classes):
    ends = {}
    for k, cd in enumerate(classes):
        for o, t, own in cd['joins']:
            ends[t] = (k, o) if own else (o, k)
    return ends


def gen_population(rng, classes, zero=False):
    n = len(classes)
    total = rng.choice([2, 3, 4, 4, 5, 5, 6, 6])
    counts = [0] * n
    for _ in range(total):
        counts[rng.randrange(n)] += 1
    ids = {k: list(range(0 if zero else 1, counts[k] + (0 if zero else 1))) for k in range(n)}
    acyclic_bias = rng.random() < 0.7
    rows = []
    for k in range(n):
        for i in ids[k]:
            vals = []
            for t, p in classes[k]['fks']:
                r = rng.random()
                cands = ids[t]
                if acyclic_bias and t == k:
                    cands = [j for j in cands if j < i]      # self references point backwards: no cycle
                if r < 0.25 or not cands:
                    vals.append(None)
                elif r < 0.28:
                    vals.append(9)                            # dangling reference
                else:
                    vals.append(rng.choice(cands))
            rows.append([k, i, vals])
    links = []
    for t, (k1, k2) in sorted(table_ends(classes).items()):
        for _ in range(rng.choice([0, 1, 2, 3, 4])):
            if ids[k1] and ids[k2]:
                links.append([t, rng.choice(ids[k1]), rng.choice(ids[k2])])
    return rows, links


def corpus_cases():
    out = []
    d = os.path.join(os.path.dirname(os.path.dirname(os.path.abspath(__file__))), 'corpus', 'C12')
    for path in sorted(glob.glob(os.path.join(d, '*.json'))):
        data = json.load(open(path))
        for case in (data if isinstance(data, list) else [data]):
            out.append(case)
    return out


def gen_cases(ctx):
    rng = ctx.rng
    for case in corpus_cases():
        for cached in (True, False):
            c = dict(case)
            c['cache'] = cached
            yield c
            if 'mode' not in c:
                d = dict(c)
                d['mode'] = 'conn2'
                d['rows_default'] = [[cc, i, [None] * len(v)] for cc, i, v in c['rows']]
                d['links_default'] = []
                yield d
                exp = oracle(c)
                if exp[0] == 'ok' and not exp[4]['cycle']:
                    for kind in ('post', 'destroyed'):
                        for bc, bi in (exp[4]['closure'][0], exp[4]['closure'][-1]):
                            b = dict(c)
                            b['mode'] = 'fault'
                            b['bomb'] = [kind, bc, bi]
                            yield b
                if exp[0] == 'ok' and not exp[4]['cycle']:
                    t = dict(c)
                    t['mode'] = 'tx'
                    yield t
    nschema = ctx.budget(600, 12000)
    for s in range(nschema):
        classes = gen_schema(rng)
        cached = (s % 3 != 0)
        for _ in range(2):
            rows, links = gen_population(rng, classes, zero=(s % 5 == 0))
            for c, i, vals in rows:
                yield {'cache': cached, 'classes': classes, 'rows': rows, 'links': links, 'victim': [c, i]}
        if s % 4 == 1:
            # destroySelf through a transaction, observed on the parent connection (oracle expects success)
            for c, i, vals in rows:
                case = {'cache': cached, 'classes': classes, 'rows': rows, 'links': links, 'victim': [c, i], 'mode': 'tx'}
                exp = oracle(case)
                if exp[0] == 'ok' and not exp[4]['cycle'] and len(exp[4]['closure']) >= 2:
                    yield case
                    break
        if s % 4 == 2:
            for case in gen_evolved(rng, classes, cached):
                yield case
        if s % 4 == 0:
            # a post-destroy callback (post_func / RowDestroyedSignal listener) of a row of the closure raises
            for c, i, vals in rows:
                case = {'cache': cached, 'classes': classes, 'rows': rows, 'links': links, 'victim': [c, i], 'mode': 'fault'}
                exp = oracle(case)
                if exp[0] == 'ok' and not exp[4]['cycle']:
                    bc, bi = rng.choice(exp[4]['closure'])
                    case['bomb'] = [rng.choice(['post', 'destroyed']), bc, bi]
                    yield case
        if s % 4 == 3:
            # the whole scenario on an explicit second connection; the default connection's database holds another
            # population (same ids where possible, other references), which must be neither consulted nor changed
            rows_d, links_d = gen_population(rng, classes)
            for c, i, vals in rows:
                yield {'cache': cached, 'classes': classes, 'rows': rows, 'links': links, 'victim': [c, i], 'mode': 'conn2',
                       'rows_default': rows_d, 'links_default': links_d}


def gen_evolved(rng, classes, cached):
    """a foreign key or a related join added at run time, after the classes were already used"""
    n = len(classes)
    k = rng.randrange(n)
    ev = json.loads(json.dumps(classes))
    if rng.random() < 0.75:
        t = rng.randrange(n)
        late = {'cls': k, 'fk': [t, rng.choice(['c', 'c', 'n', 'r'])]}
        ev[k]['fks'].append(late['fk'])
    else:
        o = rng.randrange(n)
        used = {t for cd in classes for _, t, _ in cd['joins']}
        t = max(used) + 1 if used else 0
        late = {'cls': k, 'join': [o, t, 1]}
        ev[k]['joins'].append(late['join'])
    rows, links = gen_population(rng, ev)
    target = late['fk'][0] if 'fk' in late else late['join'][0]
    for c, i, vals in rows:
        # victims of the class the late reference points at, and one other
        if c == target or rng.random() < 0.25:
            yield {'cache': cached, 'classes': ev, 'rows': rows, 'links': links, 'victim': [c, i],
                   'mode': 'evolve', 'late': late}


# ------------------------------------------------------------------ judging
def judge(ctx, case, impl):
    """property oracle on the implementation"""
    outcome, rows, links, reach, stale = impl
    exp, erows, elinks, ereach, info = oracle(case)
    sig = canon(case)
    if stale and stale[0][0] == 'default connection':
        ctx.oracle_fail('C12:conn2-default-database-changed', 'destroySelf of an object of an explicit second connection changed the '
                        'database of the class\'s default connection: %r, was %r' % (stale[0][1], stale[0][2]), case)
    elif stale:
        ctx.oracle_fail('C12:stale-instance:' + sig, 'a surviving instance shows %r, its row holds %r' % (stale[0][1], stale[0][2]), case)
    ghosts = [x for x in reach if tuple(x[:2]) not in {(c, i) for c, i, _ in rows}]
    if ghosts:
        ctx.oracle_fail('C12:deleted-row-still-reachable', 'after destroySelf (outcome %s%s) the rows of %r are deleted but get(id) / a held '
                        'instance still answers for them (cache=%s)' % (outcome, ', a post-destroy callback raised' if outcome == 'boom' else '',
                                                                       ghosts, case['cache']), case)
        return
    if outcome == 'boom':
        ctx.count('a post-destroy callback raised: no deleted row is reachable')
        return
    if outcome == 'fuel':
        if info['cycle']:
            ctx.oracle_fail(K_CYCLE, 'destroySelf on a victim whose cascade closure contains a cycle of rows ends in '
                            'RecursionError, nothing is deleted (closure %s)' % info['closure'], case)
        else:
            ctx.oracle_fail('C12:recursion-without-cycle:' + sig, 'RecursionError although the cascade closure is acyclic', case)
        return
    if outcome.startswith('error'):
        ctx.oracle_fail('C12:%s:%s' % (outcome, sig), 'destroySelf raised %s' % outcome, case)
        return
    if exp == 'refused':
        if outcome == 'refused':
            ctx.count('refused as demanded')
            if (rows, links) != initial_dump(case):
                ctx.count('refused after partial cascade (state changed; property C06)')
            return
        if info['restrictor_inside'] and not info['restrictor_outside']:
            ctx.oracle_fail(K_INSIDE, 'a row of the cascade closure is referenced through a cascade=False key by another row of '
                            'the closure that happened to be deleted first: destroySelf succeeds (it is refused when the '
                            'classes are declared in another order)', case)
        else:
            ctx.oracle_fail('C12:not-refused:' + sig, 'destroySelf succeeded although %s reference the closure through a '
                            'cascade=False key' % (info['restrictors'],), case)
        return
    # the property demands success
    if outcome == 'refused':
        if is_mixed(case, info):
            # repaired by 8396437; a recurrence is a violation again (the key is listed as fixed)
            ctx.oracle_fail(K_MIXED, 'a class with a cascade=False key and another key (cascade=True/null) to the same class: '
                            'a reference through the other key is refused as if it went through the cascade=False key', case)
        else:
            ctx.oracle_fail('C12:refused-without-restriction:' + sig, 'destroySelf refused, no cascade=False reference into the closure', case)
        return
    if rows != erows:
        ctx.oracle_fail('C12:rows:' + sig, 'tables after destroySelf %r, the reference graph deletion gives %r' % (rows, erows), case)
    elif links != elinks:
        ctx.oracle_fail('C12:links:' + sig, 'link tables after destroySelf %r, expected %r' % (links, elinks), case)
    elif [tuple(x) for x in reach] != ereach and case.get('mode') == 'tx':
        ctx.oracle_fail('C12:tx-destroyed-row-still-reachable-on-parent', 'destroySelf through a transaction + commit: on the parent '
                        'connection get()/held instances still answer for %r, surviving rows are %r (cache=%s)'
                        % (reach, ereach, case['cache']), case)
    elif [tuple(x) for x in reach] != ereach:
        ctx.oracle_fail('C12:reachable:' + sig, 'get() still returns %r, surviving rows are %r (cache=%s)' % (reach, ereach, case['cache']), case)


def initial_dump(case):
    return (sorted((c, i, tuple(v)) for c, i, v in case['rows']), sorted(tuple(l) for l in case['links']))


def canon(case):
    return model_line(case) + (' cached' if case['cache'] else ' uncached') + ' ' + case.get('mode', 'plain') + \
        (json.dumps(case['late']) if case.get('late') else '') + (json.dumps(case['bomb']) if case.get('bomb') else '')


def nontrivial(case):
    vc, vi = case['victim']
    for c, i, vals in case['rows']:
        for f, v in enumerate(vals):
            if v == vi and case['classes'][c]['fks'][f][0] == vc:
                return True
    return False



# ------------------------------------------------------------------ inheritance scenario (oracle only; no Lean model)
# An InheritableSQLObject is one object stored as a row per level (root table ... leaf table) under one id.  References
# may point at any level; destroySelf of the object has to honour the policies of the references to every level.
H_NAMES = ['P', 'Q', 'G']     # root, child, grandchild
X_NAMES = ['X', 'Y']          # plain classes
K_PART = 'C12:refused-destroySelf-deleted-part-of-the-victim'
_hbuilt = {}


def h_levels(case):
    return H_NAMES[:case['depth']]


def h_attr(cls, n):
    return 'f%s%d' % (cls.lower(), n)


def h_build(case):
    key = (json.dumps([case['depth'], case['plains'], case['fks']], sort_keys=True), case['cache'])
    if key in _hbuilt:
        return _hbuilt[key]
    sqlo.setup()
    from sqlobject import SQLObject, ForeignKey
    from sqlobject.inheritance import InheritableSQLObject
    reg = sqlo.uniq('c12hreg')
    conn = sqlo.mem_conn(cache=case['cache'])
    classes = {}

    def cols(name):
        return {h_attr(name, n): ForeignKey(t, cascade=POL[p], default=None) for n, (t, p) in enumerate(case['fks'][name])}
    parent = None
    for name in h_levels(case):
        d = cols(name)
        if parent is None:
            d.update({'sqlmeta': type('sqlmeta', (), {'registry': reg}), '_connection': conn})
            classes[name] = type(name, (InheritableSQLObject,), d)
        else:
            classes[name] = type(name, (parent,), d)
        parent = classes[name]
    for name in case['plains']:
        d = cols(name)
        d.update({'sqlmeta': type('sqlmeta', (), {'registry': reg}), '_connection': conn})
        classes[name] = type(name, (SQLObject,), d)
    for cls in classes.values():
        cls.createTable()
    if len(_hbuilt) > 200:
        _hbuilt.clear()
    _hbuilt[key] = (conn, classes)
    return _hbuilt[key]


def h_rows(case):
    """level rows of the population: {(class name, id): [values]} and the object owning each row"""
    rows, owner = {}, {}
    hid = 0
    pid = {}
    for n, ob in enumerate(case['objects']):
        if ob[0] == 'h':
            hid += 1
            for lv in h_levels(case)[:ob[1] + 1]:
                rows[(lv, hid)] = list(ob[2][lv])
                owner[(lv, hid)] = n
        else:
            pid[ob[1]] = pid.get(ob[1], 0) + 1
            rows[(ob[1], pid[ob[1]])] = list(ob[2])
            owner[(ob[1], pid[ob[1]])] = n
    return rows, owner


def h_populate(case):
    conn, classes = h_build(case)
    for cls in classes.values():
        conn.query('DELETE FROM %s' % cls.sqlmeta.table)
    conn.query('DELETE FROM sqlite_sequence')      # ids are AUTOINCREMENT: start again at 1
    conn.cache.clear()
    held = []
    hid = 0
    pid = {}
    for ob in case['objects']:
        if ob[0] == 'h':
            hid += 1
            leaf = h_levels(case)[ob[1]]
            kw = {}
            for lv in h_levels(case)[:ob[1] + 1]:
                for n, v in enumerate(ob[2][lv]):
                    if v is not None:
                        kw[h_attr(lv, n) + 'ID'] = v
            o = classes[leaf](**kw)
            assert o.id == hid, 'harness: planned id %d, got %d' % (hid, o.id)
        else:
            pid[ob[1]] = pid.get(ob[1], 0) + 1
            kw = {h_attr(ob[1], n) + 'ID': v for n, v in enumerate(ob[2]) if v is not None}
            o = classes[ob[1]](**kw)
            assert o.id == pid[ob[1]], 'harness: planned id %d, got %d' % (pid[ob[1]], o.id)
        held.append(o)
    return conn, classes, held


def h_dump(case, conn, classes):
    out = {}
    for name, cls in classes.items():
        cols = ''.join(', %s_id' % h_attr(name, n) for n in range(len(case['fks'][name])))
        for r in conn.queryAll('SELECT id%s FROM %s ORDER BY id' % (cols, cls.sqlmeta.table)):
            out[(name, r[0])] = list(r[1:])
    return out


def h_oracle(case):
    rows, owner = h_rows(case)
    members = {}
    for k, n in owner.items():
        members.setdefault(n, []).append(k)
    closure = {case['victim']}
    changed = True
    while changed:
        changed = False
        for (cls, i), vals in rows.items():
            if owner[(cls, i)] in closure:
                continue
            for n, v in enumerate(vals):
                t, p = case['fks'][cls][n]
                if p == 'c' and v is not None and owner.get((t, v)) in closure:
                    closure.add(owner[(cls, i)])
                    changed = True
                    break
    restrictors = []
    for (cls, i), vals in rows.items():
        for n, v in enumerate(vals):
            t, p = case['fks'][cls][n]
            if p == 'r' and v is not None and owner.get((t, v)) in closure:
                restrictors.append(((cls, i), n, owner[(cls, i)] in closure))
    exp = {}
    for (cls, i), vals in rows.items():
        if owner[(cls, i)] in closure:
            continue
        nv = []
        for n, v in enumerate(vals):
            t, p = case['fks'][cls][n]
            nv.append(None if (p == 'n' and v is not None and owner.get((t, v)) in closure) else v)
        exp[(cls, i)] = nv
    return {'rows': rows, 'owner': owner, 'members': members, 'closure': closure, 'restrictors': restrictors, 'expected': exp}


K_HNULL = 'C12:null-key-declared-on-inheritable-parent-level'


def h_null_on_parent_level(case, o):
    """some hierarchy object references the closure through a 'null' key declared above its leaf level"""
    levels = h_levels(case)
    for (cls, i), vals in o['rows'].items():
        if cls not in levels:
            continue
        leaf = max(levels.index(k[0]) for k in o['members'][o['owner'][(cls, i)]])
        if levels.index(cls) < leaf:
            for n, v in enumerate(vals):
                t, p = case['fks'][cls][n]
                if p == 'n' and v is not None and o['owner'].get((t, v)) in o['closure']:
                    return True
    return False


def h_run(ctx, case):
    import sqlobject
    conn, classes, held = h_populate(case)
    o = h_oracle(case)
    vrows = sorted(o['members'][case['victim']], key=lambda k: (H_NAMES + X_NAMES).index(k[0]))
    root_cls, vid = vrows[0]
    limit = sys.getrecursionlimit()
    try:
        sys.setrecursionlimit(400)
        try:
            classes[root_cls].get(vid).destroySelf()
            outcome = 'ok'
        except sqlobject.main.SQLObjectIntegrityError:
            outcome = 'refused'
        except RecursionError:
            outcome = 'fuel'
        except Exception as e:
            outcome = 'error:' + sqlo.exc_name(e)
    finally:
        sys.setrecursionlimit(limit)
    after = h_dump(case, conn, classes)
    kind = 'inherit/%s/depth%d/victim-%s' % (outcome, case['depth'], vrows[-1][0])
    ctx.case(('inherit', json.dumps(case, sort_keys=True)), nontrivial=len(o['closure']) > 1 or bool(o['restrictors']),
             sample={'case': case, 'outcome': outcome}, kind=kind)
    if outcome == 'error:Other(AttributeError)' and h_null_on_parent_level(case, o):
        ctx.oracle_fail(K_HNULL, 'an object of an inheritable CHILD class references a row of the closure through a cascade=\'null\' key '
                        'declared on its PARENT class: destroySelf of the referenced object raises AttributeError (the child instance '
                        'has no _SO_val_<key>ID), nothing is deleted or NULLed', case)
        return
    if outcome.startswith('error') or outcome == 'fuel':
        ctx.oracle_fail('C12:inherit:%s' % outcome, 'destroySelf of an inheritable object raised %s' % outcome, case)
        return
    if outcome == 'refused':
        if not o['restrictors']:
            ctx.oracle_fail('C12:inherit:refused-without-restriction', 'destroySelf refused, no cascade=False reference into the closure', case)
            return
        # the refusal must not have deleted a part of the victim: as long as the row of its root level is there,
        # the rows of all its levels are, and it still loads as what it was.  (A root-level row that is gone means the
        # refusal came from a restriction on a deeper level after the upper levels were destroyed: the partial
        # destruction recorded under property C06, counted here, not judged.)
        if vrows[0] in after:
            missing = [k for k in vrows if k not in after]
            loaded = None
            try:
                loaded = type(classes[root_cls].get(vid)).__name__
            except sqlobject.SQLObjectNotFound:
                loaded = 'SQLObjectNotFound'
            except Exception as e:
                loaded = 'error:' + sqlo.exc_name(e)
            if missing or loaded != vrows[-1][0]:
                ctx.oracle_fail(K_PART, 'destroySelf of %s %d was refused (cascade=False reference), but the rows %r of the victim are '
                                'deleted while its %s-level row is still there; %s.get(%d) gives %s'
                                % (vrows[-1][0], vid, missing, root_cls, root_cls, vid, loaded), case)
        else:
            ctx.count('inherit: refused at a deeper level after the upper levels were destroyed (property C06)')
        return
    # returned normally
    if o['restrictors']:
        if all(inside for _, _, inside in o['restrictors']):
            ctx.count('inherit: restricting rows only inside the closure (order dependent, not judged)')
        else:
            ctx.oracle_fail('C12:inherit:not-refused', 'destroySelf succeeded although %r reference the closure through a cascade=False key'
                            % (o['restrictors'],), case)
        return
    if after != o['expected']:
        ctx.oracle_fail('C12:inherit:rows', 'tables after destroySelf %r, the reference graph deletion gives %r'
                        % (sorted(after.items()), sorted(o['expected'].items())), case)
        return
    for n in sorted(o['closure']):
        for (cls, i) in o['members'][n]:
            try:
                classes[cls].get(i)
                ctx.oracle_fail('C12:inherit:reachable', '%s.get(%d) still answers after the object was destroyed (cache=%s)' % (cls, i, case['cache']), case)
                return
            except sqlobject.SQLObjectNotFound:
                pass
    for n, ks in o['members'].items():
        if n in o['closure']:
            continue
        ks = sorted(ks, key=lambda k: (H_NAMES + X_NAMES).index(k[0]))
        try:
            got = type(classes[ks[0][0]].get(ks[0][1])).__name__
        except Exception as e:
            got = sqlo.exc_name(e)
        if got != ks[-1][0]:
            ctx.oracle_fail('C12:inherit:survivor', 'surviving %s %d loads as %s' % (ks[-1][0], ks[0][1], got), case)
            return


def gen_inherit_case(rng, cached):
    depth = rng.choice([2, 2, 3])
    levels = H_NAMES[:depth]
    plains = X_NAMES[:rng.choice([1, 2, 2])]
    names = levels + plains
    fks = {}
    for nme in names:
        fks[nme] = []
        for _ in range(rng.choice([0, 1, 1, 2])):
            t = rng.choice(levels) if rng.random() < 0.65 else rng.choice(names)
            fks[nme].append([t, rng.choice(['c', 'c', 'c', 'r', 'r', 'n', 'k'])])
    objects = []
    have = {nme: [] for nme in names}     # ids of earlier objects that have a row in that class
    hid = 0
    pid = {}

    def pick(t):
        return rng.choice(have[t]) if have[t] and rng.random() < 0.75 else None
    for _ in range(rng.choice([3, 4, 5, 6, 7])):
        if rng.random() < 0.55:
            leaf = rng.randrange(depth)
            vals = {lv: [pick(t) for t, p in fks[lv]] for lv in levels[:leaf + 1]}
            hid += 1
            for lv in levels[:leaf + 1]:
                have[lv].append(hid)
            objects.append(['h', leaf, vals])
        else:
            c = rng.choice(plains)
            vals = [pick(t) for t, p in fks[c]]
            pid[c] = pid.get(c, 0) + 1
            have[c].append(pid[c])
            objects.append(['p', c, vals])
    return {'mode': 'inherit', 'cache': cached, 'depth': depth, 'plains': plains, 'fks': fks, 'objects': objects, 'victim': 0}


def run_inherit(ctx):
    rng = ctx.rng
    d = os.path.join(os.path.dirname(os.path.dirname(os.path.abspath(__file__))), 'corpus', 'C12', 'inherit')
    cases = []
    for path in sorted(glob.glob(os.path.join(d, '*.json'))):
        data = json.load(open(path))
        for case in (data if isinstance(data, list) else [data]):
            for cached in (True, False):
                c = dict(case)
                c['cache'] = cached
                cases.append(c)
    for sidx in range(ctx.budget(220, 4000)):
        base = gen_inherit_case(rng, cached=(sidx % 3 != 0))
        for v in range(len(base['objects'])):
            c = dict(base)
            c['victim'] = v
            cases.append(c)
    for case in cases:
        h_run(ctx, case)


def limit_reports(ctx, per_kind=4):
    """the framework keeps the first 200 oracle failures only: report each kind of failure a few times, so that the
    replays of a recorded finding (one per generated cascade cycle) cannot crowd out a different failure"""
    seen = {}
    orig = ctx.oracle_fail

    def limited(key, what, case):
        kind = ':'.join(key.split(':')[:2])
        seen[kind] = seen.get(kind, 0) + 1
        if seen[kind] <= per_kind:
            orig(key, what, case)
        else:
            ctx.count('further failures of kind %s (not listed)' % kind)
    ctx.oracle_fail = limited


def run(ctx):
    sqlo.setup()
    limit_reports(ctx)
    cases = list(gen_cases(ctx))
    outs = ctx.model([model_line(c) for c in cases])
    for idx, case in enumerate(cases):
        impl = run_impl(case)
        outcome, rows, links, reach, stale = impl
        exp = oracle(case)
        kind = '%s/%dcls/%s/%s' % (outcome, len(case['classes']), 'cached' if case['cache'] else 'uncached', case.get('mode', 'plain'))
        ctx.case(canon(case), nontrivial=nontrivial(case),
                 sample={'case': case, 'impl': [outcome, rows, links, reach], 'property': exp[0]}, kind=kind)
        if exp[4]['cycle']:
            ctx.count('closure has a cascade cycle')
        if len(exp[4]['closure']) >= 3:
            ctx.count('closure of >= 3 rows')
        judge(ctx, case, impl)
        if outs is not None and outcome != 'boom':
            m = parse_model(outs[idx])
            ctx.compare('outcome: model = destroySelf', case, m[0], outcome)
            ctx.compare('tables after: model = raw dump', case, m[1], rows)
            ctx.compare('link tables after: model = raw dump', case, m[2], links)
            ctx.compare('ids get() still returns: model = real cache+table', case, m[3], sorted(tuple(x) for x in reach))
            ctx.compare('outcome: walk of the original graph (trav) = destroySelf', case, m[4], outcome)
    run_inherit(ctx)


def replay(case):
    sqlo.setup()

    class C:
        fails = []

        def oracle_fail(self, key, what, case):
            self.fails.append((key, what))

        def count(self, *a):
            pass

        def case(self, *a, **k):
            pass
    c = C()
    if case.get('mode') == 'inherit':
        h_run(c, case)
        text = 'oracle: closure objects %r, restricting rows %r\n' % (sorted(h_oracle(case)['closure']), h_oracle(case)['restrictors'])
        for k, w in c.fails:
            text += 'FAIL [%s] %s\n' % (k, w)
        return not c.fails, text
    impl = run_impl(case)
    exp = oracle(case)
    judge(c, case, impl)
    text = 'implementation: %r\nproperty      : %r\n' % (impl[:4], exp[:4])
    for k, w in c.fails:
        text += 'FAIL [%s] %s\n' % (k, w)
    return not c.fails, text
