"""C03 — query expressions mean what was built.

correspondence: trees generated from the model's grammar are built through the REAL overloaded operators /
builder functions on real `Cls.q.col` fields; `sqlrepr(expr, dialect)` is tokenised and compared with the token
stream of the Lean driver (`drv_c03`) for every dialect; the three-valued value per row computed by SQLite is
compared with the Lean `evalB`.
oracle (independent of the Lean model): a Python three-valued evaluation of the source tree against
(a) the ids returned by `Cls.select(expr)` on a real SQLite table with NULLs, (b) `SELECT id, <expr>` (the
three-valued value itself), (c) for every dialect's text: an independent precedence-aware parser (SQL's usual
precedences) + evaluator; plus textual checks (`= NULL`, `<> NULL`, `--`, balanced parentheses).
"""
import itertools
import re

from vlib import sqlo

PROP = 'C03'
META = {
    'extractors': ['expr', 'pyexpr', 'pysel'],
    'technique': ('Lean 4 proof (structural induction over expression trees; fuel-based precedence-climbing reference '
                  'parser parametric in all binding powers) + operator tables extracted from sqlbuilder.py + '
                  'differential correspondence on token streams and SQLite three-valued results; TRANSLATOR tie: the bodies '
                  'of SQLOp/SQLModulo/SQLPrefix/SQLCall/SQLConstant/Field/INSubquery (__init__, __sqlrepr__), the operator '
                  'overloads of SQLExpression / SQLObjectField, AND/OR/NOT/_IN/IN/NOTIN/ISNULL/ISNOTNULL and the None/int/float/'
                  'sequence converters are translated from the AST on every run (vlib/extractors/pyexpr.py -> Extracted/PyExpr.lean, '
                  'deep embedding Model/PyExpr.lean) and proved equal to the hand model on all inputs (C03_translated_*)'),
    'level_text': ('Theorems C03_parse_render / C03_filter_sound: for every well-typed source tree (unbounded depth; boolean '
                   'subexpressions may also be operands of comparisons and arithmetic — E.b2i, value 1/0/NULL), every '
                   'dialect and EVERY assignment of binding powers to the operators, the reference parser recovers from the '
                   'rendered tokens exactly the tree the constructors built, and the parsed text selects a row iff the source '
                   'tree is true on it under three-valued logic; `== None` is IS NULL and no (in)equality operator is ever '
                   'followed by NULL.  The operator each Python overload / builder emits, the None rules, the AND/OR fold '
                   'direction and SQLModulo\'s dialect split are regenerated from /repo on every run; the hand-written parts '
                   '(paren rule, prefix and list rendering, Python\'s reflected dispatch) are compared with the real code.  '
                   'C03_translated_*: the Python bodies themselves (translated on every run) are run by a reference interpreter: '
                   'every __sqlrepr__ / converter returns the text-level hand model (opStr / prefixStr / modStr / seqStr) for every '
                   'interface, dialect string and operand rendering; sqlrepr of a whole graph = renderS, which spells the token '
                   'rendering (Spells); every overload / builder call builds toVal(build …) incl. reflected dispatch; '
                   'C03_parse_render_translated / C03_filter_sound_translated / C03_no_eq_null_translated restate the property about '
                   'the text the translated source emits.'),
    'level_note': ('Trusted: Lean kernel; extractor vlib/extractors/expr.py (including the spelling table that maps SQL operator '
                   'strings to their meaning); the reference grammar (precedence climbing with IN-lists and calls) and the '
                   'SQLite-style evaluator `ev` as the meaning of SQL text (cross-checked against SQLite by execution); typed '
                   'tokens (binary `-` vs prefix `-` are told apart by position, as every SQL parser does).'),
    'rule': ('cases = source trees (NumE/BoolE) over columns a,b and small int constants, evaluated on a 25-row table holding every '
             'pair over {NULL,-1,0,1,2}; exhaustive: every tree of depth <= 1, every (parent operator, child operators) shape of '
             'depth 2 with several leaf assignments; seeded random trees up to depth 6; distinct = distinct serialised tree; '
             'non-trivial = the tree has at least one operator below the root.  Every tree runs on one of six CLASS CONFIGURATIONS holding the '
             'same rows (written by bound parameters): declared columns; sqlmeta.fromDatabase over TINYINT(1)/SMALLINT/REAL and over INT(11)/BIGINT/FLOAT '
             'tables; sqlmeta.addColumn; explicit dbName/table; an InheritableSQLObject child (columns in two tables) — the corpus and every direct '
             '==/!= comparison of depth <= 1 on all six.  Clause-plumbing stream: select(A).filter(C), chained / repeated filters, connection=, count(), '
             'one-piece AND/OR/NOT, sqlbuilder.Select.filter, with C a boolean tree or a plain Python constant (False, True, 0, 1, 2, -1, 0.0, 0.5, None)'),
    'trusted': ['reference SQL expression grammar + SQLite-style three-valued evaluator (Model/Expr.lean parseExpr/ev), validated against SQLite by execution',
                'spelling table SQL operator string -> meaning (ExprSyn.lean BinOp.spell / extractor BIN table)',
                'mysql/postgres/firebird/sybase/maxdb/mssql parsers are not available: their renderings are compared token-wise and read by the reference parsers only'],
    'modelled': ['SQLite expression parser and evaluator (executed, not verified)',
                 'translated-source theorems: Python semantics of the fragment (Model/PyExpr.lean), operator dispatch / method '
                 'resolution / sqlrepr dispatch (Model/ExprX.lean binopX, cmpX, findMethod, sqlreprD); parameters: table / field '
                 'names, repr of int / float, the column from_python conversion (identity on the compared constants in the whole-tree '
                 'theorems); Spells relates tokens to text (that the text lexes back to exactly these tokens is the tokeniser of this harness)',
                 'sqlbuilder.Select is translated (vlib/extractors/pysel.py -> Extracted/PySel.lean, embedding Model/PySel.lean with a HEAP for '
                 'the ops dict, instantiation Model/SelX.lean): __init__, clone (C03_translated_Select_clone_fresh: deriving never writes a cell '
                 'that existed before), the derivers, filter (= AND of the clauses, C03_translated_Select_filter_eq_model / _filter_sound), '
                 'tablesUsedSet / components / tablesUsedImmediate (C03_translated_tablesUsed_eq_model; list operands are not descended into) and '
                 '_str_or_sqlrepr are proved for all inputs; Select.__sqlrepr__ (25 statements, 4 loops) is composed into '
                 'C03_translated_Select_sqlrepr_eq_model for Selects without joins / GROUP BY / HAVING / ORDER BY / DISTINCT ON and with all '
                 'columns (SELECT [DISTINCT] items [FROM sorted tables] [WHERE clause], LIMIT hand-off to '
                 'dbConnectionForScheme(db)._queryAddLimitOffset = parameter, FOR UPDATE), C03_translated_Select_sqlrepr_nodes on the model '
                 '(texts = renderS, tables = tablesS) and C03_translated_INSubquery_sqlrepr_eq_model (IN (subselect)); the join / GROUP BY / '
                 'HAVING / ORDER BY / lazyColumns branches are translated but outside the proved domain (ORDER BY: C11); the token grammar '
                 'of the hand model has no subselect production: a subselect is covered at text level + C03_parse_render_translated_where, and '
                 'by the oracle-only subquery stream; two-table stream: clauses naming another class\'s id / column on a plain class and on the '
                 'inheritance child (join evaluated in Python); '
                 'hand-written: argument binding with defaults (bindParams), hasattr / method resolution along the class chain, sorted() order',
                 'Python reflected-operator dispatch (int <op> expr) and IntCol.from_python on ints (identity)',
                 'integer arithmetic is unbounded in the model; cases whose intermediate values leave int64 are skipped'],
    'assumptions': ['well-typed fragment only: operands of arithmetic/comparison are numeric, operands of AND/OR/NOT are boolean; '
                    'outside it (INSubquery / LIKE with a NOT… or parenthesis-starting left operand) the renderer does not parenthesise',
                    '`x IN ()` (empty list) is rendered as such: SQLite evaluates it to false; MySQL/PostgreSQL reject it as a syntax error (not executable here)',
                    '`int % expr` (SQLExpression.__rmod__ -> MOD(a, b) on every dialect) is outside the fragment',
                    'oracle-only (not in the Lean model): how a class obtains its columns (the six class configurations), SelectResults.filter / count, '
                    'and plain Python constants used as whole conditions; inheritance: a child-table column that occurs only inside an IN-list is kept off the '
                    'inheritance configuration (tablesUsed does not look into lists: OperationalError, reported as a note)',
                    'float constants: the Lean model treats the literal as an atom whose value is the constant (in every number domain); '
                    'that the emitted text decodes to exactly that double and stays a REAL literal is checked on the real code for every case '
                    '(token stream: text -> float == constant; oracle: row selection on SQLite and the reference evaluator), not proved; '
                    'inf / nan constants are not generated (repr gives inf / nan, which no dialect accepts)',
                    '`IntCol == <float>` / `!=`: a whole-number float is normalised to its int, a fractional one is refused (Invalid) — modelled by `coerce`, '
                    'theorem C03_coerce_keeps_meaning under WholeOk (the whole-number literal compares like its integer; the harness checks float(int) == constant)'],
    'exhaustive': False,
}

DIALECTS = ['sqlite', 'mysql', 'postgres', 'firebird', 'sybase', 'maxdb', 'mssql']
VALS = [None, -1, 0, 1, 2]
CONSTS = [-1, 0, 2]
X03 = 0.1 + 0.2                      # 0.30000000000000004: needs 17 significant digits
P53 = 2.0 ** 53
# values of the REAL column f (bound as parameters, never rendered by the library): neighbours of the constants
FVALS = [None, 0.3, X03, 0.5, -2.0, P53, P53 - 1.0, 1e-07, 1.5, 2.0, 1e300, -0.1, 1.0]
# float constants: integral, fractional, 17-digit, at the edge of exact integers, negative, large / small exponents
FCONSTS = [2.0, 0.5, X03, P53, -2.0, 0.3, 1e-07, 1e300, 4.0, 1.5, P53 - 1.0, -0.1, 5e-324, 1e22, -1e-300, 123456789.12345679, 0.8]
FEX = [2.0, 0.5, X03, -2.0, P53]     # the ones used in the exhaustive small scope
FMAG = sorted(set(abs(x) for x in FCONSTS))
FID = {m: i for i, m in enumerate(FMAG)}
AR = ['add', 'sub', 'mul', 'div', 'mod']
CMP = ['lt', 'le', 'gt', 'ge', 'eq', 'ne']
AR_SPELL = {'add': '+', 'sub': '-', 'mul': '*', 'div': '/', 'mod': '%'}
CMP_SPELL = {'lt': '<', 'le': '<=', 'gt': '>', 'ge': '>=', 'eq': '=', 'ne': '<>'}
BIG = 1 << 62

_env = {}


CONFIGS = ['declared', 'fromdb-tinyint', 'fromdb-int', 'addcolumn', 'dbname', 'inherit']


def _fill(cfg, raw_of):
    """the 25 rows are written with bound parameters, straight to the tables: exact, and independent of the class
    under test (its validators, its sqlrepr)"""
    rows = []
    for a in VALS:
        for b in VALS:
            rows.append((len(rows) + 1, a, b, FVALS[len(rows) % len(FVALS)]))
    raw = raw_of(cfg['conn'])
    for table, cols in cfg['fill']:
        sql = 'INSERT INTO %s (%s) VALUES (%s)' % (table, ', '.join(c for c, _ in cols), ', '.join('?' for _ in cols))
        for rid, a, b, f in rows:
            vals = {'id': rid, 'a': a, 'b': b, 'f': f}
            raw.execute(sql, tuple(vals[k] if k in vals else k[1:] for _, k in cols))
    raw.commit()
    return rows


def env():
    """several ways of getting a class and its `q` fields — the property must hold for each:
    declared columns; columns read from an existing table (sqlmeta.fromDatabase) whose integer columns are spelled
    TINYINT(1) / SMALLINT resp. INT(11) / BIGINT; columns added after the class statement (sqlmeta.addColumn);
    explicit dbName / table name; a child of an InheritableSQLObject whose columns live in two tables.
    Every table holds the same 25 rows (same ids)."""
    if _env:
        return _env
    sqlo.setup()
    from sqlobject import SQLObject, IntCol, FloatCol
    from sqlobject.inheritance import InheritableSQLObject
    from sqlobject.sqlbuilder import sqlrepr
    conn = sqlo.mem_conn()          # shared by the first four configurations (a second class on the same connection)
    conn2 = sqlo.mem_conn()
    cfgs = []

    def add(name, cls, conn_, table=None, rawfrom=None, fill=None):
        table = table or cls.sqlmeta.table
        cfgs.append({'name': name, 'cls': cls, 'conn': conn_, 'table': table,
                     'fill': fill or [(table, [('id', 'id'), ('a', 'a'), ('b', 'b'), ('f', 'f')])],
                     'rawfrom': rawfrom or ('SELECT id, %%s FROM %s ORDER BY id' % table)})

    cls = type(sqlo.uniq('C03T'), (SQLObject,), {'_connection': conn, 'a': IntCol(default=None), 'b': IntCol(default=None),
                                                 'f': FloatCol(default=None)})
    cls.createTable()
    add('declared', cls, conn)
    for name, tbl, ta, tb, tf in (('fromdb-tinyint', 'c03_shared_flags', 'TINYINT(1)', 'SMALLINT', 'REAL'),
                                  ('fromdb-int', 'c03_shared_ints', 'INT(11)', 'BIGINT', 'FLOAT')):
        conn.query('CREATE TABLE %s (id INTEGER PRIMARY KEY AUTOINCREMENT, a %s, b %s, f %s)' % (tbl, ta, tb, tf))
        meta = type('sqlmeta', (), {'fromDatabase': True, 'table': tbl})
        cls = type(sqlo.uniq('C03Db'), (SQLObject,), {'_connection': conn, 'sqlmeta': meta})
        add(name, cls, conn)
    cls = type(sqlo.uniq('C03Add'), (SQLObject,), {'_connection': conn})
    cls.sqlmeta.addColumn(IntCol('a', default=None))
    cls.sqlmeta.addColumn(FloatCol('f', default=None))
    cls.sqlmeta.addColumn(IntCol('b', default=None))
    cls.createTable()
    add('addcolumn', cls, conn)
    meta = type('sqlmeta', (), {'table': 'c03_Named'})
    cls = type(sqlo.uniq('C03Nm'), (SQLObject,), {'_connection': conn2, 'sqlmeta': meta, 'a': IntCol(default=None, dbName='first_val'),
                                                  'b': IntCol(default=None, dbName='SecondVal'),
                                                  'f': FloatCol(default=None, dbName='real_val')})
    cls.createTable()
    add('dbname', cls, conn2, fill=[('c03_Named', [('id', 'id'), ('first_val', 'a'), ('SecondVal', 'b'), ('real_val', 'f')])])
    parent = type(sqlo.uniq('C03Par'), (InheritableSQLObject,), {'_connection': conn2, 'a': IntCol(default=None)})
    child = type(sqlo.uniq('C03Chi'), (parent,), {'_connection': conn2, 'b': IntCol(default=None), 'f': FloatCol(default=None)})
    parent.createTable()
    child.createTable()
    pt, ct = parent.sqlmeta.table, child.sqlmeta.table
    add('inherit', child, conn2, table=ct,
        fill=[(pt, [('id', 'id'), ('a', 'a'), ('child_name', '=' + child.__name__)]), (ct, [('id', 'id'), ('b', 'b'), ('f', 'f')])],
        rawfrom='SELECT %s.id, %%s FROM %s, %s WHERE %s.id = %s.id ORDER BY %s.id' % (pt, pt, ct, pt, ct, pt))
    assert [c['name'] for c in cfgs] == CONFIGS
    colmap = {}
    rows = None
    for cfg in cfgs:
        r = _fill(cfg, lambda c: c.getConnection())
        assert rows is None or r == rows, 'the configurations must hold the same rows'
        rows = r
        q = cfg['cls'].q
        colmap.update({sqlrepr(q.a, 'sqlite'): 'c0', sqlrepr(q.b, 'sqlite'): 'c1', sqlrepr(q.f, 'sqlite'): 'c2'})
        cfg['conn'].cache.clear()
    raw = conn.getConnection()
    # the float literals the run uses must be decoded exactly by this SQLite (its text->double conversion is not ours)
    for m in FMAG:
        ok = raw.execute('SELECT %s = ?, typeof(%s)' % (repr(m), repr(m)), (m,)).fetchone()
        assert ok == (1, 'real'), ('SQLite does not decode %r exactly' % m, ok)
    _env.update(cfgs=cfgs, rows=rows, colmap=colmap)
    set_cfg(0)
    return _env


def _cols(t, in_list, acc):
    if isinstance(t, list):
        for x in t:
            _cols(x, True, acc)
    elif isinstance(t, tuple):
        if t[0] == 'c':
            acc.add((t[1], in_list))
        else:
            for x in t[1:]:
                _cols(x, in_list, acc)


def child_only_in_lists(t):
    """columns of the CHILD table (b, f) occur in the tree, but only inside IN-lists.  sqlbuilder's tablesUsed does not look
    into list operands, so the inheritance select leaves the child table (and the join) out and SQLite reports
    'no such column' — loud, and a matter of the inheritance select rather than of expression rendering: such trees are
    run on another configuration; see the directed probe in run()."""
    acc = set()
    _cols(t, False, acc)
    inside = {c for c, l in acc if l and c in (1, 2)}
    outside = {c for c, l in acc if not l and c in (1, 2)}
    return bool(inside) and not outside


def set_cfg(i):
    """make configuration i the current one (class, connection, table used by build_real / run_impl)"""
    c = _env['cfgs'][i]
    _env.update(cfg=i, cfgname=c['name'], cls=c['cls'], conn=c['conn'], table=c['table'], rawfrom=c['rawfrom'])


# --------------------------------------------------------------------------- trees
def is_num(t):
    return t[0] in ('c', 'k', 'f', 'ar', 'neg', 'pos', 'b2i')


def ser(t):
    k = t[0]
    if k == 'c':
        return ('r%d' if t[1] == 2 else 'c%d') % t[1]
    if k == 'k':
        return 'k%d' % t[1]
    if k == 'f':
        m = abs(t[1])
        if m == int(m):
            # a whole-number float: the model is told which whole number (checked here: float(int) is the constant)
            assert float(int(m)) == m
            return '%s%d:%d' % ('W' if t[1] < 0 else 'w', FID[m], int(m))
        return '%s%d' % ('F' if t[1] < 0 else 'f', FID[m])
    if k == 'ar' or k == 'cmp':
        return '%s %s %s %s' % (k, t[1], ser(t[2]), ser(t[3]))
    if k in ('neg', 'pos', 'b2i', 'not~', 'NOT', 'isnull', 'isnotnull', 'eqnone', 'nenone'):
        return '%s %s' % (k, ser(t[1]))
    if k in ('and&', 'or|'):
        return '%s %s %s' % (k, ser(t[1]), ser(t[2]))
    if k in ('AND', 'OR'):
        return '%s %d %s' % (k, len(t[1]), ' '.join(ser(e) for e in t[1]))
    if k in ('insub', 'notinsub'):
        return '%s %s q%d' % (k, ser(t[1]), t[2])
    if k in ('in', 'notin'):
        return ' '.join([k, ser(t[1]), str(len(t[2]))] + ['N' if i is None else ser(i) for i in t[2]])
    raise ValueError(k)


def depth(t):
    k = t[0]
    if k in ('c', 'k', 'f'):
        return 0
    subs = []
    for x in t[1:]:
        if isinstance(x, tuple):
            subs.append(depth(x))
        elif isinstance(x, list):
            subs += [depth(i) for i in x if i is not None]
    return 1 + max(subs or [0])


def size(t):
    n = 1
    for x in t[1:]:
        if isinstance(x, tuple):
            n += size(x)
        elif isinstance(x, list):
            n += sum(size(i) if i is not None else 1 for i in x)
    return n


_subq = {}


def subqueries():
    """fixed sub-selects over column b for the oracle-only IN-subquery stream: (Select, values)"""
    e = env()
    if e['cfg'] not in _subq:
        from sqlobject import sqlbuilder as sb
        q = e['cls'].q
        bs = [b for _, _, b, _ in e['rows']]
        _subq[e['cfg']] = [(sb.Select([q.b], where=(q.b != None)), [b for b in bs if b is not None]),  # noqa: E711
                           (sb.Select([q.b]), bs),
                           (sb.Select([q.b], where=(q.b > 5)), [])]
    return _subq[e['cfg']]


# --------------------------------------------------------------------------- real construction
def build_real(t, flip=0):
    """build through the real overloaded operators / functions.  Two plain ints never reach sqlbuilder through an
    operator, so the node constructor the operator would have called is used directly for them."""
    from sqlobject import sqlbuilder as sb
    cls = env()['cls']
    k = t[0]
    if k == 'c':
        return (cls.q.a, cls.q.b, cls.q.f)[t[1]]
    if k in ('k', 'f'):
        return t[1]
    if k == 'ar':
        l, r = build_real(t[2], flip), build_real(t[3], flip)
        op = t[1]
        if op == 'mod':
            if isinstance(l, sb.SQLExpression):
                return l % r
            return sb.SQLModulo(l, r)
        if not isinstance(l, sb.SQLExpression) and not isinstance(r, sb.SQLExpression):
            return sb.SQLOp(AR_SPELL[op], l, r)
        if op == 'add':
            return l + r
        if op == 'sub':
            return l - r
        if op == 'mul':
            return l * r
        return l / r
    if k == 'b2i':
        # a boolean expression used where a number is expected: same object, SQL reads it as 0 / 1 / NULL
        return build_real(t[1], flip)
    if k == 'neg':
        x = build_real(t[1], flip)
        return -x if isinstance(x, sb.SQLExpression) else sb.SQLPrefix('-', x)
    if k == 'pos':
        x = build_real(t[1], flip)
        return +x if isinstance(x, sb.SQLExpression) else sb.SQLPrefix('+', x)
    if k == 'cmp':
        l, r = build_real(t[2], flip), build_real(t[3], flip)
        op = t[1]
        if not isinstance(l, sb.SQLExpression) and not isinstance(r, sb.SQLExpression):
            return sb.SQLOp(CMP_SPELL[op], l, r)
        if op == 'lt':
            return l < r
        if op == 'le':
            return l <= r
        if op == 'gt':
            return l > r
        if op == 'ge':
            return l >= r
        if op == 'eq':
            return l == r
        return l != r
    if k == 'and&':
        return build_real(t[1], flip) & build_real(t[2], flip)
    if k == 'or|':
        return build_real(t[1], flip) | build_real(t[2], flip)
    if k == 'AND':
        return sb.AND(*[build_real(e, flip) for e in t[1]])
    if k == 'OR':
        return sb.OR(*[build_real(e, flip) for e in t[1]])
    if k == 'not~':
        return ~build_real(t[1], flip)
    if k == 'NOT':
        return sb.NOT(build_real(t[1], flip))
    if k in ('in', 'notin'):
        items = [None if i is None else build_real(i, flip) for i in t[2]]
        if flip % 2:
            items = tuple(items)
        x = build_real(t[1], flip)
        return sb.IN(x, items) if k == 'in' else sb.NOTIN(x, items)
    if k in ('insub', 'notinsub'):
        x = build_real(t[1], flip)
        sel = subqueries()[t[2]][0]
        return sb.IN(x, sel) if k == 'insub' else sb.NOTIN(x, sel)
    if k == 'isnull':
        return sb.ISNULL(build_real(t[1], flip))
    if k == 'isnotnull':
        return sb.ISNOTNULL(build_real(t[1], flip))
    if k == 'eqnone':
        x = build_real(t[1], flip)
        return (x == None) if isinstance(x, sb.SQLExpression) else sb.ISNULL(x)  # noqa: E711
    if k == 'nenone':
        x = build_real(t[1], flip)
        return (x != None) if isinstance(x, sb.SQLExpression) else sb.ISNOTNULL(x)  # noqa: E711
    raise ValueError(k)


# --------------------------------------------------------------------------- reference three-valued evaluation
class Overflow(Exception):
    pass


def chk(v):
    if v is not None and abs(v) > BIG:
        raise Overflow()
    return v


def tdiv(a, b):
    q = abs(a) // abs(b)
    return q if (a >= 0) == (b >= 0) else -q


def fl(v):
    """a REAL result: NaN is NULL in SQLite"""
    return None if v != v else v


def to_int(v):
    """SQLite CAST(real AS INTEGER): truncation (out of int64 range: not modelled -> skip the case)"""
    if isinstance(v, int):
        return v
    if v != v or abs(v) >= 9e18:
        raise Overflow()
    return int(v)


def ar_sem(op, a, b):
    """SQLite: INTEGER op INTEGER is integer arithmetic (/ truncates), anything with a REAL is IEEE double
    arithmetic; division by zero is NULL; % works on the operands cast to INTEGER"""
    if a is None or b is None:
        return None
    real = isinstance(a, float) or isinstance(b, float)
    if op == 'mod':
        ia, ib = to_int(a), to_int(b)
        if ib == 0:
            return None
        m = ia - ib * tdiv(ia, ib)
        return float(m) if real else m
    if not real:
        if op == 'add':
            return chk(a + b)
        if op == 'sub':
            return chk(a - b)
        if op == 'mul':
            return chk(a * b)
        if b == 0:
            return None
        return tdiv(a, b)
    a, b = float(a), float(b)
    if op == 'add':
        return fl(a + b)
    if op == 'sub':
        return fl(a - b)
    if op == 'mul':
        return fl(a * b)
    if b == 0:
        return None
    return fl(a / b)


def cmp_sem(op, a, b):
    if a is None or b is None:
        return None
    return {'lt': a < b, 'le': a <= b, 'gt': a > b, 'ge': a >= b, 'eq': a == b, 'ne': a != b}[op]


def and3(xs):
    if any(x is False for x in xs):
        return False
    if any(x is None for x in xs):
        return None
    return True


def or3(xs):
    if any(x is True for x in xs):
        return True
    if any(x is None for x in xs):
        return None
    return False


def not3(x):
    return None if x is None else (not x)


def in_sem(x, ys):
    if not ys:
        return False
    if x is None:
        return None
    if any(y is not None and y == x for y in ys):
        return True
    if any(y is None for y in ys):
        return None
    return False


def ev(t, row):
    k = t[0]
    if k == 'c':
        return row[t[1]]
    if k in ('k', 'f'):
        return t[1]
    if k == 'ar':
        return ar_sem(t[1], ev(t[2], row), ev(t[3], row))
    if k == 'neg':
        v = ev(t[1], row)
        return None if v is None else -v
    if k == 'pos':
        return ev(t[1], row)
    if k == 'b2i':
        v = ev(t[1], row)
        return None if v is None else int(v)
    if k == 'cmp':
        return cmp_sem(t[1], ev(t[2], row), ev(t[3], row))
    if k == 'and&':
        return and3([ev(t[1], row), ev(t[2], row)])
    if k == 'or|':
        return or3([ev(t[1], row), ev(t[2], row)])
    if k == 'AND':
        return and3([ev(e, row) for e in t[1]])
    if k == 'OR':
        return or3([ev(e, row) for e in t[1]])
    if k in ('not~', 'NOT'):
        return not3(ev(t[1], row))
    if k in ('in', 'notin'):
        v = in_sem(ev(t[1], row), [None if i is None else ev(i, row) for i in t[2]])
        return v if k == 'in' else not3(v)
    if k in ('insub', 'notinsub'):
        v = in_sem(ev(t[1], row), subqueries()[t[2]][1])
        return v if k == 'insub' else not3(v)
    if k in ('isnull', 'eqnone'):
        return ev(t[1], row) is None
    if k in ('isnotnull', 'nenone'):
        return ev(t[1], row) is not None
    raise ValueError(k)


def show3(v):
    return 'N' if v is None else ('T' if v else 'F')


# --------------------------------------------------------------------------- tokeniser + independent SQL parser
_tok_re = re.compile(r'\s*(\(|\)|,|<=|>=|<>|!=|==|=|<|>|\+|-|\*|/|%|[A-Za-z_][A-Za-z_0-9.]*'
                     r'|\d+\.\d*(?:[eE][-+]?\d+)?|\.\d+(?:[eE][-+]?\d+)?|\d+[eE][-+]?\d+|\d+)')
_real_re = re.compile(r'^(\d+\.\d*(?:[eE][-+]?\d+)?|\.\d+(?:[eE][-+]?\d+)?|\d+[eE][-+]?\d+)$')
_flit_re = re.compile(r'^f(\d+)$')


def canon_literal(tok):
    """a REAL literal whose text decodes to exactly one of the run's float constants becomes `f<n>` (what the
    model prints for it); any other text stays as it is (and then differs from the model's token)"""
    if _real_re.match(tok):
        v = float(tok)
        if v in FID:
            return 'f%d' % FID[v]
    return tok


def tokenise(sql):
    """SQL-style lexing; returns (tokens, problem)"""
    if '--' in sql or '/*' in sql:
        return None, 'comment opener in the text'
    colmap = env()['colmap']
    out = []
    pos = 0
    sql = sql.rstrip()
    while pos < len(sql):
        m = _tok_re.match(sql, pos)
        if not m:
            return None, 'cannot lex at %d' % pos
        tok = m.group(1)
        out.append(colmap.get(tok, canon_literal(tok)))
        pos = m.end()
    return out, None


class ParseError(Exception):
    pass


# the usual SQL binding powers (SQLite's documented table)
_BIN = {'OR': 1, 'AND': 2, '=': 4, '<>': 4, '!=': 4, '==': 4, 'IS': 4, 'IN': 4, '<': 5, '<=': 5, '>': 5, '>=': 5,
        '+': 6, '-': 6, '*': 7, '/': 7, '%': 7}
_PRE = {'NOT': 3, '-': 9, '+': 9}


class RefParser:
    """independent precedence-climbing parser over the token list; yields an untyped AST evaluated by `ev_ast`."""

    def __init__(self, toks):
        self.t = toks
        self.i = 0

    def peek(self):
        return self.t[self.i] if self.i < len(self.t) else None

    def take(self, want=None):
        tok = self.peek()
        if tok is None or (want is not None and tok != want):
            raise ParseError('expected %s at %d, got %s' % (want, self.i, tok))
        self.i += 1
        return tok

    def expr(self, m):
        lhs = self.prim()
        while True:
            tok = self.peek()
            if tok not in _BIN or _BIN[tok] < m:
                return lhs
            self.take()
            if tok == 'IS':
                neg = False
                if self.peek() == 'NOT':
                    self.take()
                    neg = True
                rhs = self.expr(_BIN[tok] + 1)
                lhs = ('isnot' if neg else 'is', lhs, rhs)
            elif tok == 'IN':
                lhs = ('in', lhs, self.plist())
            else:
                rhs = self.expr(_BIN[tok] + 1)
                lhs = ('bin', tok, lhs, rhs)

    def plist(self):
        self.take('(')
        items = []
        if self.peek() == ')':
            self.take()
            return items
        while True:
            items.append(self.expr(0))
            if self.peek() == ',':
                self.take()
                continue
            self.take(')')
            return items

    def prim(self):
        tok = self.take()
        if tok == '(':
            e = self.expr(0)
            self.take(')')
            return e
        if tok in _PRE:
            return ('pre', tok, self.expr(_PRE[tok]))
        if tok == 'NULL':
            return ('null',)
        if tok.isdigit():
            return ('num', int(tok))
        m = _flit_re.match(tok)
        if m:
            return ('num', FMAG[int(m.group(1))])
        if _real_re.match(tok):
            return ('num', float(tok))
        if tok in ('c0', 'c1', 'c2'):
            return ('col', int(tok[1]))
        if tok == 'MOD':
            args = self.plist()
            if len(args) != 2:
                raise ParseError('MOD arity')
            return ('bin', '%', args[0], args[1])
        raise ParseError('unexpected %s' % tok)


def ref_parse(toks):
    p = RefParser(toks)
    e = p.expr(0)
    if p.i != len(toks):
        raise ParseError('trailing tokens at %d' % p.i)
    return e


def ev_ast(a, row):
    """SQLite-style evaluation of the untyped AST: ints, booleans as 0/1, None = NULL"""
    k = a[0]
    if k == 'null':
        return None
    if k == 'num':
        return a[1]
    if k == 'col':
        return row[a[1]]
    if k == 'pre':
        v = ev_ast(a[2], row)
        if a[1] == 'NOT':
            return None if v is None else int(v == 0)
        if v is None:
            return None
        return -v if a[1] == '-' else v
    if k in ('is', 'isnot'):
        x, y = ev_ast(a[1], row), ev_ast(a[2], row)
        same = (x is None and y is None) or (x is not None and y is not None and x == y)
        return int(same if k == 'is' else not same)
    if k == 'in':
        v = in_sem(ev_ast(a[1], row), [ev_ast(i, row) for i in a[2]])
        return None if v is None else int(v)
    op, x, y = a[1], ev_ast(a[2], row), ev_ast(a[3], row)
    if op in ('AND', 'OR'):
        tx = None if x is None else (x != 0)
        ty = None if y is None else (y != 0)
        v = and3([tx, ty]) if op == 'AND' else or3([tx, ty])
        return None if v is None else int(v)
    if x is None or y is None:
        return None
    if op in ('+', '-', '*', '/', '%'):
        return ar_sem({'+': 'add', '-': 'sub', '*': 'mul', '/': 'div', '%': 'mod'}[op], x, y)
    return int({'=': x == y, '==': x == y, '<>': x != y, '!=': x != y, '<': x < y, '<=': x <= y, '>': x > y, '>=': x >= y}[op])


_eqnull_re = re.compile(r'(=|<>|!=)\s*\(?\s*NULL\b')


def text_problems(sql):
    out = []
    if _eqnull_re.search(sql):
        out.append('eq-null')
    depth_ = 0
    for ch in sql:
        if ch == '(':
            depth_ += 1
        elif ch == ')':
            depth_ -= 1
            if depth_ < 0:
                break
    if depth_ != 0:
        out.append('unbalanced-parens')
    return out


# --------------------------------------------------------------------------- running one tree on the real code
def run_impl(t, flip=0):
    """returns dict: texts per dialect (or 'error:<name>'), selected ids, three-valued column from SQLite"""
    from sqlobject.sqlbuilder import sqlrepr
    e = env()
    res = {'texts': {}, 'ids': None, 'vals': None}
    try:
        expr = build_real(t, flip)
    except Exception as ex:
        res['build_error'] = type(ex).__name__
        return res
    for d in DIALECTS:
        try:
            res['texts'][d] = sqlrepr(expr, d)
        except Exception as ex:
            res['texts'][d] = 'error:%s' % type(ex).__name__
    try:
        res['ids'] = sorted(o.id for o in e['cls'].select(expr))
    except Exception as ex:
        res['ids'] = 'error:%s' % type(ex).__name__
    txt = res['texts'].get('sqlite', 'error')
    if not txt.startswith('error'):
        try:
            q = e['rawfrom'].replace('%s', txt)
            res['vals'] = [(r[0], r[1]) for r in e['conn'].queryAll(q)]
        except Exception as ex:
            res['vals'] = 'error:%s' % type(ex).__name__
    return res


def has_sub(t):
    if isinstance(t, tuple):
        return t[0] in ('insub', 'notinsub') or any(has_sub(x) for x in t[1:])
    if isinstance(t, list):
        return any(has_sub(x) for x in t)
    return False


def oracle(t, res, text_level=True):
    """list of (kind, text) property failures of the implementation on tree t (independent of the Lean model)"""
    e = env()
    fails = []
    if 'build_error' in res:
        if res['build_error'] == 'Invalid' and refused(t):
            return []       # a refusal of a constant the column cannot hold is an allowed outcome; nothing is selected wrongly
        return [('build-error', 'constructing the expression raised %s' % res['build_error'])]
    if refused(t):
        fails.append(('not-refused', 'IntCol ==/!= a float with a fractional part was accepted: %s' % res['texts'].get('sqlite')))
    try:
        want = [(rid, ev(t, (a, b, f))) for rid, a, b, f in e['rows']]
    except Overflow:
        return None
    want_ids = sorted(rid for rid, v in want if v is True)
    if res['ids'] != want_ids:
        fails.append(('wrong-rows', 'select(expr) returned ids %s, three-valued evaluation of the tree selects %s; SQL: %s'
                      % (res['ids'], want_ids, res['texts'].get('sqlite'))))
    if isinstance(res['vals'], str) or res['vals'] is None:
        fails.append(('sqlite-error', 'SQLite rejects the rendered expression (%s): %s' % (res['vals'], res['texts'].get('sqlite'))))
    else:
        got = ''.join(show3(None if v is None else (v != 0)) for _, v in res['vals'])
        exp = ''.join(show3(v) for _, v in want)
        if got != exp:
            fails.append(('wrong-value', 'SQLite evaluates the rendered expression per row to %s, the tree means %s; SQL: %s'
                          % (got, exp, res['texts'].get('sqlite'))))
    exp = ''.join(show3(v) for _, v in want)
    done = {}
    for d in (DIALECTS if text_level else []):
        txt = res['texts'][d]
        if txt in done:
            # same text as an earlier dialect: same findings, reported once
            continue
        done[txt] = d
        if txt.startswith('error:'):
            fails.append(('render-error', 'sqlrepr(expr, %r) raised %s' % (d, txt[6:])))
            continue
        for p in text_problems(txt):
            fails.append((p, 'dialect %s: %s in %s' % (d, p, txt)))
        toks, prob = tokenise(txt)
        if toks is None:
            fails.append(('lex', 'dialect %s: %s: %s' % (d, prob, txt)))
            continue
        try:
            ast_ = ref_parse(toks)
            got = ''.join(show3(None if v is None else (v != 0)) for v in (ev_ast(ast_, (a, b, f)) for _, a, b, f in e['rows']))
        except ParseError as ex:
            fails.append(('unparsable', 'dialect %s: the reference SQL parser rejects %s (%s)' % (d, txt, ex)))
            continue
        except Overflow:
            continue
        if got != exp:
            fails.append(('captured', 'dialect %s: read with SQL precedences the text %s means %s per row, the tree means %s'
                          % (d, txt, got, exp)))
    return fails



# --------------------------------------------------------------------------- object re-use (non-mutation)
REUSE_DIRECTED = [
    (('or|', ('cmp', 'gt', ('c', 0), ('k', 1)), ('eqnone', ('c', 0))), ('cmp', 'eq', ('c', 1), ('k', 2))),
    (('cmp', 'le', ('c', 0), ('k', 0)), ('isnotnull', ('c', 1))),
    (('in', ('c', 1), [('k', 0), ('k', 2), None]), ('cmp', 'ne', ('c', 0), ('k', 2))),
]


def run_reuse(tA, tC, flip=0):
    """derive expressions / Selects from a base expression A and a base Select(where=A), then use the BASE again:
    rendering or deriving must not change an object that was built earlier.  Oracle = three-valued evaluation of the
    source trees (independent of the Lean model).  Returns a list of (kind, text), or None (not evaluable)."""
    from sqlobject import sqlbuilder as sb
    from sqlobject.sqlbuilder import sqlrepr
    e = env()
    cls, conn = e['cls'], e['conn']
    q = cls.q
    try:
        wa = [(rid, ev(tA, (a, b, f))) for rid, a, b, f in e['rows']]
        wc = [(rid, ev(tC, (a, b, f))) for rid, a, b, f in e['rows']]
    except Overflow:
        return None
    ids_a = sorted(rid for rid, v in wa if v is True)
    ids_c = sorted(rid for rid, v in wc if v is True)
    ids_ac = sorted(rid for (rid, va), (_, vc) in zip(wa, wc) if va is True and vc is True)
    try:
        A = build_real(tA, flip)
        C = build_real(tC, flip)
    except Exception:
        return []           # refusals / construction errors belong to the main stream
    fails = []

    def run_sql(sel):
        return sorted(r[0] for r in conn.queryAll(sqlrepr(sel, 'sqlite')))

    try:
        before = dict((d, sqlrepr(A, d)) for d in DIALECTS)
        before_c = dict((d, sqlrepr(C, d)) for d in DIALECTS)
        derived = [A & C, C | A, ~A, sb.AND(A, C), sb.OR(C, A, A), sb.NOT(A), A == None, A != None,  # noqa: E711
                   sb.ISNULL(A), sb.IN(A, [C, None]), sb.NOTIN(A, (C,)), A + C, A == C]
        for x in derived:
            for d in DIALECTS:
                sqlrepr(x, d)
        after = dict((d, sqlrepr(A, d)) for d in DIALECTS)
        after_c = dict((d, sqlrepr(C, d)) for d in DIALECTS)
        if after != before or after_c != before_c:
            d = [d for d in DIALECTS if after[d] != before[d] or after_c[d] != before_c[d]][0]
            fails.append(('expr-changed-by-deriving', 'an expression object renders differently after other expressions were '
                          'built from it: before %s / %s, after %s / %s' % (before[d], before_c[d], after[d], after_c[d])))
        # ---- Select level
        base = sb.Select([q.id], where=A)
        sql0 = sqlrepr(base, 'sqlite')
        got = run_sql(base)
        if got != ids_a:
            fails.append(('select-base', 'Select(where=expr) returns ids %s, the tree selects %s; SQL: %s' % (got, ids_a, sql0)))
        # `where` is the alias used only when no `clause` is given: with both, the clause is the condition
        both = sb.Select([q.id], where=A, clause=C)
        got = run_sql(both)
        if got != ids_c:
            fails.append(('select-where-and-clause', 'Select(where=A, clause=C) returns ids %s, C selects %s; SQL: %s'
                          % (got, ids_c, sqlrepr(both, 'sqlite'))))
        narrow = base.filter(C)
        other = base.newClause(C)
        same = [base.orderBy(q.id), base.newItems([q.id, q.a]), base.distinct(), base.unlimited(), base.lazyColumns(True),
                base.clone(), base.filter(None)]
        got = run_sql(narrow)
        if got != ids_ac:
            fails.append(('select-filter', 'base.filter(C) returns ids %s, A AND C selects %s; SQL: %s'
                          % (got, ids_ac, sqlrepr(narrow, 'sqlite'))))
        got = run_sql(other)
        if got != ids_c:
            fails.append(('select-newClause', 'base.newClause(C) returns ids %s, C selects %s; SQL: %s'
                          % (got, ids_c, sqlrepr(other, 'sqlite'))))
        for s_ in same:
            got = run_sql(s_)
            if got != ids_a:
                fails.append(('select-derived', 'a Select derived from base without changing the clause returns ids %s, the tree '
                              'selects %s; SQL: %s' % (got, ids_a, sqlrepr(s_, 'sqlite'))))
                break
        sql1 = sqlrepr(base, 'sqlite')
        got = run_sql(base)
        if got != ids_a:
            fails.append(('select-base-after-deriving', 'the BASE Select returns ids %s after other Selects were derived from it, '
                          'its tree selects %s; SQL before: %s; SQL after: %s' % (got, ids_a, sql0, sql1)))
        elif sql1 != sql0:
            fails.append(('select-base-text-changed', 'the BASE Select renders differently after deriving from it: %s / %s'
                          % (sql0, sql1)))
        got = sorted(o.id for o in cls.select(sb.IN(q.id, base)))
        if got != ids_a:
            fails.append(('select-base-as-subquery', 'select(IN(id, base)) returns ids %s after deriving from base, the tree selects %s'
                          % (got, ids_a)))
        got = sorted(o.id for o in cls.select(sb.IN(q.id, narrow)))
        if got != ids_ac:
            fails.append(('select-derived-as-subquery', 'select(IN(id, base.filter(C))) returns ids %s, A AND C selects %s' % (got, ids_ac)))
        got = run_sql(narrow)
        if got != ids_ac:
            fails.append(('select-filter-after-reuse', 'base.filter(C) returns ids %s when run again, A AND C selects %s' % (got, ids_ac)))
    except Exception as ex:
        fails.append(('reuse-error', 're-using / deriving raised %s: %s' % (type(ex).__name__, ex)))
    return fails

# --------------------------------------------------------------------------- clause plumbing and constant conditions
PYCONSTS = [False, True, 0, 1, 2, -1, 0.0, 0.5, None]


def truth_of(c):
    """SQL truth value of a plain Python constant used as a condition (None renders NULL: unknown)"""
    return None if c is None else bool(c)


def run_plumbing(tA, C, flip=0):
    """the ways a condition reaches the WHERE clause must agree with the tree: select(A).filter(C), chained filters,
    select(AND(A, C)) in one piece, sqlbuilder.Select(where=A).filter(C), count(); C is a boolean tree or a plain Python
    constant (False from a switch, 0 from a bit test, AND(*[c]) of a one-element list); tA may be None (select()).
    `filter(None)` is the documented no-op.  Oracle: three-valued evaluation.  Returns [(kind, text)] or None."""
    from sqlobject import sqlbuilder as sb
    from sqlobject.sqlbuilder import sqlrepr
    e = env()
    cls, conn = e['cls'], e['conn']
    const = not isinstance(C, tuple)
    try:
        va = [True if tA is None else ev(tA, (a, b, f)) for _, a, b, f in e['rows']]
        vc = [truth_of(C) if const else ev(C, (a, b, f)) for _, a, b, f in e['rows']]
    except Overflow:
        return None
    ids = [rid for rid, _, _, _ in e['rows']]
    both = sorted(rid for rid, x, y in zip(ids, va, vc) if and3([x, y]) is True)
    either = sorted(rid for rid, x, y in zip(ids, va, vc) if or3([y, x]) is True)
    only_a = sorted(rid for rid, x in zip(ids, va) if x is True)
    notc = sorted(rid for rid, x, y in zip(ids, va, vc) if and3([x, not3(y)]) is True)
    filt = only_a if (const and C is None) else both        # filter(None) does not filter
    try:
        A = None if tA is None else build_real(tA, flip)
        Cx = C if const else build_real(C, flip)
    except Exception:
        return []
    fails = []
    label = 'A = %s, C = %s' % ('-' if tA is None else ser(tA), repr(C) if const else ser(C))

    def ids_of(sel):
        return sorted(o.id for o in sel)

    def check(kind, what, got, want):
        if got != want:
            fails.append((kind, '%s returns ids %s, the tree selects %s (%s)' % (what, got[:40], want, label)))

    try:
        base = cls.select(A)
        r = base.filter(Cx)
        check('filter', 'select(A).filter(C)', ids_of(r), filt)
        n = r.count()
        if n != len(filt):
            fails.append(('filter-count', 'select(A).filter(C).count() is %d, the tree is true for %d rows (%s)' % (n, len(filt), label)))
        check('filter-base-after', 'select(A) after .filter(C) was derived from it', ids_of(base), only_a)
        check('filter-chain', 'select().filter(A).filter(C)', ids_of(cls.select().filter(A).filter(Cx)), filt)
        check('filter-chain-rev', 'select().filter(C).filter(A)', ids_of(cls.select().filter(Cx).filter(A)), filt)
        check('filter-connection', 'select(A, connection=conn).filter(C)', ids_of(cls.select(A, connection=conn).filter(Cx)), filt)
        check('filter-twice', 'select(A).filter(C).filter(C)', ids_of(base.filter(Cx).filter(Cx)), filt)
        if A is not None:
            check('and-fn', 'select(AND(A, C))', ids_of(cls.select(sb.AND(A, Cx))), both)
            check('and-op', 'select(A & C)', ids_of(cls.select(A & Cx)), both)
            check('or-fn', 'select(OR(C, A))', ids_of(cls.select(sb.OR(Cx, A))), either)
            check('and-not', 'select(AND(A, NOT(C)))', ids_of(cls.select(sb.AND(A, sb.NOT(Cx)))), notc)
            check('and-1', 'select(AND(*[A]).filter(AND(*[C])))', ids_of(cls.select(sb.AND(*[A])).filter(sb.AND(*[Cx]))), filt)
            if e['cfgname'] != 'inherit':      # a bare sqlbuilder.Select knows nothing of the parent/child join
                raw = sb.Select([cls.q.id], where=A).filter(Cx)
                got = sorted(x[0] for x in conn.queryAll(sqlrepr(raw, 'sqlite')))
                check('sqlbuilder-filter', 'sqlbuilder.Select(where=A).filter(C)', got, filt)
        elif not (const and C is None):
            check('select-const', 'select(C)', ids_of(cls.select(Cx)), sorted(rid for rid, y in zip(ids, vc) if y is True))
    except Exception as ex:
        fails.append(('plumbing-error', 'raised %s: %s (%s)' % (type(ex).__name__, ex, label)))
    return fails



# --------------------------------------------------------------------------- two-table clauses (a second class's columns)
OTHER_ROWS = [(1, 0), (2, None), (3, 2), (4, -1), (5, 1)]
_other = {}


def other_cls():
    """a second, plain class on the connection of the 'dbname' / 'inherit' configurations: id 1..5, one IntCol `v`"""
    if not _other:
        from sqlobject import SQLObject, IntCol
        conn2 = env()['cfgs'][CONFIGS.index('inherit')]['conn']
        cls = type(sqlo.uniq('C03Oth'), (SQLObject,), {'_connection': conn2, 'v': IntCol(default=None)})
        cls.createTable()
        for oid, v in OTHER_ROWS:
            o = cls(v=v)
            assert o.id == oid
        conn2.cache.clear()
        _other['cls'] = cls
    return _other['cls']


JOIN_ATOMS = ['b==oid', 'oid==b', 'a<oid', 'oid-in', 'oid!=b-not', 'v==k', 'v-isnull', 'oid==a+v']


def join_atom(kind, q, oq, sb):
    """(expression, reference predicate over (child row, other row)) for one atom mentioning the OTHER class"""
    if kind == 'b==oid':
        return q.b == oq.id, lambda r, o: cmp_sem('eq', r[1], o[0])
    if kind == 'oid==b':
        return oq.id == q.b, lambda r, o: cmp_sem('eq', o[0], r[1])
    if kind == 'a<oid':
        return q.a < oq.id, lambda r, o: cmp_sem('lt', r[0], o[0])
    if kind == 'oid-in':
        return sb.IN(oq.id, [1, 3]), lambda r, o: o[0] in (1, 3)
    if kind == 'oid!=b-not':
        return sb.NOT(oq.id != q.b), lambda r, o: not3(cmp_sem('ne', o[0], r[1]))
    if kind == 'v==k':
        return oq.v == 2, lambda r, o: cmp_sem('eq', o[1], 2)
    if kind == 'v-isnull':
        return oq.v == None, lambda r, o: o[1] is None  # noqa: E711
    if kind == 'oid==a+v':
        return oq.id == q.a + oq.v, lambda r, o: cmp_sem('eq', o[0], ar_sem('add', r[0], o[1]))
    raise ValueError(kind)


def run_join(kinds, t, how=0, alias=False):
    """Cls.select(<atoms mentioning another class's id / column> AND <tree over the class's own columns>): the ids
    returned must be those of the rows for which SOME row of the other table makes the conjunction true (three-valued).
    Oracle = Python evaluation of the join; independent of the Lean model."""
    from sqlobject import sqlbuilder as sb
    e = env()
    cls = e['cls']
    oc = other_cls()
    try:
        own = [(rid, (a, b, f), ev(t, (a, b, f))) for rid, a, b, f in e['rows']]
    except Overflow:
        return None
    # alias=True: the other class is named through Alias(Other, 'oth_al') — its fields are AliasFields (plain classes only:
    # on an inheritance child the alias's id is rewritten, open finding C03:inherit-alias-id-rewritten-to-parent-id)
    oq = sb.Alias(oc, 'oth_al').q if alias else oc.q
    atoms = [join_atom(k, cls.q, oq, sb) for k in kinds]
    want = set()
    for rid, r, tv in own:
        for o in OTHER_ROWS:
            if and3([pr(r, o) for _, pr in atoms] + [tv]) is True:
                want.add(rid)
                break
    want = sorted(want)
    try:
        parts = [x for x, _ in atoms] + [build_real(t)]
        if how == 0:
            clause = sb.AND(*parts)
        else:
            clause = parts[0]
            for x in parts[1:]:
                clause = clause & x
        sel = cls.select(clause)
        sql = str(sel)
        got = sorted(set(o.id for o in sel))
    except Exception as ex:
        return [('join-error', 'selecting with a clause over two classes raised %s: %s' % (type(ex).__name__, ex))]
    if got != want:
        return [('join-wrong-rows', 'select(%s AND tree) returned ids %s, the join evaluated in Python selects %s; SQL: %s'
                 % (' AND '.join(kinds), got, want, sql))]
    return []

# --------------------------------------------------------------------------- SQL-text base clauses
def clause_text(t, style):
    """SQL text of a tree as a user would write it: style 0 = the rendering with its outer pair of parentheses removed
    (`(a=1) OR (b=2)`: a top-level operator, the case 529092d repaired), style 1 = the full rendering"""
    from sqlobject.sqlbuilder import sqlrepr
    txt = sqlrepr(build_real(t), 'sqlite')
    if style == 0 and txt.startswith('('):
        depth_, end = 0, None
        for i, ch in enumerate(txt):
            depth_ += ch == '('
            depth_ -= ch == ')'
            if depth_ == 0:
                end = i
                break
        if end == len(txt) - 1:
            txt = txt[1:-1]
    return txt


def run_text_plumbing(tA, style, C, flip=0):
    """select(<SQL text of A>).filter(C) (and chained / repeated filters, count, connection=) selects exactly the rows
    on which A and C are both true: the text is ONE operand of the AND that filter() adds."""
    e = env()
    cls, conn = e['cls'], e['conn']
    const = not isinstance(C, tuple)
    try:
        va = [ev(tA, (a, b, f)) for _, a, b, f in e['rows']]
        vc = [truth_of(C) if const else ev(C, (a, b, f)) for _, a, b, f in e['rows']]
    except Overflow:
        return None
    ids = [rid for rid, _, _, _ in e['rows']]
    only_a = sorted(rid for rid, x in zip(ids, va) if x is True)
    both = sorted(rid for rid, x, y in zip(ids, va, vc) if and3([x, y]) is True)
    filt = only_a if (const and C is None) else both
    try:
        A = clause_text(tA, style)
        Cx = C if const else build_real(C, flip)
    except Exception:
        return []
    fails = []
    label = 'A = text %r, C = %s' % (A, repr(C) if const else ser(C))

    def ids_of(sel):
        return sorted(o.id for o in sel)

    def check(kind, what, got, want):
        if got != want:
            fails.append((kind, '%s returns ids %s, the conditions select %s (%s)' % (what, got[:40], want, label)))

    try:
        base = cls.select(A)
        check('text-select', 'select(text)', ids_of(base), only_a)
        r = base.filter(Cx)
        check('text-filter', 'select(text).filter(C)', ids_of(r), filt)
        if r.count() != len(filt):
            fails.append(('text-filter-count', 'select(text).filter(C).count() is %d, the conditions hold for %d rows (%s); SQL: %s'
                          % (r.count(), len(filt), label, r)))
        check('text-filter-twice', 'select(text).filter(C).filter(C)', ids_of(base.filter(Cx).filter(Cx)), filt)
        check('text-filter-connection', 'select(text, connection=conn).filter(C)', ids_of(cls.select(A, connection=conn).filter(Cx)), filt)
        check('text-base-after', 'select(text) after .filter(C) was derived from it', ids_of(base), only_a)
    except Exception as ex:
        fails.append(('text-error', 'raised %s: %s (%s)' % (type(ex).__name__, ex, label)))
    return fails


TEXT_DIRECTED = [
    # the repaired case: T.select("(a=1) OR (b=2)").filter(T.q.c == 3) and variants
    (('or|', ('cmp', 'eq', ('c', 0), ('k', 1)), ('cmp', 'eq', ('c', 1), ('k', 2))), ('cmp', 'eq', ('c', 0), ('k', 0))),
    (('or|', ('cmp', 'eq', ('c', 0), ('k', 1)), ('cmp', 'eq', ('c', 1), ('k', 2))), ('cmp', 'eq', ('c', 1), ('k', -1))),
    (('or|', ('eqnone', ('c', 0)), ('cmp', 'gt', ('c', 1), ('k', 0))), ('isnotnull', ('c', 1))),
    (('OR', [('cmp', 'lt', ('c', 0), ('k', 0)), ('cmp', 'lt', ('c', 1), ('k', 0)), ('isnull', ('c', 0))]), ('cmp', 'ne', ('c', 1), ('k', 2))),
    (('or|', ('cmp', 'eq', ('c', 0), ('k', 1)), ('cmp', 'eq', ('c', 1), ('k', 2))), False),
    (('or|', ('cmp', 'eq', ('c', 0), ('k', 1)), ('cmp', 'eq', ('c', 1), ('k', 2))), None),
    (('and&', ('cmp', 'ge', ('c', 0), ('k', 0)), ('cmp', 'le', ('c', 1), ('k', 1))), ('or|', ('eqnone', ('c', 1)), ('cmp', 'eq', ('c', 0), ('k', 2)))),
    (('NOT', ('cmp', 'eq', ('c', 0), ('k', 1))), ('cmp', 'eq', ('c', 1), ('k', 2))),
]


# --------------------------------------------------------------------------- directed witnesses
_fkenv = {}


def fk_env():
    """a class with a ForeignKey (int-keyed target) and an IntCol, an inheritance child with a ForeignKey, and the target"""
    if not _fkenv:
        from sqlobject import SQLObject, IntCol, ForeignKey, StringCol
        from sqlobject.inheritance import InheritableSQLObject
        conn = sqlo.mem_conn()
        dept = type(sqlo.uniq('C03Dept'), (SQLObject,), {'_connection': conn, 'n': IntCol(default=None)})
        plain = type(sqlo.uniq('C03Fk'), (SQLObject,), {'_connection': conn, 'dept': ForeignKey(dept.__name__, default=None),
                                                        'a': IntCol(default=None)})
        person = type(sqlo.uniq('C03Person'), (InheritableSQLObject,), {'_connection': conn, 'name': StringCol(default=None)})
        emp = type(sqlo.uniq('C03Emp'), (person,), {'_connection': conn, 'dept': ForeignKey(dept.__name__, default=None)})
        for c in (dept, plain, person, emp):
            c.createTable()
        for n in (10, 20, 30):
            dept(n=n)
        for d in (2, 2, 3, None):
            emp(name='x', deptID=d)
            plain(deptID=d, a=d)
        conn.cache.clear()
        _fkenv.update(conn=conn, dept=dept, plain=plain, emp=emp, fks=[2, 2, 3, None])
    return _fkenv


def run_directed(ctx, reported):
    from sqlobject import sqlbuilder as sb
    from sqlobject.sqlbuilder import sqlrepr
    fe = fk_env()
    dept, plain, emp, fks = fe['dept'], fe['plain'], fe['emp'], fe['fks']

    def fail(key, text, case):
        if key not in reported:
            reported.add(key)
            ctx.oracle_fail(key, text, case)

    # (2) `<FK or IntCol column> == <float>`: a fractional float is refused (formencode Invalid), a whole-number float is
    #     that integer; orderings are not converted.  Either way round (`2.5 == col` is Python's reflected __eq__).
    def ids_where(pred):
        return [i + 1 for i, d in enumerate(fks) if d is not None and pred(d)]
    probes = []
    for cname, cls, colname in (('fk', plain, 'deptID'), ('intcol', plain, 'a'), ('fk-inherit-child', emp, 'deptID')):
        col = getattr(cls.q, colname)
        probes += [
            (cname, 'col == 2.5', cls, lambda col=col: col == 2.5, 'refused'),
            (cname, 'col != 2.5', cls, lambda col=col: col != 2.5, 'refused'),
            (cname, '2.5 == col', cls, lambda col=col: 2.5 == col, 'refused'),
            (cname, 'col == 2.0', cls, lambda col=col: col == 2.0, ids_where(lambda d: d == 2)),
            (cname, 'col != -2.0', cls, lambda col=col: col != -2.0, ids_where(lambda d: True)),
            (cname, '3.0 == col', cls, lambda col=col: 3.0 == col, ids_where(lambda d: d == 3)),
            (cname, 'col < 2.5', cls, lambda col=col: col < 2.5, ids_where(lambda d: d < 2.5)),
            (cname, 'col >= 2.5', cls, lambda col=col: col >= 2.5, ids_where(lambda d: d >= 2.5)),
        ]
    for cname, label, cls, mk, want in probes:
        ctx.case('directed float ' + cname + ' ' + label, nontrivial=True, kind='directed')
        try:
            expr = mk()
            got = sorted(o.id for o in cls.select(expr))
            text = sqlrepr(expr, 'sqlite')
        except Exception as ex:
            got, text = ('refused' if type(ex).__name__ == 'Invalid' else 'error:%s' % type(ex).__name__), None
        if got != want:
            fail('C03:col-eq-float@%s:%s' % (cname, label),
                 '%s on a %s column: %s (SQL %s), expected %s' % (label, cname, got, text, want),
                 {'directed': 'col-eq-float', 'ser': cname + ' ' + label})
    # (3) OPEN finding: an Alias field's id inside the clause of an inheritance-child select is rewritten to the parent's id
    d = sb.Alias(dept, 'd')
    want = [i + 1 for i, x in enumerate(fks) if x is not None]
    for cname, cls in (('plain', plain), ('inherit-child', emp)):
        ctx.case('directed alias-join ' + cname, nontrivial=True, kind='directed')
        try:
            sel = cls.select(cls.q.deptID == d.q.id)
            got, sql = sorted(set(o.id for o in sel)), str(sel)
        except Exception as ex:
            got, sql = 'error:%s' % type(ex).__name__, None
        if got != want:
            if cname == 'inherit-child':
                fail('C03:inherit-alias-id-rewritten-to-parent-id',
                     'Employee.select(Employee.q.deptID == Alias(Dept, "d").q.id) returned ids %s, the join selects %s; SQL: %s' % (got, want, sql),
                     {'directed': 'inherit-alias', 'ser': 'Employee.q.deptID == Alias(Dept).q.id'})
            else:
                fail('C03:alias-join-wrong-rows@plain', 'Plain.select(Plain.q.deptID == Alias(Dept, "d").q.id) returned ids %s, the join selects %s; '
                     'SQL: %s' % (got, want, sql), {'directed': 'plain-alias', 'ser': 'Plain.q.deptID == Alias(Dept).q.id'})


# --------------------------------------------------------------------------- generators
def leaves_num():
    return [('c', 0), ('c', 1), ('c', 2)] + [('k', v) for v in CONSTS] + [('f', v) for v in FEX]


def has_float(t):
    """the tree mentions a float constant or the REAL column (the model's driver evaluates integers only)"""
    if isinstance(t, tuple):
        if t[0] == 'f' or (t[0] == 'c' and t[1] == 2):
            return True
        return any(has_float(x) for x in t[1:])
    if isinstance(t, list):
        return any(has_float(x) for x in t)
    return False


def refused(t):
    """the tree contains `IntCol ==/!= <float with a fractional part>` (either way round): IntCol's validator
    refuses the constant (formencode Invalid) when the expression is constructed"""
    if isinstance(t, list):
        return any(refused(x) for x in t)
    if not isinstance(t, tuple):
        return False
    if t[0] == 'cmp' and t[1] in ('eq', 'ne'):
        l, r = t[2], t[3]
        for x, y in ((l, r), (r, l)):
            if x[0] == 'c' and x[1] in (0, 1) and y[0] == 'f' and y[1] != int(y[1]):
                return True
    return any(refused(x) for x in t[1:])


def num_depth1():
    L = leaves_num()
    out = []
    for op in AR:
        for l in L:
            for r in L:
                out.append(('ar', op, l, r))
    for x in L:
        out.append(('neg', x))
        out.append(('pos', x))
    return out


def item_lists():
    items = [None, ('k', -1), ('k', 0), ('k', 2), ('c', 1)]
    out = [[]]
    out += [[i] for i in items]
    out += [[i, j] for i in items for j in items]
    return out


def bool_depth1():
    L = leaves_num()
    out = []
    for op in CMP:
        for l in L:
            for r in L:
                out.append(('cmp', op, l, r))
    for k in ('isnull', 'isnotnull', 'eqnone', 'nenone'):
        for x in L:
            if k in ('eqnone', 'nenone') and x[0] == 'k':
                continue
            out.append((k, x))
    for k in ('in', 'notin'):
        for x in L:
            for items in item_lists():
                out.append((k, x, items))
    return out


def rnd_leaf(rng):
    r = rng.random()
    if r < 0.5:
        return ('c', rng.choice([0, 0, 1, 1, 2]))
    if r < 0.8:
        return ('k', rng.choice(CONSTS + [1, -2, 3]))
    return ('f', rng.choice(FCONSTS))


def rnd_num(rng, d, mixed=True):
    if d <= 0 or rng.random() < 0.3:
        return rnd_leaf(rng)
    r = rng.random()
    if r < 0.18 and mixed:
        # mixed sort: a boolean subexpression as a numeric operand (SQL: 0 / 1 / NULL)
        return ('b2i', rnd_bool(rng, max(1, d - 1)))
    if r < 0.75:
        return ('ar', rng.choice(AR), rnd_num(rng, d - 1, mixed), rnd_num(rng, d - 1, mixed))
    return (rng.choice(['neg', 'neg', 'pos']), rnd_num(rng, d - 1, mixed))


def rnd_items(rng, d):
    n = rng.choice([0, 1, 1, 2, 2, 3, 4])
    return [None if rng.random() < 0.25 else rnd_num(rng, min(d, rng.choice([0, 0, 1, 2]))) for _ in range(n)]


def rnd_bool(rng, d):
    if d <= 1 or rng.random() < 0.3:
        r = rng.random()
        dn = max(0, d - 1)
        if r < 0.5:
            return ('cmp', rng.choice(CMP), rnd_num(rng, dn), rnd_num(rng, dn))
        if r < 0.75:
            return (rng.choice(['in', 'notin']), rnd_num(rng, dn), rnd_items(rng, dn))
        k = rng.choice(['isnull', 'isnotnull', 'eqnone', 'nenone'])
        x = rnd_num(rng, dn)
        if k in ('eqnone', 'nenone') and x[0] == 'k':
            x = ('c', rng.randint(0, 1))
        return (k, x)
    r = rng.random()
    if r < 0.4:
        return (rng.choice(['and&', 'or|']), rnd_bool(rng, d - 1), rnd_bool(rng, d - 1))
    if r < 0.7:
        n = rng.choice([1, 2, 2, 3, 4])
        return (rng.choice(['AND', 'OR']), [rnd_bool(rng, d - 1) for _ in range(n)])
    return (rng.choice(['not~', 'NOT']), rnd_bool(rng, d - 1))


def rnd_bool_sub(rng, d):
    """boolean tree whose leaves may be IN / NOT IN against a sub-select (oracle-only stream)"""
    if d <= 1 or rng.random() < 0.25:
        if rng.random() < 0.7:
            return (rng.choice(['insub', 'notinsub']), rnd_num(rng, rng.choice([0, 0, 1, 2]), mixed=False), rng.randint(0, 2))
        return rnd_bool(rng, 1)
    r = rng.random()
    if r < 0.4:
        return (rng.choice(['and&', 'or|']), rnd_bool_sub(rng, d - 1), rnd_bool_sub(rng, d - 1))
    if r < 0.7:
        return (rng.choice(['AND', 'OR']), [rnd_bool_sub(rng, d - 1) for _ in range(rng.choice([1, 2, 3]))])
    return (rng.choice(['not~', 'NOT']), rnd_bool_sub(rng, d - 1))


B2I_KINDS = ['b2i-' + k for k in ('eqnone', 'isnotnull', 'cmp-eq', 'cmp-lt', 'NOT', 'not~', 'and&', 'OR', 'in', 'notin')]
NUM_KINDS = ['leaf'] + ['ar-' + o for o in AR] + ['neg', 'pos'] + B2I_KINDS
BOOL_KINDS = (['cmp-' + o for o in CMP] + ['and&', 'or|', 'AND', 'OR', 'not~', 'NOT', 'in', 'notin',
                                           'isnull', 'isnotnull', 'eqnone', 'nenone'])


def num_of_kind(rng, kind, leaf=None):
    leaf = leaf or (lambda: rnd_leaf(rng))
    if kind == 'leaf':
        return leaf()
    if kind.startswith('ar-'):
        return ('ar', kind[3:], leaf(), leaf())
    if kind.startswith('b2i-'):
        return ('b2i', bool_of_kind(rng, kind[4:]))
    return (kind, leaf())


def col_leaf(rng):
    return ('c', rng.randint(0, 1))


def bool_of_kind(rng, kind, sub_num=None, sub_bool=None):
    sub_num = sub_num or (lambda: rnd_leaf(rng))
    sub_bool = sub_bool or (lambda: ('cmp', rng.choice(CMP), rnd_leaf(rng), rnd_leaf(rng)))
    if kind.startswith('cmp-'):
        return ('cmp', kind[4:], sub_num(), sub_num())
    if kind in ('and&', 'or|'):
        return (kind, sub_bool(), sub_bool())
    if kind in ('AND', 'OR'):
        return (kind, [sub_bool() for _ in range(rng.choice([1, 2, 3]))])
    if kind in ('not~', 'NOT'):
        return (kind, sub_bool())
    if kind in ('in', 'notin'):
        n = rng.choice([0, 1, 2, 3])
        return (kind, sub_num(), [None if rng.random() < 0.3 else sub_num() for _ in range(n)])
    x = sub_num()
    if kind in ('eqnone', 'nenone') and x[0] == 'k':
        x = col_leaf(rng)
    return (kind, x)


def shapes_depth2(rng, reps):
    """every (parent, child kinds) combination of depth 2, `reps` leaf assignments each"""
    out = []
    for _ in range(reps):
        for pk in BOOL_KINDS:
            if pk.startswith('cmp-') or pk in ('in', 'notin', 'isnull', 'isnotnull', 'eqnone', 'nenone'):
                for k1 in NUM_KINDS:
                    for k2 in NUM_KINDS:
                        kinds = iter([k1, k2, k1, k2, k1])
                        out.append(bool_of_kind(rng, pk, sub_num=lambda: num_of_kind(rng, next(kinds))))
            else:
                for k1 in BOOL_KINDS:
                    for k2 in BOOL_KINDS:
                        kinds = iter([k1, k2, k1, k2])
                        out.append(bool_of_kind(rng, pk, sub_bool=lambda: bool_of_kind(rng, next(kinds))))
    return out


def shapes_mixed(rng, reps):
    """boolean tests as operands of arithmetic, itself under a comparison / NULL test / IN"""
    out = []
    for _ in range(reps):
        for op in ('add', 'sub', 'mul'):
            for k1 in B2I_KINDS:
                for k2 in B2I_KINDS + ['leaf']:
                    a = ('ar', op, num_of_kind(rng, k1), num_of_kind(rng, k2))
                    if rng.random() < 0.5:
                        a = ('ar', op, a[3], a[2])
                    out.append(('cmp', rng.choice(CMP), a, rnd_leaf(rng)))
        for k1 in B2I_KINDS:
            out.append(('cmp', rng.choice(CMP), ('neg', num_of_kind(rng, k1)), rnd_leaf(rng)))
            out.append((rng.choice(['isnull', 'eqnone', 'nenone']), num_of_kind(rng, k1)))
    return out


def shapes_float(rng, reps):
    """every float constant as operand of every arithmetic operator (both sides) under every comparison, and
    compared directly with the REAL column and with integer-valued expressions"""
    out = []
    cols = [('c', 0), ('c', 1), ('c', 2)]
    for _ in range(reps):
        for v in FCONSTS:
            f = ('f', v)
            for op in AR:
                for c in cols:
                    a1 = ('ar', op, c, f)
                    a2 = ('ar', op, f, c)
                    for a in (a1, a2):
                        out.append(('cmp', rng.choice(CMP), a, rnd_leaf(rng)))
                        out.append(('cmp', rng.choice(CMP), rnd_leaf(rng), a))
            for cop in CMP:
                out.append(('cmp', cop, ('c', 2), f))
                out.append(('cmp', cop, f, ('c', 2)))
                out.append(('cmp', cop, ('ar', 'add', ('c', 0), ('c', 2)), f))
                out.append(('cmp', cop, ('ar', 'mul', ('c', 1), ('f', 0.5)), f))
            out.append(('in', ('c', 2), [f, None, ('k', 1)]))
            out.append(('notin', ('c', 2), [('f', 0.3), f]))
            out.append(('cmp', 'lt', ('neg', f), ('c', 2)))
            out.append(('cmp', 'ge', ('ar', 'div', ('c', 0), f), ('ar', 'div', ('c', 1), ('f', 2.0))))
    return out


def load_corpus():
    import os
    import json
    d = os.path.join(os.path.dirname(os.path.dirname(os.path.abspath(__file__))), 'corpus', 'C03')
    out = []
    if os.path.isdir(d):
        for fn in sorted(os.listdir(d)):
            if fn.endswith('.json'):
                for item in json.load(open(os.path.join(d, fn))):
                    out.append(from_json(item))
    return out


def from_json(x):
    if isinstance(x, list):
        if x and isinstance(x[0], str) and x[0] in (['c', 'k', 'f', 'ar', 'neg', 'pos', 'b2i', 'cmp', 'and&', 'or|', 'AND', 'OR', 'not~', 'NOT',
                                                     'in', 'notin', 'insub', 'notinsub', 'isnull', 'isnotnull', 'eqnone', 'nenone']):
            k = x[0]
            if k in ('AND', 'OR'):
                return (k, [from_json(e) for e in x[1]])
            if k in ('in', 'notin'):
                return (k, from_json(x[1]), [None if i is None else from_json(i) for i in x[2]])
            return tuple([k] + [from_json(e) if isinstance(e, list) else e for e in x[1:]])
        return [from_json(e) for e in x]
    return x


def gen_cases(ctx):
    rng = ctx.rng
    deep = ctx.deep or ctx.tier == 'thorough'
    cases = list(load_corpus())
    n_corpus = len(cases)
    cases += bool_depth1()
    # numeric depth 1 under a comparison with each leaf kind on the other side, both orders
    for n in num_depth1():
        cases.append(('cmp', rng.choice(CMP), n, rng.choice(leaves_num())))
        cases.append(('cmp', rng.choice(CMP), rng.choice(leaves_num()), n))
    cases += shapes_depth2(rng, 8 if deep else 3)
    cases += shapes_mixed(rng, 4 if deep else 1)
    cases += shapes_float(rng, 3 if deep else 1)
    nrand = ctx.budget(7500, 150000)
    for _ in range(nrand):
        cases.append(rnd_bool(rng, rng.choice([2, 3, 3, 4, 4, 5, 6])))
    return cases, n_corpus


# --------------------------------------------------------------------------- shrinking
def reductions(t):
    """strictly smaller variants of a tree (same sort), nearest first"""
    k = t[0]
    if k in ('c', 'k', 'f'):
        return
    if is_num(t):
        subs = [x for x in t[1:] if isinstance(x, tuple) and is_num(x)]
        for s in subs:
            yield s
        for leaf in (('c', 0), ('k', 1)):
            yield leaf
    else:
        for x in t[1:]:
            if isinstance(x, tuple) and x[0] == 'b2i':
                yield x[1]
        if k in ('and&', 'or|'):
            yield t[1]
            yield t[2]
        elif k in ('AND', 'OR'):
            for i in range(len(t[1])):
                yield t[1][i]
            if len(t[1]) > 1:
                for i in range(len(t[1])):
                    yield (k, t[1][:i] + t[1][i + 1:])
        elif k in ('not~', 'NOT'):
            yield t[1]
        elif k in ('in', 'notin'):
            for i in range(len(t[2])):
                yield (k, t[1], t[2][:i] + t[2][i + 1:])
    # reduce one child in place
    for i in range(1, len(t)):
        x = t[i]
        if isinstance(x, tuple):
            for r in reductions(x):
                if k in ('eqnone', 'nenone') and r[0] == 'k':
                    continue
                yield t[:i] + (r,) + t[i + 1:]
        elif isinstance(x, list):
            for j, it in enumerate(x):
                if isinstance(it, tuple):
                    for r in reductions(it):
                        yield t[:i] + (x[:j] + [r] + x[j + 1:],) + t[i + 1:]


def shrink(t, budget=400):
    """greedy descent to a locally minimal tree that still fails the oracle"""
    best = t
    progress = True
    while progress and budget > 0:
        progress = False
        for cand in reductions(best):
            budget -= 1
            if budget <= 0:
                break
            if size(cand) < size(best) and oracle(cand, run_impl(cand)):
                best = cand
                progress = True
                break
    return best


# --------------------------------------------------------------------------- run
def run(ctx):
    e = env()
    cases, n_corpus = gen_cases(ctx)
    ncfg = len(CONFIGS)
    seen = set()
    uniq_cases = []
    for i, t in enumerate(cases):
        s = ser(t)
        # the corpus and every direct ==/!= comparison of depth <= 1 (where the column's from_python sees the constant) run on
        # every class configuration; the other cases on one configuration drawn from the seeded stream
        if i < n_corpus or (t[0] == 'cmp' and t[1] in ('eq', 'ne') and depth(t) <= 1):
            on = range(ncfg)
        else:
            on = [ctx.rng.randrange(ncfg)]
        for c in on:
            if CONFIGS[c] == 'inherit' and child_only_in_lists(t):
                c = 0
            if (s, c) not in seen:
                seen.add((s, c))
                uniq_cases.append((t, s, c))
    lines = ['rows ' + ' '.join('%s,%s' % ('N' if a is None else a, 'N' if b is None else b) for _, a, b, _ in e['rows'])]
    for t, s, c in uniq_cases:
        lines.append('e %s %s' % (','.join(DIALECTS), s))
    outs = ctx.model(lines)
    reported = set()
    for idx, (t, s, c) in enumerate(uniq_cases):
        set_cfg(c)
        at = '' if c == 0 else '@' + CONFIGS[c]
        res = run_impl(t, flip=idx)
        fails = oracle(t, res)
        d = depth(t)
        ctx.case((s, c), nontrivial=d >= 2, kind='depth%d' % d,
                 sample={'tree': s, 'class': CONFIGS[c], 'sqlite': res['texts'].get('sqlite'), 'ids': res['ids']})
        ctx.count('class:' + CONFIGS[c])
        if fails is None:
            ctx.count('skipped:int64-overflow')
            continue
        if fails:
            small = shrink(t)
            sfails = oracle(small, run_impl(small)) or fails
            kind, text = sfails[0]
            key = 'C03:%s%s:%s' % (kind, at, ser(small))
            if key not in reported:
                reported.add(key)
                ctx.oracle_fail(key, text + ('' if c == 0 else ' [class configuration: %s]' % CONFIGS[c]),
                                {'tree': to_json(small), 'ser': ser(small), 'cfg': CONFIGS[c]})
        if outs is not None:
            impl_outcome = 'rejected' if res.get('build_error') == 'Invalid' else ('error:%s' % res['build_error'] if 'build_error' in res else 'built')
            model_outcome = 'rejected' if outs[idx + 1] == 'rejected' else 'built'
            ctx.compare('constructor outcome: model coerce = real constructors', {'tree': s, 'class': CONFIGS[c]}, model_outcome, impl_outcome)
            if model_outcome != 'built' or impl_outcome != 'built':
                continue
            ans = outs[idx + 1].split(' | ')
            if len(ans) != 4:
                ctx.compare('driver answer well-formed', {'tree': s}, outs[idx + 1], '<4 fields>')
                continue
            mtexts = ans[0].split(' ; ')
            tcache = {}
            for d_, mt in zip(DIALECTS, mtexts):
                txt = res['texts'].get(d_, 'error:build')
                if txt not in tcache:
                    toks, prob = tokenise(txt) if not txt.startswith('error:') else (None, txt)
                    tcache[txt] = ' '.join(toks) if toks is not None else 'unlexable(%s): %s' % (prob, txt)
                impl = tcache[txt]
                ctx.compare('tokens (%s): model render = sqlrepr' % d_, {'tree': s, 'dialect': d_, 'class': CONFIGS[c]}, mt, impl)
            if has_float(t):
                # the driver evaluates in the all-integer domain; float trees are tied at the token / parse level,
                # their meaning is checked by the oracle above (SQLite execution and the reference evaluator)
                ctx.compare('reference parser recovers the built tree (three precedence tables)', {'tree': s}, ans[3], 'ok ok ok')
                continue
            if isinstance(res['vals'], list):
                impl_vals = ''.join(show3(None if v is None else (v != 0)) for _, v in res['vals'])
            else:
                impl_vals = str(res['vals'])
            ctx.compare('three-valued value per row: model evalB = SQLite', {'tree': s}, ans[1], impl_vals)
            if isinstance(res['ids'], list):
                idset = set(res['ids'])
                impl_sel = ''.join('1' if rid in idset else '0' for rid, _, _, _ in e['rows'])
            else:
                impl_sel = str(res['ids'])
            ctx.compare('selected rows: model parse+ev (three precedence tables) = Cls.select', {'tree': s},
                        ans[2], ' '.join([impl_sel] * 3))
            ctx.compare('reference parser recovers the built tree (three precedence tables)', {'tree': s}, ans[3], 'ok ok ok')
    # oracle-only stream (not modelled in Lean): IN / NOT IN against a sub-select, nested in AND / OR / NOT.
    # INSubquery does not parenthesise its left operand; with SQL's own precedences the text still means the tree.
    nsub = ctx.budget(600, 10000)
    for i in range(nsub):
        t = rnd_bool_sub(ctx.rng, ctx.rng.choice([1, 2, 3, 4]))
        if not has_sub(t):
            continue
        c = ctx.rng.randrange(ncfg)
        if CONFIGS[c] == 'inherit' and child_only_in_lists(t):
            c = 0
        set_cfg(c)
        s = ser(t)
        res = run_impl(t, flip=i)
        fails = oracle(t, res, text_level=False)
        ctx.case(s, nontrivial=True, kind='subquery-depth%d' % depth(t))
        if fails is None:
            ctx.count('skipped:int64-overflow')
            continue
        if fails:
            kind, text = fails[0]
            key = 'C03:subquery-%s%s:%s' % (kind, '' if c == 0 else '@' + CONFIGS[c], s)
            if key not in reported:
                reported.add(key)
                ctx.oracle_fail(key, text, {'tree': to_json(t), 'ser': s, 'cfg': CONFIGS[c]})
    # object re-use stream: derive from a base expression / base Select, then use the base again (non-mutation)
    pairs = list(REUSE_DIRECTED)
    for _ in range(ctx.budget(150, 3000)):
        pairs.append((rnd_bool(ctx.rng, ctx.rng.choice([1, 2, 2, 3])), rnd_bool(ctx.rng, ctx.rng.choice([1, 1, 2]))))
    for i, (ta, tc) in enumerate(pairs):
        if has_sub(ta) or has_sub(tc) or refused(ta) or refused(tc):
            continue
        c = ctx.rng.randrange(ncfg - 1)          # not the inheritance pair: a bare sqlbuilder.Select does not join parent and child
        set_cfg(c)
        fails = run_reuse(ta, tc, flip=i)
        ctx.case('reuse ' + ser(ta) + ' / ' + ser(tc), nontrivial=True, kind='reuse')
        if fails is None:
            ctx.count('skipped:int64-overflow')
            continue
        if fails:
            kind, text = fails[0]
            key = 'C03:reuse-%s' % kind
            if key not in reported:
                reported.add(key)
                ctx.oracle_fail(key, text, {'reuse': True, 'tree': to_json(ta), 'filter': to_json(tc), 'ser': ser(ta) + ' / ' + ser(tc),
                                            'cfg': CONFIGS[c]})
    # clause plumbing stream: filter() / chained filters / one-piece AND / count(), with boolean trees and with plain
    # Python constants as conditions (oracle-only: SelectResults and constant conditions are not in the Lean model)
    plumb = []
    dirA = [None, ('cmp', 'gt', ('c', 0), ('k', 0)), ('NOT', ('cmp', 'gt', ('c', 1), ('k', 0))), ('eqnone', ('c', 0))]
    for ta in dirA:
        for cst in PYCONSTS:
            plumb.append((ta, cst))
    for _ in range(ctx.budget(250, 5000)):
        ta = None if ctx.rng.random() < 0.15 else rnd_bool(ctx.rng, ctx.rng.choice([1, 2, 2, 3]))
        cc = ctx.rng.choice(PYCONSTS) if ctx.rng.random() < 0.5 else rnd_bool(ctx.rng, ctx.rng.choice([1, 1, 2]))
        plumb.append((ta, cc))
    for i, (ta, cc) in enumerate(plumb):
        if (ta is not None and (has_sub(ta) or refused(ta))) or (isinstance(cc, tuple) and (has_sub(cc) or refused(cc))):
            continue
        c = i % ncfg if i < len(dirA) * len(PYCONSTS) * 1 else ctx.rng.randrange(ncfg)
        if CONFIGS[c] == 'inherit' and ((ta is not None and child_only_in_lists(ta)) or (isinstance(cc, tuple) and child_only_in_lists(cc))):
            c = 0
        set_cfg(c)
        fails = run_plumbing(ta, cc, flip=i)
        lab = ('-' if ta is None else ser(ta)) + ' / ' + (ser(cc) if isinstance(cc, tuple) else 'const ' + repr(cc))
        ctx.case('plumbing ' + lab + ' @' + CONFIGS[c], nontrivial=True, kind='plumbing' + ('-const' if not isinstance(cc, tuple) else ''))
        if fails is None:
            ctx.count('skipped:int64-overflow')
            continue
        if fails:
            kind, text = fails[0]
            key = 'C03:plumbing-%s:%s' % (kind, lab)
            if ('plumbing', kind) not in reported:
                reported.add(('plumbing', kind))
                ctx.oracle_fail(key, text, {'plumbing': True, 'tree': to_json(ta), 'cond': to_json(cc) if isinstance(cc, tuple) else None,
                                            'const': None if isinstance(cc, tuple) else repr(cc), 'ser': lab, 'cfg': CONFIGS[c]})
    # SQL-text base clauses (oracle-only): the text is one operand of whatever filter() adds (repaired by 529092d)
    texts = [(ta, st, cc) for ta, cc in TEXT_DIRECTED for st in (0, 1)]
    for _ in range(ctx.budget(120, 2500)):
        root = ctx.rng.choice(['or|', 'or|', 'and&', 'OR', None])
        if root in ('or|', 'and&'):
            ta = (root, rnd_bool(ctx.rng, ctx.rng.choice([1, 1, 2])), rnd_bool(ctx.rng, ctx.rng.choice([1, 1, 2])))
        elif root == 'OR':
            ta = ('OR', [rnd_bool(ctx.rng, 1) for _ in range(ctx.rng.choice([2, 3]))])
        else:
            ta = rnd_bool(ctx.rng, ctx.rng.choice([1, 2, 3]))
        cc = ctx.rng.choice(PYCONSTS) if ctx.rng.random() < 0.25 else rnd_bool(ctx.rng, ctx.rng.choice([1, 1, 2]))
        texts.append((ta, ctx.rng.choice([0, 0, 1]), cc))
    for i, (ta, st, cc) in enumerate(texts):
        if has_sub(ta) or refused(ta) or (isinstance(cc, tuple) and (has_sub(cc) or refused(cc))):
            continue
        c = i % (ncfg - 1)          # not the inheritance pair: a text clause cannot tell select() which tables it names
        set_cfg(c)
        fails = run_text_plumbing(ta, st, cc, flip=i)
        lab = 'text%d %s / %s' % (st, ser(ta), ser(cc) if isinstance(cc, tuple) else 'const ' + repr(cc))
        ctx.case('plumbing ' + lab + ' @' + CONFIGS[c], nontrivial=True, kind='plumbing-text')
        if fails is None:
            ctx.count('skipped:int64-overflow')
            continue
        if fails:
            kind, text = fails[0]
            key = 'C03:plumbing-%s:%s' % (kind, lab)
            if ('plumbing', kind) not in reported:
                reported.add(('plumbing', kind))
                ctx.oracle_fail(key, text, {'textplumbing': True, 'tree': to_json(ta), 'style': st,
                                            'cond': to_json(cc) if isinstance(cc, tuple) else None,
                                            'const': None if isinstance(cc, tuple) else repr(cc), 'ser': lab, 'cfg': CONFIGS[c]})
    # directed witnesses: FK / IntCol == float, Alias join on a plain class, the open inheritance-alias finding
    run_directed(ctx, reported)
    # directed probe (note): a child-table column that occurs only inside an IN-list is invisible to tablesUsed
    # two-table stream: a clause that also names the id / a column of ANOTHER class (join condition), selected on a plain
    # class and on the inheritance child (whose select rewrites its OWN `q.id` to the parent's)
    jdirected = [(['b==oid', 'v==k'], ('cmp', 'ge', ('c', 0), ('k', 0))), (['oid==b'], ('isnotnull', ('c', 0))),
                 (['oid-in', 'a<oid'], ('cmp', 'ne', ('c', 1), ('k', 2))), (['oid==a+v'], ('cmp', 'le', ('c', 1), ('k', 2)))]
    for i in range(ctx.budget(60, 1500)):
        ks = [ctx.rng.choice(JOIN_ATOMS) for _ in range(ctx.rng.choice([1, 1, 2]))]
        jdirected.append((ks, rnd_bool(ctx.rng, ctx.rng.choice([1, 2, 2]))))
    for i, (ks, t) in enumerate(jdirected):
        if has_sub(t) or refused(t) or has_float(t):
            continue
        for cname in ('dbname', 'inherit'):
            if cname == 'inherit' and child_only_in_lists(t):
                continue
            set_cfg(CONFIGS.index(cname))
            al = cname == 'dbname' and i % 3 != 0
            fails = run_join(ks, t, how=i % 2, alias=al)
            ctx.case('join ' + '+'.join(ks) + ' / ' + ser(t) + ' @' + cname + ('+alias' if al else ''), nontrivial=True,
                     kind='join' + ('-alias' if al else ''))
            if fails is None:
                ctx.count('skipped:int64-overflow')
                continue
            if fails:
                kind, text = fails[0]
                key = 'C03:%s@%s%s:%s' % (kind, cname, '+alias' if al else '', '+'.join(ks))
                if key not in reported:
                    reported.add(key)
                    ctx.oracle_fail(key, text + ' [class configuration: %s%s]' % (cname, ', other class through Alias' if al else ''),
                                    {'join': ks, 'tree': to_json(t), 'how': i % 2, 'alias': al, 'ser': ser(t), 'cfg': cname})
    set_cfg(0)
    set_cfg(CONFIGS.index('inherit'))
    w = ('in', ('k', 1), [('c', 1)])
    wres = run_impl(w)
    ctx.note('inheritance: Child.select(IN(1, [Child.q.b])) -> %s (tablesUsedSet does not descend into list operands, so the child '
             'table and its join are left out of FROM) [C03:inherit-child-column-only-in-IN-list]'
             % ('ids %s' % wres['ids'] if isinstance(wres['ids'], list) else 'raises ' + str(wres['ids'])))
    set_cfg(0)
    # directed probe of the documented limit of the fragment (a note, not a verdict): a boolean whose text is
    # `NOT …` as the LEFT operand of an IN-subquery is not parenthesised by INSubquery.__sqlrepr__
    w = ('insub', ('b2i', ('NOT', ('cmp', 'eq', ('c', 0), ('k', 1)))), 0)
    wf_ = oracle(w, run_impl(w), text_level=False)
    ctx.note('out-of-fragment witness IN(NOT(a == 1), <sub-select>) -> %s: %s'
             % (run_impl(w)['texts'].get('sqlite'), 'captured by NOT (wrong rows on SQLite)' if wf_ else 'reads correctly'))
    ctx.note('outside the well-typed fragment (INSubquery / LIKE whose left operand renders starting with "(" or as NOT …) '
             'the renderer does not parenthesise; not part of the theorem (typing hypothesis)')
    ctx.note('`x IN ()` is what IN(x, []) renders; false on SQLite (executed), a syntax error on MySQL/PostgreSQL (not executable here)')


def to_json(t):
    if isinstance(t, tuple):
        return [to_json(x) for x in t]
    if isinstance(t, list):
        return [to_json(x) for x in t]
    return t


def replay(case):
    env()
    if case.get('cfg') in CONFIGS:
        set_cfg(CONFIGS.index(case['cfg']))
    if case.get('directed'):
        class _Ctx(object):
            fails = []

            def case(self, *a, **k):
                pass

            def oracle_fail(self, key, text, case_):
                self.fails.append('%s: %s' % (key, text))
        c_ = _Ctx()
        run_directed(c_, set())
        mine = [f for f in c_.fails if case.get('ser', '') in f or case['directed'] in ('inherit-alias', 'plain-alias')]
        return not mine, '\n'.join(mine) or 'the directed witnesses pass'
    if case.get('textplumbing'):
        cc = from_json(case['cond']) if case.get('cond') is not None else eval(case['const'], {'__builtins__': {}}, {})
        fails = run_text_plumbing(from_json(case['tree']), case['style'], cc)
        text = 'class configuration: %s\n%s\n' % (case.get('cfg'), case.get('ser'))
        if fails:
            text += '\n'.join('%s: %s' % f for f in fails)
        return not fails, text
    if case.get('plumbing'):
        ta = None if case['tree'] is None else from_json(case['tree'])
        cc = from_json(case['cond']) if case.get('cond') is not None else eval(case['const'], {'__builtins__': {}}, {})
        fails = run_plumbing(ta, cc)
        text = 'class configuration: %s\n%s\n' % (case.get('cfg'), case.get('ser'))
        if fails:
            text += '\n'.join('%s: %s' % f for f in fails)
        return not fails, text
    t = from_json(case['tree'])
    if case.get('join'):
        fails = run_join(case['join'], t, how=case.get('how', 0))
        text = 'atoms: %s\ntree : %s\n' % (' AND '.join(case['join']), ser(t))
        if fails:
            text += '\n'.join('%s: %s' % f for f in fails)
        return not fails, text
    if case.get('reuse'):
        tc = from_json(case['filter'])
        fails = run_reuse(t, tc)
        text = 'base tree  : %s\nderive with: %s\n' % (ser(t), ser(tc))
        if fails:
            text += '\n'.join('%s: %s' % f for f in fails)
        return not fails, text
    res = run_impl(t)
    fails = oracle(t, res)
    text = 'tree  : %s\nsqlite: %s\nids   : %s\n' % (ser(t), res['texts'].get('sqlite'), res['ids'])
    if fails:
        text += '\n'.join('%s: %s' % f for f in fails)
    return not fails, text
