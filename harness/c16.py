"""C16 — lazy updates: nothing written before sync, exactly the pending values after.

Same machinery as harness/c05.py (statement-logging SQLite connection, model driver `drv_c16`, runner with
per-step oracles); the histories here live mostly on the lazy classes and are dense in assign / set /
syncUpdate / sync / expire / select / pickle / destroy.

oracle (no model involved), after every step: number and text of the UPDATE statements the step sent (none for
assign/set on a lazy object; for syncUpdate/sync/pickle exactly one, assigning exactly the harness's own record
of the latest unwritten value of each assigned column, none when nothing is pending; the same for the flush of
a lazy cascade='null' referrer inside destroySelf of the row it references); raw row before/after
(unchanged by assign/set; old row overridden by the pending values after a flush); `sqlmeta.dirty` == "unwritten
assignments exist" for every held instance; INSERT / DELETE take effect immediately; what the object shows.
"""
import json

from harness import c05

PROP = 'C16'
META = {
    'extractors': ['pymain'],
    'technique': ('Lean 4 proof (ghost UPDATE counter and statement log in the model; per-operation theorems for any state; '
                  'flag invariant by induction over histories of ANY operations) + TRANSLATION of syncUpdate / sync / '
                  '_SO_setValue / set from main.py into a deep embedding on every run with proofs by symbolic execution that '
                  'they equal the hand model for all states + differential correspondence with main.py '
                  '+ statement-log / raw-row / flag oracle after every step'),
    'level_text': ('Theorems C16_no_update_before_sync(_history), C16_sync_writes_pending, C16_sync_flushes_then_reloads, '
                   'C16_pending_latest, C16_dirty_iff_pending(_history), C16_insert_immediate, C16_delete_immediate, '
                   'C16_only_flush_ops_write_lazy, C16_null_cascade_flushes_referrer, C16_unpickle_clean, '
                   'C16_pickle_flushes: for every state / every history of the model OrmVal, assignments and set() on lazy '
                   'objects send no statement and change no table; syncUpdate/sync/pickling send exactly one UPDATE holding the '
                   'latest pending value of each assigned column (none if nothing pending) and leave the row = old row '
                   'overridden by them; dirty <-> pending non-empty in every reachable state (any operations, raw SQL '
                   'included); INSERT and DELETE are immediate.  The model is hand-written from main.py and compared with '
                   'the real code on every run.  C16_translated_{syncUpdate,sync,setValue,set}_eq_model: the bodies of '
                   'syncUpdate / sync / _SO_setValue / set, translated from the AST on this run (vlib/extractors/pymain.py -> '
                   'Extracted/PyMain.lean), run from the image of ANY model state with ANY insertion order of the pending '
                   'dict, yield exactly what opSyncUpdate / opSync / opSetattr / opSet yield; set(**kw): for EVERY keyword '
                   'list with distinct column names, any mix of valid and rejected values, lazy and eager branch, refused '
                   'UPDATE (loop invariants for the validation and caching loops).  C16_translated_*_reachable: in every '
                   'state reachable by any operations the structural side conditions hold (anyReach_cols).'),
    'level_note': ('Trusted: Lean kernel, the harness (statement canonicaliser), SQLite as the row store; the sampling '
                   'correspondence of the model.  Event listeners, joins and per-connection instances are not modelled.'),
    'rule': ('case = one history (cache on/off, read mode A/B, ≤ 25 ops, 70 % on lazy classes); distinct = distinct op '
             'sequences; non-trivial = a write followed by expire/sync/select/destroy/pickle or an injected failure'),
    'trusted': c05.META['trusted'],
    'modelled': c05.META['modelled'],
    'assumptions': c05.META['assumptions'],
    'exhaustive': False,
}

OPS_C16 = (['create'] * 8 + ['get'] * 4 + ['select'] * 7 + ['read'] * 6 + ['setattr'] * 18 + ['set'] * 12 +
           ['syncupdate'] * 8 + ['sync'] * 8 + ['expire'] * 7 + ['expireall'] * 2 + ['expireallcls'] * 1 +
           ['destroy'] * 4 + ['pickle'] * 5 + ['drop'] * 1 + ['oobupdate'] * 2 + ['oobdelete'] * 1 + ['deletemany'] * 1 + ['unpickle'] * 4 + ['iter'] * 1 + ['next'] * 3 + ['readfk'] * 6)
W_C16 = {'ops': OPS_C16, 'classes': [1, 1, 1, 1, 1, 5, 5, 5, 3, 0, 0, 2, 4, 7, 9, 9, 8, 12, 13, 13, 13, 10, 11, 15, 15, 15, 16, 16, 14]}


KEY_SPLIT = 'C16:subclass-set-splits-inherited-column'


def probe_subclass_set(ctx):
    """finding: in a plain subclass, set() writes the INHERITED column by a separate setattr after the child's own
    columns were committed.  Lazy child: b = B(x=1, y=2); b.set(y=7, x=<invalid>) raises, yet y=7 stays pending with
    dirty False and the next syncUpdate() writes it."""
    from vlib import sqlo
    sqlo.setup()
    from sqlobject import SQLObject, IntCol
    conn = c05.make_conn_class()(':memory:')
    A = type(sqlo.uniq('C16SubA'), (SQLObject,), {'_connection': conn, 'x': IntCol(default=None),
                                                  'sqlmeta': type('sqlmeta', (), {'table': 't_s16_a'})})
    B = type(sqlo.uniq('C16SubB'), (A,), {'y': IntCol(default=None),
                                          'sqlmeta': type('sqlmeta', (), {'table': 't_s16_b', 'lazyUpdate': True})})
    B.createTable()
    what = None
    try:
        b = B(x=1, y=2)
        try:
            b.set(y=7, x='bad')
            refused = False
        except Exception:
            refused = True
        pending = dict(b._SO_createValues)
        dirty = bool(b.sqlmeta.dirty)
        conn.stmts = []
        b.syncUpdate()
        ups = [q for q in conn.stmts if q.startswith('UPDATE')]
        cur = conn._memoryConn.cursor()
        cur.execute('SELECT x, y FROM t_s16_b WHERE id = %d' % b.id)
        row = tuple(cur.fetchone())
        cur.close()
        if refused and (pending or dirty or ups or row != (1, 2)):
            what = ('lazy subclass B(A): b = B(x=1, y=2); b.set(y=7, x=<invalid>) raised, yet pending=%r dirty=%r; '
                    'syncUpdate() then sent %r, row %r' % (pending, dirty, ups, row))
        elif not refused:
            what = 'set(y=7, x=<invalid>) of the lazy subclass did not raise'
    except Exception as ex:
        what = 'subclass set() witness raised %s' % sqlo.exc_name(ex)
    ctx.case(('probe', 'subclass-set'), sample={'probe': 'set() of a plain subclass with an inherited column', 'failed': bool(what)},
             kind='directed probe')
    if what:
        if c05.finding_listed(KEY_SPLIT):
            ctx.oracle_fail(KEY_SPLIT, what, {'probe': 'subclass_set', 'cache': True, 'mode': 'B', 'ops': []})
        else:
            ctx.note('NOT YET LISTED finding %s: %s' % (KEY_SPLIT, what))


def run(ctx):
    c05.env(True)
    c05.env(False)
    probe_subclass_set(ctx)
    n = ctx.budget(3000, 18000)
    c05.drive(ctx, 'C16', W_C16, n, 25 if ctx.tier == 'quick' and not ctx.deep else 50)


def replay(case):
    if case.get('probe') == 'subclass_set':
        class _C(object):
            fails = []

            def case(self, *a, **k):
                pass

            def note(self, t):
                self.fails.append(t)

            def oracle_fail(self, key, what, case):
                self.fails.append(what)
        c = _C()
        probe_subclass_set(c)
        return (not c.fails), '\n'.join(c.fails) or 'the witness no longer reproduces'
    r = c05.run_history(case['cache'], case['mode'], [list(o) for o in case['ops']], 'C16')
    bad = [f for f in r.fails if f[0] == case.get('kind', f[0])]
    txt = '\n'.join('%s [%s]: %s' % f for f in r.fails) or 'no oracle failure on this history'
    return (not bad), 'history: %s\n%s' % (json.dumps(case['ops']), txt)
