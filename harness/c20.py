"""C20 — versioning records the exact history of a row and can restore any point; versions of
different masters never mix.

correspondence: master table and version table (raw SELECTs, ordered by id) and the outcome after
every step of a generated history over several masters of a fresh versioned class, against the Lean
model driver (`drv_c20`).
oracle (independent of the model): a harness-side Python list per master of the row's successive
states (appended on every *successful* create/update with what a raw SELECT returns) compared with
`[v.values for v in obj.versions] + [current row]` after every step; after a successful restore
the master row equals the restored version's values.
Known open defect replayed on every run: a failing update still appends a version
(key `C20:failed-update-appends-version`).
"""
import json
import os

from vlib import sqlo

PROP = 'C20'
KEY_FAILED = 'C20:failed-update-appends-version'
KEY_RESTORE_CONN = 'C20:restore-ignores-explicit-connection'
KEY_DETACHED = 'C20:held-master-detached-by-commit'
META = {
    'extractors': ['pyversion'],
    'technique': ('Lean 4 proof (history invariant by induction over the operation list; per-step frame lemma for '
                  'other masters; concrete counter-witness) + differential correspondence on master/version tables'),
    'level_text': ('Theorems C20_*: for every history of create/assign/set/restore over any number of masters in which no '
                   'update fails, versions(m) ++ [current(m)] is exactly the sequence of states of row m '
                   '(C20_versions_are_history_partial); the unrestricted statement is refuted by a concrete history with a '
                   'failing update (C20_versions_are_history_full_FALSE, replayed on the real code every run); restore makes '
                   'the master equal to the version and records the overwritten state as the newest version (C20_restore_spec); '
                   'an operation on one master never changes the version list of another and every version only ever holds a '
                   'state of its own master, for all histories incl. failing updates (C20_masters_disjoint).'),
    'level_note': ('TRANSLATOR tie (vlib/extractors/pyversion.py -> Extracted/PyVersion.lean, Model/PyVersion.lean, Model/VersionX.lean, '
                   'Model/VersionXC.lean): the whole of sqlobject/versioning/__init__.py is translated from the AST on every run; '
                   'C20_translated_rowUpdate/restore/get/select/nextVersion/getattr/getColumns/addtoclass/setup_eq_model prove the '
                   'translated functions equal to the model steps (rowUpdate = the snapshot of vUpdateVec, restore = dstep restore, '
                   '__get__ = versionsOf per connection, getColumns/__addtoclass__ = stripped column copies + the two listeners) for all '
                   'inputs, calls into SQLObject (asDict, constructor, get, set below its signal, SQLObject.select, type, events.listen) '
                   'being the parameters stated in the headers of Model/VersionX.lean and Model/VersionXC.lean; getChangedFields is '
                   'translated and run on a witness only. '
                   'Trusted: Lean kernel; the sampling correspondence; SQLite returns `obj.versions` (no ORDER BY) in id order. '
                   'dateArchived is abstracted to the insertion sequence (version id).'),
    'rule': ('cases = (unique first column or not, history of <= 20 ops create/assign/set/restore over <= 4 masters of a fresh '
             'versioned class with 3 int columns, incl. rejected values, unknown keywords, UNIQUE violations, empty set(); '
             'connection mode: caching / cache=False / two databases with masters made through connection= / every master '
             'bound to a transaction of a file database, checked again after commit / a cache with cullFrequency 0-3 and '
             'cullFraction 2-3 so that several culls fall inside a history, with interleaved Master.get() of held masters; '
             'on file databases (cache on / cache=False) a third of the updates is made through a transaction that is committed '
             '(model: an ordinary update) or rolled back (model: nothing) while the plain connection\'s instance stays held; in 30% of '
             'the cases a second versioned class declared with Versioning(extraCols=<columns named like master columns of the '
             'class under test>) is created, updated and restored in between; '
             'in 30% of the cases column c2 has a custom converting validator2 (Decimal amount <-> integer cents) that the '
             'version class must inherit; the clock that stamps dateArchived (sqlobject.versioning.datetime, replaced by the '
             'harness) runs forwards / stands still / runs backwards (20% each of the last two); 30% of the restores are '
             'preceded by an out-of-band raw UPDATE of the master row, so the restoring side\'s cached values are stale; '
             'primary keys: AUTOINCREMENT ints (65%), explicit string keys that are mostly numeric look-alikes '
             "('7', '07', '7.0', '7e0', '', ' 7' ...; 25%) or explicit ints incl. 0, negatives and > 2^31 (10%), the same keys in "
             'every database of a case; masters are constructor-made and held; '
             'restore is followed by an update of the same master in most cases); '
             'distinct = distinct request line; non-trivial = at least two versions exist at the end'),
    'trusted': ['SQLite returns the rows of `SELECT … WHERE master_id = ?` in rowid order'],
    'modelled': ['master ids are abstract keys: the model numbers the masters of a database 1, 2, 3, ... in creation order and the '
                 'harness renames explicit (string / int) keys to that numbering; a stored master_id that is no master\'s key (or has '
                 'another type) is shown raw and is a correspondence diff as well as a C20:masters-mix oracle failure',
                 'validation abstracted to {int, None, rejected value}; UPDATE rejection modelled by a UNIQUE first column',
                 'versioned inheritable classes and extraCols are outside the model',
                 'destroying a master is not part of the quantifier (create/assign/set/restore)'],
    'assumptions': ['translated functions: the interface assumptions in the headers of Model/VersionX.lean / Model/VersionXC.lean; '
                    'column keywords distinct and none of id/masterID/dateArchived; the master class is not inheritable (childName None)',
                    'the theorem versions_are_history holds for histories without a failing update only: the code snapshots on '
                    'the before-event (known finding ' + KEY_FAILED + ')',
                    'after a COMMITTED transactional update the program fetches the master again (guarded stream): commit() expires '
                    'the plain connection\'s instance and expire() evicts it from the cache (open C04:expire-then-get); the unguarded '
                    'history is replayed as known finding ' + KEY_DETACHED,
                    'one live instance per row and connection (the identity map, C04); the cache=False stream checks that the '
                    'held master shows the row after every step'],
    'exhaustive': False,
}

NCOLS = 3
DEFAULTS = [100, 101, 102]
BAD = 'x'
_env = {}


def env():
    if _env:
        return _env
    sqlo.setup()
    import atexit
    import shutil
    import tempfile
    # the clock `dateArchived` is stamped with (datetime.now, looked up in sqlobject.versioning when a versioned class
    # is declared) is under the harness's control: it may run forwards, stand still or run BACKWARDS (DST fall-back,
    # clock correction); the order of `obj.versions` must not depend on it
    import datetime as _dt
    from sqlobject import versioning as _versioning

    class FakeClock(object):
        step = [1]
        t = [_dt.datetime(2026, 10, 25, 2, 30, 0)]

        @classmethod
        def now(cls):
            cls.t[0] = cls.t[0] + _dt.timedelta(seconds=cls.step[0])
            return cls.t[0]
    _versioning.datetime = FakeClock
    _env['clock'] = FakeClock
    _env['mem'] = sqlo.mem_conn()                 # default: caching connection
    _env['nocache'] = sqlo.mem_conn(cache=False)  # cache=False: only weak references to held instances
    _env['other'] = sqlo.mem_conn()               # a second database, reached through connection= only
    _env['cull'] = sqlo.mem_conn()                # its CacheSet is replaced per case by one with a small cullFrequency
    d = tempfile.mkdtemp(prefix='verif_c20_')
    atexit.register(shutil.rmtree, d, True)
    _env['file'] = sqlo.file_conn(os.path.join(d, 'tx.db'))   # transactions need a database two connections share
    _env['file'].query('PRAGMA synchronous=OFF')
    _env['filenc'] = sqlo.file_conn(os.path.join(d, 'txnc.db'), cache=False)   # the same with cache=False
    _env['filenc'].query('PRAGMA synchronous=OFF')
    return _env


MODES = ('mem', 'nocache', 'twodb', 'tx', 'cull', 'txmix', 'txmixnc')


def enc_val(v):
    if v is None:
        return 'n'
    if isinstance(v, bool) or not isinstance(v, int):
        return 'b'
    return 'i%d' % v


def enc_kw(kw):
    items = sorted(dict(kw).items())
    return ','.join('%d=%s' % (k, enc_val(v)) for k, v in items) or '-'


SKIP_OPS = ('G', 'TX', 'X')     # executed on the real code only: the model state does not change


def enc_op(op):
    if op[0] == 'T':            # assignment through a transaction that is committed at once = an assignment
        return 'A %d %d %s' % (op[1], op[2], enc_val(op[3]))
    if op[0] == 'TS':
        return 'S %d %s' % (op[1], enc_kw(op[2]))
    if op[0] == 'RR':           # the row is changed behind the held instance's back, then a version is restored = the restore
        return 'R %d' % op[1]
    if op[0] == 'TRA':          # tx assignment, rollback, begin, assignment through the same tx instance, commit = the 2nd one
        return 'A %d %d %s' % (op[1], op[4], enc_val(op[5]))
    if op[0] in SKIP_OPS:
        return '%s %s' % (op[0], ' '.join(str(x) for x in op[1:]))
    if op[0] == 'C':
        return 'C %s' % enc_kw(op[1])
    if op[0] == 'A':
        return 'A %d %d %s' % (op[1], op[2], enc_val(op[3]))
    if op[0] == 'S':
        return 'S %d %s' % (op[1], enc_kw(op[2]))
    return 'R %d' % op[1]


def mode_of(case):
    return case.get('mode', 'mem')


def line_of(case):
    if mode_of(case) == 'twodb':
        return 'W %d %s %d | %s' % (NCOLS, ','.join(enc_val(v) for v in DEFAULTS), 1 if case['uniq0'] else 0,
                                    ' ; '.join('@%d %s' % (d, enc_op(op)) for d, op in case['ops'] if op[0] not in SKIP_OPS))
    return 'V %d %s %d | %s' % (NCOLS, ','.join(enc_val(v) for v in DEFAULTS), 1 if case['uniq0'] else 0,
                                ' ; '.join(enc_op(op) for op in case['ops'] if op[0] not in SKIP_OPS))


def norm_op(op):
    op = list(op)
    if op[0] == 'C':
        return ('C', tuple(tuple(x) for x in op[1]))
    if op[0] in ('S', 'TS'):
        return (op[0], op[1], tuple(tuple(x) for x in op[2]))
    return tuple(op)


def norm_case(case):
    mode = case.get('mode', 'W' if case.get('kind') == 'W' else 'mem')
    if mode == 'W':
        mode = 'twodb'
    if mode == 'twodb':
        ops = [(d, norm_op(op)) for d, op in case['ops']]
    else:
        ops = [norm_op(op) for op in case['ops']]
    return {'mode': mode, 'uniq0': bool(case.get('uniq0', False)), 'ops': ops, 'nomodel': bool(case.get('nomodel', False)),
            'cull': tuple(case['cull']) if case.get('cull') else None,
            'ids': case.get('ids'), 'idlist': list(case.get('idlist') or []), 'sib': bool(case.get('sib')),
            'noguard': bool(case.get('noguard')), 'conv': bool(case.get('conv')), 'clock': case.get('clock') or 'fwd'}


def colname(k):
    return 'c%d' % k if k < NCOLS else 'zz%d' % k


def make_class(uniq0, mode, cull=None, ids=None, conv=False):
    """returns (class, [connection of database 0, connection of database 1 or None], transaction or None)"""
    from sqlobject import SQLObject, IntCol
    from sqlobject.versioning import Versioning
    e = env()
    base = {'mem': e['mem'], 'nocache': e['nocache'], 'twodb': e['mem'], 'tx': e['file'], 'cull': e['cull'],
            'txmix': e['file'], 'txmixnc': e['filenc']}[mode]
    if mode == 'cull':
        # culls (strong -> weak references) happen every few creations / get()s within the history; an instance
        # the harness holds must stay THE instance of its row through any number of culls
        from sqlobject.cache import CacheSet
        freq, frac = cull or (1, 2)
        base.cache = CacheSet(cache=True, cullFrequency=freq, cullFraction=frac)
    name = sqlo.uniq('C20M')
    attrs = {'_connection': base, 'versions': Versioning()}
    for k in range(NCOLS):
        kw = {'default': DEFAULTS[k], 'dbName': colname(k)}
        if k == 0 and uniq0:
            kw['unique'] = True
        if k == CONV_COL and conv:
            # a column with a custom converting validator (validator2): the program sees Decimal amounts, the row holds
            # integer cents; the version class must convert in the same way
            kw['validator2'] = cents_validator()
            kw['default'] = to_amount(DEFAULTS[k])
        attrs[colname(k)] = IntCol(**kw)

    class sqlmeta:
        table = name.lower()
    if ids == 'str':
        sqlmeta.idType = str          # string primary keys: the version table's master_id must hold them unchanged
    attrs['sqlmeta'] = sqlmeta
    cls = type(name, (SQLObject,), attrs)
    cls.createTable()
    conns = [base, None]
    trans = None
    if mode == 'twodb':
        cls.createTable(connection=e['other'])
        conns[1] = e['other']
    if mode == 'tx':
        trans = base.transaction()
        conns[0] = trans          # every master of the case is bound to the transaction
    return cls, conns, trans


CONV_COL = 2


def to_amount(v):
    """model value (stored cents) -> what the program passes / sees for the converting column"""
    from decimal import Decimal
    if isinstance(v, bool) or not isinstance(v, int):
        return v
    return Decimal(v) / 100


def from_amount(v):
    from decimal import Decimal
    if isinstance(v, Decimal):
        c = v * 100
        return int(c) if c == int(c) else v
    return v


def cents_validator():
    from decimal import Decimal, InvalidOperation
    from formencode import validators

    class Cents(validators.Validator):
        def from_python(self, value, state):
            if value is None:
                return None
            try:
                return int((Decimal(value) * 100).to_integral_value())
            except (InvalidOperation, TypeError, ValueError):
                raise validators.Invalid('not an amount: %r' % (value,), value, state)

        def to_python(self, value, state):
            if value is None:
                return None
            return Decimal(value) / 100
    return Cents()


def make_sibling(conn):
    """a second versioned class whose version table has an EXTRA column named like a master column (c1) of the class
    under test; its own master has c0 only"""
    from sqlobject import SQLObject, IntCol
    from sqlobject.versioning import Versioning
    name = sqlo.uniq('C20S')

    class sqlmeta:
        table = name.lower()
    cls = type(name, (SQLObject,), {
        '_connection': conn, 'sqlmeta': sqlmeta, 'c0': IntCol(default=0, dbName='c0'),
        'versions': Versioning(extraCols={colname(1): IntCol(default=5, dbName='c1'),
                                          colname(2): IntCol(default=6, dbName='c2')})})
    cls.createTable()
    return cls


def exc_out(e):
    n = sqlo.exc_name(e)
    if n in ('Invalid', 'Duplicate', 'NotFound'):
        return n
    if isinstance(e, TypeError):
        return 'TypeError'
    return n


def tables(cls, conn, back=None):
    """raw contents of the master and the version table.  `back` (explicit ids only): real id -> number of the
    master in creation order, which is what the model calls it; an id that is no master's id is shown raw."""
    cols = ', '.join(colname(k) for k in range(NCOLS))
    m = conn.queryAll('SELECT id, %s FROM %s ORDER BY id' % (cols, cls.sqlmeta.table))
    vcls = cls.versions.versionClass
    v = conn.queryAll('SELECT id, master_id, %s FROM %s ORDER BY id' % (cols, vcls.sqlmeta.table))
    m = [(r[0], list(r[1:])) for r in m]
    v = [(r[0], r[1], list(r[2:])) for r in v]
    if back is not None:
        def ren(x):
            return back[x] if (x in back and type(x) is type(next(iter(back)))) else 'raw:%r' % (x,)
        m = sorted(((ren(i), vals) for i, vals in m), key=lambda t: (isinstance(t[0], str), t[0]))
        v = [(i, ren(mm), vals) for i, mm, vals in v]
    return m, v


def fmt_state(m, v):
    ms = ' '.join('%s:%s' % (i, ','.join(enc_val(x) for x in vals)) for i, vals in m) or '-'
    vs = ' '.join('%d:%s:%s' % (i, mm, ','.join(enc_val(x) for x in vals)) for i, mm, vals in v) or '-'
    return '%s # %s' % (ms, vs)


# explicit primary keys: numeric look-alikes for string ids (a master_id column with numeric affinity would
# identify them), and the edges of the int range incl. 0 and negatives
STR_IDS = ['7', '07', '7.0', '007', '7e0', '70e-1', '1e2', '100', '0', '00', '', ' 7', '7 ', '+7', '-0', '0x7', 'abc', 'x7', '7x']
INT_IDS = [0, -1, -3, 5, 7, 2 ** 31, 2 ** 40, 10 ** 15, 1, 2]


def run_case(case, oracle=None):
    """returns list of (out, state per database) per op; calls oracle(key, what, n) on failures.
    Every master is made by the constructor and stays referenced by the harness (`objs`)."""
    mode = mode_of(case)
    ids = case.get('ids')
    idlist = case.get('idlist') or []
    conv = bool(case.get('conv'))
    env()['clock'].step[0] = {'fwd': 1, 'same': 0, 'back': -1}[case.get('clock') or 'fwd']
    cls, conns, trans = make_class(case['uniq0'], mode, case.get('cull'), ids, conv)

    def pv(k2, v):
        return to_amount(v) if (conv and k2 == CONV_COL) else v

    def pkw(kw):
        return {colname(kk): pv(kk, v) for kk, v in kw}

    def rd(o):
        vals = [getattr(o, colname(c)) for c in range(NCOLS)]
        if conv:
            vals[CONV_COL] = from_amount(vals[CONV_COL])
        return vals
    vcls = cls.versions.versionClass
    ndb0 = 2 if mode == 'twodb' else 1
    # explicit ids: the model numbers the masters of a database 1, 2, 3 ... in creation order
    real = {}                                  # (db, model id) -> real id
    back = [dict() for _ in range(ndb0)] if ids else [None] * ndb0   # real id -> model id
    attempts = [0] * ndb0

    def rid(d, m):
        return real.get((d, m), m) if ids else m
    sib = {'cls': None, 'obj': None}
    explicit = (mode in ('twodb', 'tx'))
    objs = {}        # (db, id) -> instance
    hist = {}        # (db, id) -> successive row states (harness-side; only successful operations append)
    results = []
    ndb = 2 if mode == 'twodb' else 1

    def kwconn(d):
        # database 0 of the plain modes is the class's own connection: no connection= argument at all
        return {'connection': conns[d]} if (explicit and (d == 1 or mode == 'tx')) else {}

    def check_history(n, what):
        rows = [dict(tables(cls, conns[d], back[d])[0]) for d in range(ndb)]
        for (d, mid), o in sorted(objs.items()):
            vs = list(o.versions)
            got = [rd(ver) for ver in vs] + [rows[d].get(mid)]
            shown = rd(o)
            want = rid(d, mid)
            yield (d, mid), got, shown, [(ver.id, ver.masterID) for ver in vs
                                         if ver.masterID != want or type(ver.masterID) is not type(want)]

    try:
        for n, item in enumerate(case['ops']):
            d, op = item if mode == 'twodb' else (0, item)
            out = 'ok'
            k = op[0]
            if k == 'X':
                # activity on ANOTHER versioned class of the same process, declared with Versioning(extraCols=...) whose
                # extra column is named like a real column of the class under test: create / update / restore there
                if sib['cls'] is None:
                    sib['cls'] = make_sibling(conns[0] if trans is None else cls._connection)
                    sib['obj'] = sib['cls'](c0=1)
                else:
                    so = sib['obj']
                    so.c0 = (so.c0 or 0) + 1
                    sv = list(so.versions)[0]
                    want = sv.c0
                    sv.restore()
                    rawv = sib['cls']._connection.queryAll('SELECT c0 FROM %s WHERE id = %d' % (sib['cls'].sqlmeta.table, so.id))
                    if (rawv[0][0] != want or so.c0 != want) and oracle is not None:
                        oracle('C20:restore-not-equal-version', 'second versioned class (extraCols): after restore the row holds %s, '
                               'the instance shows %s, the version held %s' % (rawv[0][0], so.c0, want), n)
                continue
            if k == 'TX':
                # an assignment through a transaction that is rolled back: nothing may change, not even the held instance
                if (d, op[1]) in objs:
                    t = conns[d].transaction()
                    try:
                        mt = cls.get(rid(d, op[1]), connection=t)
                        setattr(mt, colname(op[2]), pv(op[2], op[3]))
                    finally:
                        t.rollback()
                        t.begin()
                        t.commit(close=True)
                    for key, got, shown, foreign in check_history(n, op):
                        if got != hist[key]:
                            if oracle is not None:
                                oracle('C20:versions-not-history', 'master %s (mode %s): after a rolled back transactional update '
                                       'versions+current = %s, history = %s' % (key, mode, got, hist[key]), n)
                            hist[key] = got
                        elif shown != got[-1] and oracle is not None:
                            oracle('C20:held-master-stale', 'master %s (mode %s): after a rolled back transactional update the held '
                                   'instance shows %s, its row is %s' % (key, mode, shown, got[-1]), n)
                continue
            if k == 'G':
                # `Master.get(id)` of a master the harness holds: no model step; it must return the held instance
                if (d, op[1]) in objs:
                    got = cls.get(rid(d, op[1]), **kwconn(d))
                    if got is not objs[(d, op[1])] and oracle is not None:
                        oracle('C20:held-master-stale', 'Master.get(%d) built a second instance while the first one is still held'
                               % op[1], n)
                continue
            target = None
            restored = None
            oob_undo = None
            try:
                if k == 'C':
                    kw = pkw(op[1])
                    kw.update(kwconn(d))
                    if ids:
                        kw['id'] = idlist[attempts[d] % len(idlist)]
                        attempts[d] += 1
                    o = cls(**kw)
                    if ids:
                        mid = len(back[d]) + 1
                        real[(d, mid)] = o.id
                        back[d][o.id] = mid
                    else:
                        mid = o.id
                    objs[(d, mid)] = o
                    target = (d, mid)
                elif k == 'A':
                    if (d, op[1]) not in objs or op[2] >= NCOLS:
                        out = 'nohandle'
                    else:
                        target = (d, op[1])
                        setattr(objs[target], colname(op[2]), pv(op[2], op[3]))
                elif k == 'TRA':
                    # an assignment through a transaction is rolled back; the transaction begins again and the SAME
                    # transaction-side instance is assigned to and committed: the version must hold the row's real state
                    if (d, op[1]) not in objs:
                        out = 'nohandle'
                    else:
                        target = (d, op[1])
                        t = conns[d].transaction()
                        try:
                            mt = cls.get(rid(d, op[1]), connection=t)
                            setattr(mt, colname(op[2]), pv(op[2], op[3]))
                            t.rollback()
                            t.begin()
                            setattr(mt, colname(op[4]), pv(op[4], op[5]))
                            t.commit(close=True)
                        except Exception:
                            t.rollback()
                            t.begin()
                            t.commit(close=True)
                            raise
                        if not case.get('noguard'):
                            objs[target] = cls.get(rid(*target), **kwconn(d))
                elif k in ('T', 'TS'):
                    # the update is made through a transaction (its own instance of the row) and committed; the instance the
                    # harness holds on the plain connection must follow
                    if (d, op[1]) not in objs or (k == 'T' and op[2] >= NCOLS):
                        out = 'nohandle'
                    else:
                        target = (d, op[1])
                        t = conns[d].transaction()
                        try:
                            mt = cls.get(rid(d, op[1]), connection=t)
                            if k == 'T':
                                setattr(mt, colname(op[2]), pv(op[2], op[3]))
                            else:
                                mt.set(**pkw(op[2]))
                            t.commit(close=True)
                        except Exception:
                            t.rollback()
                            t.begin()
                            t.commit(close=True)
                            raise
                        if not case.get('noguard'):
                            # guarded stream: after a commit the program fetches the master again.  commit() expires the
                            # plain connection's instance and SQLObject.expire() also evicts it from that cache (open
                            # C04:expire-then-get), so the old handle is no longer THE instance of the row; the unguarded
                            # consequence for versioning is replayed by WITNESS_DETACHED under KEY_DETACHED
                            objs[target] = cls.get(rid(*target), **kwconn(d))
                elif k == 'S':
                    if (d, op[1]) not in objs:
                        out = 'nohandle'
                    else:
                        target = (d, op[1])
                        objs[target].set(**pkw(op[2]))
                else:
                    try:
                        ver = vcls.get(op[1], **kwconn(d))
                        if k == 'RR' and ver is not None:
                            # another process / raw SQL changes a column of the master row; the instance the restoring
                            # side holds still has the old values cached.  restore() must make the ROW equal the version.
                            prev = conns[d].queryAll('SELECT %s FROM %s WHERE id = %s' % (
                                colname(op[2]), cls.sqlmeta.table, conns[d].sqlrepr(ver.masterID)))
                            conns[d].query('UPDATE %s SET %s = %d WHERE id = %s' % (
                                cls.sqlmeta.table, colname(op[2]), op[3], conns[d].sqlrepr(ver.masterID)))
                            if prev:
                                oob_undo = 'UPDATE %s SET %s = %s WHERE id = %s' % (
                                    cls.sqlmeta.table, colname(op[2]), conns[d].sqlrepr(prev[0][0]),
                                    conns[d].sqlrepr(ver.masterID))
                    except Exception as ex:
                        if exc_out(ex) != 'NotFound':
                            raise
                        ver = None
                    if ver is None:
                        out = 'nohandle'
                    else:
                        mref = ver.masterID
                        if ids:
                            known = mref in back[d] and type(mref) is type(next(iter(back[d])))
                            if not known and oracle is not None:
                                oracle('C20:masters-mix', 'version %d reads its masterID back as %r, which is no master\'s id (%s)'
                                       % (ver.id, mref, sorted(map(repr, back[d]))), n)
                            mref = back[d].get(mref, mref) if known else ('raw', mref)
                        target = (d, mref)
                        restored = rd(ver)
                        try:
                            ver.restore()
                        except Exception as ex:
                            if exc_out(ex) != 'NotFound':
                                raise
                            out = 'nohandle'      # the master could not be fetched
            except Exception as ex:
                out = exc_out(ex)
            if oob_undo is not None and out != 'ok':
                # the restore that was to overwrite the harness's own out-of-band write did not complete (refused by the
                # UNIQUE constraint or a validator): the write is the harness's, not sqlobject's, and the model line encodes
                # RR as a plain restore, so the harness takes its write back; what remains is a plain failed restore
                conns[d].query(oob_undo)
            states = [tables(cls, conns[dd], back[dd]) for dd in range(ndb)]
            results.append((out, states))
            if oracle is None:
                continue
            rows = dict(states[d][0])
            resync = False
            if k in ('R', 'RR') and restored is not None and target in objs and (out != 'ok' or rows.get(target[1]) != restored):
                if kwconn(d):
                    oracle(KEY_RESTORE_CONN, 'restore of a version of master %s bound to an explicit connection (%s): '
                           'outcome %s, its row is %s, the version held %s' % (target[1], mode, out, rows.get(target[1]), restored), n)
                    resync = True
                elif out == 'ok':
                    oracle('C20:restore-not-equal-version', 'after restore the master row is %s, the version held %s'
                           % (rows.get(target[1]), restored), n)
            if k in ('R', 'RR') and target is not None and target not in objs:
                resync = True        # the version pointed at no known master (already reported): re-read every history
            if out == 'ok' and target is not None and not resync:
                if k == 'C':
                    hist[target] = [rows[target[1]]]
                else:
                    hist[target].append(rows[target[1]])
            # the property's check, through the public API, for every held master after every step
            for key, got, shown, foreign in check_history(n, op):
                if resync:
                    hist[key] = got
                    continue
                if got != hist[key]:
                    failed_update = (k != 'C' and out in ('Invalid', 'TypeError', 'Duplicate') and target == key
                                     and got[:-2] + got[-1:] == hist[key] and got[-2] == got[-1])
                    if failed_update:
                        oracle(KEY_FAILED, 'the failed update %s (%s) left a version: versions+current = %s, history of '
                               'successful states = %s' % (enc_op(op), out, got, hist[key]), n)
                    else:
                        oracle('C20:versions-not-history', 'master %s (mode %s): versions+current = %s, history = %s (op %s -> %s)'
                               % (key, mode, got, hist[key], enc_op(op), out), n)
                    hist[key] = got      # resynchronise so that later steps are still checked
                elif shown != got[-1]:
                    oracle('C20:held-master-stale', 'master %s (mode %s): the held instance shows %s, its row is %s (op %s -> %s)'
                           % (key, mode, shown, got[-1], enc_op(op), out), n)
                if foreign:
                    oracle('C20:masters-mix', 'master %s (id %r) lists versions (id, masterID) %s that are not its own'
                           % (key, rid(*key), foreign), n)
        if trans is not None:
            trans.commit(close=True)
            trans = None
            # after the commit the default connection shows the same histories
            rows = dict(tables(cls, cls._connection, back[0])[0])
            for (d, mid) in sorted(objs):
                o = cls.get(rid(d, mid))
                got = [rd(ver) for ver in o.versions] + [rows.get(mid)]
                if oracle is not None and got != hist[(d, mid)]:
                    oracle('C20:versions-not-history', 'after commit master %s: versions+current = %s, history = %s'
                           % (mid, got, hist[(d, mid)]), len(case['ops']))
    finally:
        if trans is not None:
            try:
                trans.rollback()
            except Exception:
                pass
    return results


def fmt_results(results):
    return ' ; '.join('%s # %s' % (out, ' ## '.join(fmt_state(m, v) for m, v in states)) for out, states in results)


# ----------------------------------------------------------------------------- generator
def gen_val(rng, bad=0.05):
    r = rng.random()
    if r < bad:
        return BAD
    if r < bad + 0.08:
        return None
    return rng.randint(0, 12)


def gen_kw(rng, bad=0.05):
    n = rng.choice([0, 1, 1, 2, 2, 3])
    keys = rng.sample(range(NCOLS), n)
    kw = [(k, gen_val(rng, bad)) for k in keys]
    if rng.random() < 0.03:
        kw.append((NCOLS, 1))
    return tuple(kw)


def gen_case(rng, clean, mode='mem'):
    """clean: no failing update on purpose (the theorem's hypothesis); otherwise the full mix.
    mode: 'mem' | 'nocache' (cache=False connection) | 'twodb' (masters of database 1 are made with connection=)
    | 'tx' (every master is bound to a transaction of a file database)"""
    uniq0 = (not clean) and rng.random() < 0.5
    bad = 0.0 if clean else 0.07
    ndb = 2 if mode == 'twodb' else 1
    first = 20
    ops = []
    nm = [0] * ndb
    nv = [0] * ndb
    for d in range(ndb):
        ops.append((d, ('C', ((0, first + d),))))
        nm[d] = 1
    txmix = mode in ('txmix', 'txmixnc')
    if txmix:
        uniq0 = False        # a rejected UPDATE inside a transaction is rolled back together with its version row
    sibling = mode != 'tx' and rng.random() < 0.3
    maxm = 7 if mode == 'cull' else 4
    for _ in range(rng.randint(3, 12 if mode == 'tx' else (30 if mode == 'cull' else 20))):
        r = rng.random()
        d = rng.randint(0, ndb - 1)
        m = rng.randint(1, nm[d]) if rng.random() < 0.96 else nm[d] + 1
        if sibling and rng.random() < 0.15:
            ops.append((d, ('X',)))                 # another versioned class (extraCols) is used in between
            continue
        if txmix and rng.random() < 0.35:
            # the update goes through a transaction: committed (model: an ordinary update) or rolled back (model: nothing)
            rr = rng.random()
            if rr < 0.15:
                ops.append((d, ('TRA', m, rng.randint(0, NCOLS - 1), gen_val(rng, 0.0),
                                rng.randint(0, NCOLS - 1), gen_val(rng, 0.0))))
                nv[d] += 1
            elif rr < 0.5:
                ops.append((d, ('T', m, rng.randint(0, NCOLS - 1), gen_val(rng, 0.0))))
                nv[d] += 1
            elif rr < 0.8:
                ops.append((d, ('TS', m, tuple((k2, v2) for k2, v2 in gen_kw(rng, 0.0) if k2 < NCOLS))))
                nv[d] += 1
            else:
                ops.append((d, ('TX', m, rng.randint(0, NCOLS - 1), gen_val(rng, 0.0))))
            continue
        if mode == 'cull' and rng.random() < 0.3:
            ops.append((d, ('G', rng.randint(1, nm[d]))))      # get() of some master: counts towards the next cull
            continue
        if r < (0.2 if mode == 'cull' else 0.12) and nm[d] < maxm:
            kw = [(k, v) for k, v in gen_kw(rng, bad) if k != 0 and (k < NCOLS or not clean)]
            ops.append((d, ('C', tuple([(0, 41 + 10 * d + nm[d])] + kw))))
            nm[d] += 1
        elif r < 0.50:
            ops.append((d, ('A', m, rng.randint(0, NCOLS - 1), gen_val(rng, bad))))
            nv[d] += 1
        elif r < 0.80:
            kw = gen_kw(rng, bad)
            if clean:
                kw = tuple((k, v) for k, v in kw if k < NCOLS)
            ops.append((d, ('S', m, kw)))
            nv[d] += 1
        else:
            vid = rng.randint(1, max(1, nv[d])) if rng.random() < 0.95 else nv[d] + 3
            if rng.random() < 0.3 and mode != 'tx':
                # the row is changed out of band just before the restore (a column other than the unique one)
                ops.append((d, ('RR', vid, rng.randint(1, NCOLS - 1), 900 + len(ops))))
            else:
                ops.append((d, ('R', vid)))
            nv[d] += 1
            if rng.random() < 0.7:
                # "held master, restore, then update": the next update must archive the restored values
                ops.append((d, ('A', m, rng.randint(0, NCOLS - 1), gen_val(rng, bad))))
                nv[d] += 1
    if mode != 'twodb':
        ops = [op for _, op in ops]
    case = {'mode': mode, 'uniq0': uniq0, 'ops': ops, 'sib': sibling,
            'conv': rng.random() < 0.3, 'clock': rng.choice(['fwd', 'fwd', 'fwd', 'same', 'back'])}
    r = rng.random()
    if r < 0.25:
        # string primary keys, mostly numeric look-alikes; the same keys are used in every database of the case
        pool = list(STR_IDS)
        rng.shuffle(pool)
        head = rng.sample(['7', '07', '7.0', '007', '7e0', '70e-1'], 3)
        case['ids'] = 'str'
        case['idlist'] = head + [x for x in pool if x not in head]
    elif r < 0.35:
        pool = list(INT_IDS)
        rng.shuffle(pool)
        case['ids'] = 'int'
        case['idlist'] = pool
    if mode == 'cull':
        case['cull'] = (rng.choice([0, 0, 1, 2, 3]), rng.choice([2, 2, 3]))
    return case


def corpus_cases():
    d = os.path.join(os.path.dirname(os.path.dirname(os.path.abspath(__file__))), 'corpus', 'C20')
    cases = []
    if os.path.isdir(d):
        for fn in sorted(os.listdir(d)):
            if fn.endswith('.jsonl'):
                for line in open(os.path.join(d, fn)):
                    line = line.strip()
                    if line and not line.startswith('#'):
                        cases.append(norm_case(json.loads(line)))
    return cases


# the counter-witness of C20_versions_are_history_full_FALSE, replayed on the real code on every run
WITNESS = {'mode': 'mem', 'uniq0': False, 'ops': [('C', ((0, 1),)), ('A', 1, 1, BAD)]}
# restore() of a master bound to an explicit connection restored the same-id master of the default database
# (fixed by 14bb19e; kept as a corner case, key 'C20:restore-ignores-explicit-connection')
WITNESS_CONN = {'mode': 'twodb', 'uniq0': False,
                'ops': [(0, ('C', ((0, 1),))), (1, ('C', ((0, 10),))), (1, ('A', 1, 0, 11)), (1, ('R', 1))]}
# the same call inside a transaction (the master is not visible to the default connection: SQLObjectNotFound)
WITNESS_TX = {'mode': 'tx', 'uniq0': False, 'ops': [('C', ((0, 5),)), ('A', 1, 0, 6), ('R', 1)]}
# update through a committed transaction, then restore, then update through the instance held all along
WITNESS_DETACHED = {'mode': 'txmix', 'noguard': True, 'nomodel': True, 'uniq0': False,
                    'ops': [('C', ((0, 20),)), ('T', 1, 2, 0), ('R', 1), ('A', 1, 2, 7)]}
CANON = {KEY_FAILED: WITNESS, KEY_RESTORE_CONN: WITNESS_CONN, KEY_DETACHED: WITNESS_DETACHED}


def case_json(case):
    return json.loads(json.dumps(case))


def run(ctx):
    env()
    rng = ctx.rng
    cases = [WITNESS, WITNESS_CONN, WITNESS_TX, WITNESS_DETACHED] + corpus_cases()
    n = ctx.budget(800, 7000)
    for i in range(n):
        mode = ('mem', 'cull', 'nocache', 'twodb', 'txmixnc', 'mem', 'cull', 'nocache', 'twodb', 'cull', 'txmix')[i % 11]
        cases.append(gen_case(rng, clean=(i % 3 != 2), mode=mode))
    for i in range(ctx.budget(60, 400)):
        cases.append(gen_case(rng, clean=(i % 3 != 2), mode='tx'))
    outs = ctx.model([line_of(c) for c in cases])
    for i, case in enumerate(cases):
        line = line_of(case)
        mode = mode_of(case)
        fails = []
        results = run_case(case, oracle=lambda key, what, n: fails.append((key, what, n)))
        impl = fmt_results(results)
        nver = sum(len(st[1]) for st in results[-1][1]) if results else 0
        ctx.case((mode, line), nontrivial=nver >= 2, sample={'case': mode + ': ' + line, 'impl': impl[-300:]},
                 kind='%s/%s-ids/%s%s/clock-%s/%s' % (mode, case.get('ids') or 'auto', 'unique' if case['uniq0'] else 'plain',
                                    '/converting-validator' if case.get('conv') else '', case.get('clock') or 'fwd',
                                    'failing-update' if any(r[0] in ('Invalid', 'TypeError', 'Duplicate') for r in results) else 'clean'))
        for r in results:
            ctx.count('out:' + r[0])
        stream = {'mem': 'master and version tables after every step = model',
                  'nocache': 'cache=False connection: tables after every step = model',
                  'twodb': 'two databases (connection=): tables of both after every step = model',
                  'tx': 'masters bound to a transaction: tables seen by the transaction = model',
                  'cull': 'cache culled every few creations/gets: tables after every step = model',
                  'txmix': 'plain connection + committed / rolled back transactional updates: tables after every step = model',
                  'txmixnc': 'the same on a cache=False connection: tables after every step = model'}[mode]
        if not case.get('nomodel'):
            ctx.compare(stream, case_json(case), outs[i] if outs is not None else None, impl)
        if case.get('noguard'):
            # every stale-instance failure of the unguarded witness is the known consequence of the detaching expire()
            fails = [(KEY_DETACHED if key in ('C20:held-master-stale', 'C20:versions-not-history') else key, what, nstep)
                     for key, what, nstep in fails]
        seen = set()
        for key, what, nstep in fails:
            if key in seen:
                continue
            seen.add(key)
            if key in CANON:
                # canonical (minimised) witness for a known finding
                ctx.oracle_fail(key, what + ' | first seen in ' + line, case_json(CANON[key]))
            else:
                ctx.oracle_fail(key, what + ' | step %d of [%s] %s' % (nstep, mode, line), case_json(case))


def replay(case):
    env()
    case = norm_case(case)
    fails = []
    results = run_case(case, oracle=lambda key, what, n: fails.append((key, what, n)))
    return (not fails), 'case: %s\nimplementation: %s\noracle: %s' % (line_of(case), fmt_results(results),
                                                                       fails or 'all checks passed')
