"""C20 — versioning records the exact history of a row and can restore any point; versions of
different masters never mix.

correspondence: master table and version table (raw SELECTs, ordered by id) and the outcome after
every step of a generated history over several masters of a fresh versioned class, against the Lean
model driver (`drv_c20`).
oracle (independent of the model): a harness-side Python list per master of the row's successive
states (appended on every *successful* create/update with what a raw SELECT returns) compared with
`[v.values for v in obj.versions] + [current row]` after every step; after a successful restore
the master row equals the restored version's values.
Known open defect replayed on every run: a failing update still appends a version
(key `C20:failed-update-appends-version`).
"""
import json
import os

from vlib import sqlo

PROP = 'C20'
KEY_FAILED = 'C20:failed-update-appends-version'
META = {
    'extractors': [],
    'technique': ('Lean 4 proof (history invariant by induction over the operation list; per-step frame lemma for '
                  'other masters; concrete counter-witness) + differential correspondence on master/version tables'),
    'level_text': ('Theorems C20_*: for every history of create/assign/set/restore over any number of masters in which no '
                   'update fails, versions(m) ++ [current(m)] is exactly the sequence of states of row m '
                   '(C20_versions_are_history_partial); the unrestricted statement is refuted by a concrete history with a '
                   'failing update (C20_versions_are_history_full_FALSE, replayed on the real code every run); restore makes '
                   'the master equal to the version and records the overwritten state as the newest version (C20_restore_spec); '
                   'an operation on one master never changes the version list of another and every version only ever holds a '
                   'state of its own master, for all histories incl. failing updates (C20_masters_disjoint).'),
    'level_note': ('Trusted: Lean kernel; the sampling correspondence; SQLite returns `obj.versions` (no ORDER BY) in id order. '
                   'dateArchived is abstracted to the insertion sequence (version id).'),
    'rule': ('cases = (unique first column or not, history of <= 20 ops create/assign/set/restore over <= 4 masters of a fresh '
             'versioned class with 3 int columns, incl. rejected values, unknown keywords, UNIQUE violations, empty set()); '
             'distinct = distinct request line; non-trivial = at least two versions exist at the end'),
    'trusted': ['SQLite returns the rows of `SELECT … WHERE master_id = ?` in rowid order'],
    'modelled': ['validation abstracted to {int, None, rejected value}; UPDATE rejection modelled by a UNIQUE first column',
                 'versioned inheritable classes and extraCols are outside the model',
                 'destroying a master is not part of the quantifier (create/assign/set/restore)'],
    'assumptions': ['the theorem versions_are_history holds for histories without a failing update only: the code snapshots on '
                    'the before-event (known finding ' + KEY_FAILED + ')'],
    'exhaustive': False,
}

NCOLS = 3
DEFAULTS = [100, 101, 102]
BAD = 'x'
_env = {}


def env():
    if _env:
        return _env
    sqlo.setup()
    _env['conn'] = sqlo.mem_conn()
    return _env


def enc_val(v):
    if v is None:
        return 'n'
    if isinstance(v, bool) or not isinstance(v, int):
        return 'b'
    return 'i%d' % v


def enc_kw(kw):
    items = sorted(dict(kw).items())
    return ','.join('%d=%s' % (k, enc_val(v)) for k, v in items) or '-'


def enc_op(op):
    if op[0] == 'C':
        return 'C %s' % enc_kw(op[1])
    if op[0] == 'A':
        return 'A %d %d %s' % (op[1], op[2], enc_val(op[3]))
    if op[0] == 'S':
        return 'S %d %s' % (op[1], enc_kw(op[2]))
    return 'R %d' % op[1]


def line_of(case):
    return 'V %d %s %d | %s' % (NCOLS, ','.join(enc_val(v) for v in DEFAULTS), 1 if case['uniq0'] else 0,
                                ' ; '.join(enc_op(op) for op in case['ops']))


def norm_case(case):
    ops = []
    for op in case['ops']:
        op = list(op)
        if op[0] == 'C':
            ops.append(('C', tuple(tuple(x) for x in op[1])))
        elif op[0] == 'S':
            ops.append(('S', op[1], tuple(tuple(x) for x in op[2])))
        else:
            ops.append(tuple(op))
    return {'uniq0': bool(case['uniq0']), 'ops': ops}


def colname(k):
    return 'c%d' % k if k < NCOLS else 'zz%d' % k


def make_class(uniq0):
    from sqlobject import SQLObject, IntCol
    from sqlobject.versioning import Versioning
    name = sqlo.uniq('C20M')
    attrs = {'_connection': env()['conn'], 'versions': Versioning()}
    for k in range(NCOLS):
        kw = {'default': DEFAULTS[k], 'dbName': colname(k)}
        if k == 0 and uniq0:
            kw['unique'] = True
        attrs[colname(k)] = IntCol(**kw)

    class sqlmeta:
        table = name.lower()
    attrs['sqlmeta'] = sqlmeta
    cls = type(name, (SQLObject,), attrs)
    cls.createTable()
    return cls


def exc_out(e):
    n = sqlo.exc_name(e)
    if n in ('Invalid', 'Duplicate', 'NotFound'):
        return n
    if isinstance(e, TypeError):
        return 'TypeError'
    return n


def tables(cls):
    conn = cls._connection
    cols = ', '.join(colname(k) for k in range(NCOLS))
    m = conn.queryAll('SELECT id, %s FROM %s ORDER BY id' % (cols, cls.sqlmeta.table))
    vcls = cls.versions.versionClass
    v = conn.queryAll('SELECT id, master_id, %s FROM %s ORDER BY id' % (cols, vcls.sqlmeta.table))
    return [(r[0], list(r[1:])) for r in m], [(r[0], r[1], list(r[2:])) for r in v]


def fmt_state(m, v):
    ms = ' '.join('%d:%s' % (i, ','.join(enc_val(x) for x in vals)) for i, vals in m) or '-'
    vs = ' '.join('%d:%d:%s' % (i, mm, ','.join(enc_val(x) for x in vals)) for i, mm, vals in v) or '-'
    return '%s # %s' % (ms, vs)


def run_case(case, oracle=None):
    """returns list of (out, masters, versions) per op; calls oracle(kind, what, n) on failures"""
    cls = make_class(case['uniq0'])
    vcls = cls.versions.versionClass
    objs = {}
    hist = {}        # master id -> list of successive row states (harness-side; only successful operations append)
    results = []
    for n, op in enumerate(case['ops']):
        out = 'ok'
        k = op[0]
        target = None
        restored = None
        try:
            if k == 'C':
                o = cls(**{colname(kk): v for kk, v in op[1]})
                objs[o.id] = o
                target = o.id
            elif k == 'A':
                if op[1] not in objs or op[2] >= NCOLS:
                    out = 'nohandle'
                else:
                    target = op[1]
                    setattr(objs[op[1]], colname(op[2]), op[3])
            elif k == 'S':
                if op[1] not in objs:
                    out = 'nohandle'
                else:
                    target = op[1]
                    objs[op[1]].set(**{colname(kk): v for kk, v in op[2]})
            else:
                try:
                    ver = vcls.get(op[1])
                except Exception as ex:
                    if exc_out(ex) != 'NotFound':
                        raise
                    ver = None
                if ver is None:
                    out = 'nohandle'
                else:
                    target = ver.masterID
                    restored = [getattr(ver, colname(c)) for c in range(NCOLS)]
                    ver.restore()
        except Exception as ex:
            out = exc_out(ex)
        m, v = tables(cls)
        results.append((out, m, v))
        if oracle is None:
            continue
        rows = dict(m)
        if out == 'ok' and target is not None:
            if k == 'C':
                hist[target] = [rows[target]]
            else:
                hist[target].append(rows[target])
            if restored is not None and rows[target] != restored:
                oracle('C20:restore-not-equal-version', 'after restore the master row is %s, the version held %s'
                       % (rows[target], restored), n)
        # the property's check, through the public API, for every master after every step
        for mid, o in sorted(objs.items()):
            got = [[getattr(ver, colname(c)) for c in range(NCOLS)] for ver in o.versions] + [rows[mid]]
            if got != hist[mid]:
                failed_update = (k != 'C' and out in ('Invalid', 'TypeError', 'Duplicate') and target == mid
                                 and got[:-2] + got[-1:] == hist[mid] and got[-2] == got[-1])
                if failed_update:
                    oracle(KEY_FAILED, 'the failed update %s (%s) left a version: versions+current = %s, history of '
                           'successful states = %s' % (enc_op(op), out, got, hist[mid]), n)
                else:
                    oracle('C20:versions-not-history', 'master %d: versions+current = %s, history = %s (op %s -> %s)'
                           % (mid, got, hist[mid], enc_op(op), out), n)
                hist[mid] = got      # resynchronise so that later steps are still checked
            foreign = [ver.id for ver in o.versions if ver.masterID != mid]
            if foreign:
                oracle('C20:masters-mix', 'master %d lists versions %s of another master' % (mid, foreign), n)
    return results


def fmt_results(results):
    return ' ; '.join('%s # %s' % (out, fmt_state(m, v)) for out, m, v in results)


# ----------------------------------------------------------------------------- generator
def gen_val(rng, bad=0.05):
    r = rng.random()
    if r < bad:
        return BAD
    if r < bad + 0.08:
        return None
    return rng.randint(0, 12)


def gen_kw(rng, bad=0.05):
    n = rng.choice([0, 1, 1, 2, 2, 3])
    keys = rng.sample(range(NCOLS), n)
    kw = [(k, gen_val(rng, bad)) for k in keys]
    if rng.random() < 0.03:
        kw.append((NCOLS, 1))
    return tuple(kw)


def gen_case(rng, clean):
    """clean: no failing update on purpose (the theorem's hypothesis); otherwise the full mix"""
    uniq0 = (not clean) and rng.random() < 0.5
    bad = 0.0 if clean else 0.07
    ops = [('C', ((0, rng.randint(20, 40)),))]
    nm = 1
    nv = 0
    for _ in range(rng.randint(3, 20)):
        r = rng.random()
        m = rng.randint(1, nm) if rng.random() < 0.96 else nm + 1
        if r < 0.12 and nm < 4:
            kw = [(k, v) for k, v in gen_kw(rng, bad) if k != 0 and (k < NCOLS or not clean)]
            ops.append(('C', tuple([(0, 41 + nm)] + kw)))
            nm += 1
        elif r < 0.50:
            ops.append(('A', m, rng.randint(0, NCOLS - 1), gen_val(rng, bad)))
            nv += 1
        elif r < 0.80:
            kw = gen_kw(rng, bad)
            if clean:
                kw = tuple((k, v) for k, v in kw if k < NCOLS)
            ops.append(('S', m, kw))
            nv += 1
        else:
            ops.append(('R', rng.randint(1, max(1, nv)) if rng.random() < 0.95 else nv + 3))
            nv += 1
    return {'uniq0': uniq0, 'ops': ops}


def corpus_cases():
    d = os.path.join(os.path.dirname(os.path.dirname(os.path.abspath(__file__))), 'corpus', 'C20')
    cases = []
    if os.path.isdir(d):
        for fn in sorted(os.listdir(d)):
            if fn.endswith('.jsonl'):
                for line in open(os.path.join(d, fn)):
                    line = line.strip()
                    if line and not line.startswith('#'):
                        cases.append(norm_case(json.loads(line)))
    return cases


# the counter-witness of C20_versions_are_history_full_FALSE, replayed on the real code on every run
WITNESS = {'uniq0': False, 'ops': [('C', ((0, 1),)), ('A', 1, 1, BAD)]}


def case_json(case):
    return json.loads(json.dumps(case))


def run(ctx):
    env()
    rng = ctx.rng
    cases = [WITNESS] + corpus_cases()
    n = ctx.budget(700, 8000)
    for i in range(n):
        cases.append(gen_case(rng, clean=(i % 2 == 0)))
    outs = ctx.model([line_of(c) for c in cases])
    for i, case in enumerate(cases):
        line = line_of(case)
        fails = []
        results = run_case(case, oracle=lambda key, what, n: fails.append((key, what, n)))
        impl = fmt_results(results)
        nver = len(results[-1][2]) if results else 0
        ctx.case(line, nontrivial=nver >= 2, sample={'case': line, 'impl': impl[-300:]},
                 kind='%s/%s' % ('unique' if case['uniq0'] else 'plain',
                                 'failing-update' if any(r[0] in ('Invalid', 'TypeError', 'Duplicate') for r in results) else 'clean'))
        for r in results:
            ctx.count('out:' + r[0])
        ctx.compare('master and version tables after every step = model', case_json(case),
                    outs[i] if outs is not None else None, impl)
        seen = set()
        for key, what, nstep in fails:
            if key in seen:
                continue
            seen.add(key)
            if key == KEY_FAILED:
                # canonical (minimised) witness for the known finding
                ctx.oracle_fail(key, what + ' | first seen in ' + line, case_json(WITNESS))
            else:
                ctx.oracle_fail(key, what + ' | step %d of %s' % (nstep, line), case_json(case))


def replay(case):
    env()
    case = norm_case(case)
    fails = []
    results = run_case(case, oracle=lambda key, what, n: fails.append((key, what, n)))
    return (not fails), 'case: %s\nimplementation: %s\noracle: %s' % (line_of(case), fmt_results(results),
                                                                       fails or 'all checks passed')
