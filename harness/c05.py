"""C05 — cached attribute values always agree with the database row   (shared machinery for C16).

correspondence: op histories through the real code (in-memory SQLite, statement-logging connection) and
through the Lean model driver (`drv_c05` / `drv_c16`, model `OrmVal`): outcome of every op, the statements it
sent, the number of UPDATEs, and after every step the white-box state of every held instance (cached
attributes, expired, dirty, pending, obsolete, in-cache) and every raw row.
oracle (no model involved): after every step every column of every held instance is compared with a raw
SELECT through a separate cursor of the same sqlite3 connection (for lazy-dirty instances: the harness's own
record of the unwritten assignments).  Mode 'A' histories really read every attribute after every step,
mode 'B' histories inspect the cached attribute a read would return (so that expired states survive between
steps) and read at random.
"""
import gc
import json
import os
import pickle
import re

from vlib import sqlo

PROP = 'C05'
HERE = os.path.dirname(os.path.dirname(os.path.abspath(__file__)))

META = {
    'extractors': ['pymain'],
    'technique': ('Lean 4 proof (refinement invariant OrmValInv preserved by every library operation, induction over '
                  'histories) + TRANSLATION of the instance methods expire / sync / _SO_selectInit / _SO_loadValue / '
                  '_SO_getValue (and syncUpdate, _SO_setValue, set) from main.py into a deep embedding on every run, '
                  'with proofs by symbolic execution that they equal the hand model for all states '
                  '+ differential correspondence of the hand-written model with main.py on generated histories '
                  '+ raw-SELECT oracle after every step'),
    'level_text': ('Theorems C05_inv_reachable / C05_read_eq_db: in every state reachable by any history of library '
                   'operations (create, get, select refresh, read, setattr, set, syncUpdate, sync, expire, expireAll, '
                   'destroySelf with its cascade=null / cascade=True dependents loop, pickle; any failures injected) every attribute read of a held live instance returns the '
                   'stored value (the pending one for lazy-dirty objects), for eager, lazy and cacheValues=False classes; '
                   'C05_oob_then_sync / C05_oob_then_expire: from ANY state, sync()/expire() make reads return the '
                   'stored value or raise.  The model is hand-written from main.py and compared with the real code on '
                   'every run (outcomes, statements, white-box instance state, raw rows after every step).  '
                   'C05_translated_{expire,sync,loadValue,getValue}_eq_model / C05_translated_selectInit_eq_loadRow: the '
                   'bodies of these SQLObject methods, translated from the AST on this run (vlib/extractors/pymain.py -> '
                   'Extracted/PyMain.lean, semantics Model/PyMain.lean), run from the image of ANY model state with ANY '
                   'insertion order of the pending dict, yield exactly what opExpire / opSync / loadRow / opRead yield.'),
    'level_note': ('Assumptions made explicit in the theorems: the library hands out at most one live instance per row '
                   '(C04; the history says when get/select built a new instance) and the application does not write '
                   'through destroyed instances.  Trusted: Lean kernel, the harness, SQLite as the row store; the '
                   'sampling correspondence of the model; for the translated methods: the translator and the reference '
                   'semantics of the embedding (Model/PyMain.lean), and the interface it is given: _SO_selectOne / '
                   '_SO_update / cache.expire behave like the hand model\'s database functions, validators are '
                   'uninterpreted functions (from_python raises Invalid on a rejected value), signals are ignored.'),
    'rule': ('case = one history (connection cache on/off, read mode A/B, ≤ 30 ops over 8 classes eager/lazy/uncached/'
             'lazy+uncached + four classes with a ForeignKey to the eager one (cascade=null eager/lazy/uncached, cascade=True) + two '
             'string-keyed classes; JSONCol columns (stored text != shown value) on eager, lazy and string-keyed classes; ids 1..5 given in '
             'the canonical or the other Python type; library bulk deletes (deleteBy/deleteMany) and key re-use; two families of '
             'like-named classes in two registries with crossed int/string ids and keys between them; StringCol values with %, %% and quotes; '
             'selects consumed row by row with writes in between; the object-valued accessor of foreign keys; unpickling); distinct = distinct op sequences; non-trivial = history contains a write followed by '
             'expire/sync/select/destroy or an injected failure'),
    'trusted': ['SQLite in-memory engine as the row store (raw SELECT through a second cursor is the oracle)',
                'harness bookkeeping of which row a held instance stands for, and of pending lazy assignments'],
    'modelled': ['column codecs are abstract in the model (Cfg.enc/dec arbitrary functions; the driver instantiates the JSONCol one as a tag +1000 '
                 'so that stored and shown forms are disjoint); ids are naturals in the model, the string / int forms are canonicalised by the harness',
                 'cache identity (which instance get/select returns) is an input of the model: the history says fetch '
                 '(new instance) or refresh (held instance); proved separately under C04',
                 'event listeners, joins, foreign keys, column kinds other than IntCol, per-connection instances, threads',
                 'lazyUpdate together with cacheValues=False shows the stored value, not the pending one (noted, excluded from the read theorem by hypothesis)'],
    'assumptions': ['open finding C05:stale-read:lazyIter-lookahead-row (known_findings.json; replayed on the real code every run by '
                    'probe_lookahead): a write to exactly the row an open lazyIter() hands out next is lost in the held instance. '
                    'The random generator does not write to that single look-ahead row; any staleness beyond it alarms',
                    'translated-method theorems: the class has at least one column (two for _SO_getValue); no signal listener is '
                    'connected; set(**kw) with a keyword that is not a column: proved (TypeError, nothing changed) when the '
                    'column keywords are valid (the hand model reports the unknown name before it validates, the code after); '
                    '"the object has _SO_val_ attributes only for its columns" and "pending keys are columns" are '
                    'proved for every reachable state (C05_translated_rep_reachable, *_reachable theorems); '
                    'get(), _init, destroySelf, expireAll and the create path are still hand-modelled + correspondence',
                    'at most one live held instance per (class, id) (C04 identity map); when the real code hands out a second one '
                    '(open C04 finding: expire() evicts the instance) the harness drops the older handle',
                    'no writes through destroyed instances (id reuse by SQLite would alias another row)',
                    'after sync() itself raised NotFound the instance is dead: its still-cached old values are not checked'],
    'exhaustive': False,
}

# (name, lazyUpdate, cacheValues, ncols, foreign key of column 0 with a cascade policy: None | ('n', T) cascade='null' |
#  ('c', T) cascade=True, index of the JSONCol column (stored text != shown value) or None, string primary key?)
CLASSES = [('E', 0, 1, 2, None, 1, 0), ('L', 1, 1, 3, None, 2, 0), ('U', 0, 0, 2, None, None, 0), ('LU', 1, 0, 2, None, None, 0),
           ('RN', 0, 1, 2, ('n', 0), None, 0), ('RL', 1, 1, 2, ('n', 0), None, 0), ('RU', 0, 0, 2, ('n', 0), None, 0),
           ('RC', 0, 1, 2, ('c', 0), None, 0), ('SK', 0, 1, 2, None, None, 1), ('SL', 1, 1, 2, None, 1, 1),
           # two FAMILIES of like-named classes ('Own', 'Pet') in two class registries, with the id types crossed:
           # Own: string ids / Pet: int ids, key to Own   |   Own: int ids / Pet: string ids, lazy, key to Own
           ('OA', 0, 1, 1, None, None, 1), ('PA', 0, 1, 2, None, None, 0), ('OB', 0, 1, 1, None, None, 0), ('PB', 1, 1, 2, None, None, 1),
           # plain Python subclasses overriding sqlmeta options (the values here are the CHILD's, see SUBCLS):
           # caching child of a non-caching parent | lazy child of an eager parent | eager child of a lazy parent
           ('CC', 0, 1, 2, None, None, 0), ('CL', 1, 1, 2, None, None, 0), ('CE', 0, 1, 2, None, None, 0)]
# child class -> sqlmeta options of the parent (which declares column x; the child adds y)
SUBCLS = {14: {'cacheValues': False}, 15: {'lazyUpdate': False}, 16: {'lazyUpdate': True}}
# (class, column) whose getter is the parent's NON-caching one (`_SO_getValue`: one single-column SELECT per read; the
# model keeps one read mode per class, so these reads are checked against the raw row and their statement directly)
GETVALUE = {(14, 0)}
PLAIN = ['x', 'y', 'z']
# plain (cascade=None) foreign keys: class -> referenced class;  FKT: every class whose column 0 is a key
PLAINFK = {11: 10, 13: 12}
FKT = dict((k, c[4][1]) for k, c in enumerate(CLASSES) if c[4])
FKT.update(PLAINFK)
# python class name and registry of the like-named families
FAMILY = {10: ('Own', 'ra'), 11: ('Pet', 'ra'), 12: ('Own', 'rb'), 13: ('Pet', 'rb')}
# python attribute names / database column names per class
ATTRS = [(['fkID', 'x'] if c[4] else PLAIN[:c[3]]) for c in CLASSES]
DBN = [(['fk_id', 'x'] if c[4] else PLAIN[:c[3]]) for c in CLASSES]
for _k in PLAINFK:
    ATTRS[_k] = ['fkID', 's']
    DBN[_k] = ['fk_id', 's']
JOFF = 1000     # model-side tag of the stored representation of a JSONCol value
# column kinds: int | json (JSONCol) | str (StringCol) | fk (key to an int-id class) | fks (key to a string-id class)
KINDS = []
for _k, _c in enumerate(CLASSES):
    _kinds = ['int'] * _c[3]
    if _c[5] is not None:
        _kinds[_c[5]] = 'json'
    if _k in FKT:
        _kinds[0] = 'fks' if CLASSES[FKT[_k]][6] else 'fk'
    KINDS.append(_kinds)
KINDS[1][1] = 'str'      # L.y   (lazy)
KINDS[8][1] = 'str'      # SK.y  (eager, string key)
KINDS[11][1] = 'str'
KINDS[13][1] = 'str'
# StringCol values: the abstract int v stands for the text  str(v) + SUF[v % 4]  (per-cent signs, a quote)
SUF = ['', '%', '%%z', "'s"]
_re_strval = re.compile(r"^(-?\d+)(.*)$", re.S)


def kind(k, c):
    return KINDS[k][c]


def enc_str(v):
    return '%d%s' % (v, SUF[v % 4])


def dec_str(t):
    m = _re_strval.match(t) if isinstance(t, str) else None
    if m and SUF[int(m.group(1)) % 4] == m.group(2):
        return int(m.group(1))
    return None


def jcol(k, c):
    return KINDS[k][c] == 'json'


def strkey(k):
    return bool(CLASSES[k][6])


def idlit(k, rid):
    return ("'%d'" % rid) if strkey(k) else ('%d' % rid)


def idval(k, rid, alt=0):
    """the id as the application passes it: canonical type, or (alt) the other one"""
    if strkey(k):
        return rid if alt else str(rid)
    return str(rid) if alt else rid


def enc_model(k, c, v):
    """python value -> the model's stored value"""
    return v + JOFF if (jcol(k, c) and v is not None and v != 'B') else v


def tbl(k):
    return 't_%s' % CLASSES[k][0].lower()

MAXID = 5
_envs = {}


def make_conn_class():
    from sqlobject.sqlite.sqliteconnection import SQLiteConnection
    from sqlobject import dberrors

    class LogConn(SQLiteConnection):
        def __init__(self, *a, **k):
            self.stmts = []
            self.fail_update = False
            SQLiteConnection.__init__(self, *a, **k)

        def _executeRetry(self, conn, cursor, query):
            self.stmts.append(query)
            if self.fail_update and query.startswith('UPDATE'):
                self.fail_update = False
                raise dberrors.OperationalError('injected failure')
            return SQLiteConnection._executeRetry(self, conn, cursor, query)
    return LogConn


def env(do_cache):
    if do_cache in _envs:
        return _envs[do_cache]
    sqlo.setup()
    from sqlobject import SQLObject, IntCol, JSONCol
    conn = make_conn_class()(':memory:', cache=do_cache)
    classes = []
    from sqlobject import ForeignKey
    from sqlobject import StringCol
    for kk, (nm, lz, cv, n, fk, jc, sk) in enumerate(CLASSES):
        alias = sqlo.uniq('C05%s%d_' % (nm, int(do_cache)))
        name = alias
        meta = {'lazyUpdate': bool(lz), 'cacheValues': bool(cv), 'table': 't_%s' % nm.lower()}
        if sk:
            meta['idType'] = str
        if kk in FAMILY:
            name = FAMILY[kk][0]
            meta['registry'] = '%s%d' % (FAMILY[kk][1], int(do_cache))
        attrs = {'_connection': conn, 'sqlmeta': type('sqlmeta', (), meta)}
        for ci in range(n):
            kd = KINDS[kk][ci]
            if kd in ('fk', 'fks'):
                attrs['fk'] = ForeignKey(classes[FKT[kk]].__name__, default=None,
                                         cascade=({'n': 'null', 'c': True}[fk[0]] if fk else None))
            else:
                col = {'int': IntCol, 'json': JSONCol, 'str': StringCol}[kd]
                attrs[DBN[kk][ci]] = col(default=None)
        attrs['__module__'] = __name__
        base = SQLObject
        if kk in SUBCLS:
            palias = sqlo.uniq('C05%sparent%d_' % (nm, int(do_cache)))
            base = type(palias, (SQLObject,), {'_connection': conn, 'x': attrs.pop('x'), '__module__': __name__,
                                               'sqlmeta': type('sqlmeta', (), dict(SUBCLS[kk], table='t_%s_parent' % nm.lower()))})
            globals()[palias] = base
        cls = type(name, (base,), attrs)
        cls.__qualname__ = alias
        globals()[alias] = cls      # picklable by reference (like-named classes get distinct qualified names)
        cls.createTable()
        classes.append(cls)
    e = {'conn': conn, 'classes': classes, 'raw': conn._memoryConn,
         'tables': {tbl(k): k for k in range(len(CLASSES))}}
    _envs[do_cache] = e
    return e


# ---------------------------------------------------------------- canonical text
def sv(v):
    return 'N' if v is None else ('B' if v == 'B' else str(v))


def sv_py(k, c, v):
    """a value the object SHOWS -> model text ('T?…' when it has not the type the column shows; a JSONCol
    showing its stored text is the tagged value)"""
    if v is None:
        return 'N'
    kd = kind(k, c)
    if kd == 'json':
        if isinstance(v, str):
            try:
                return str(int(json.loads(v)) + JOFF)
            except Exception:
                return 'S?' + v
    elif kd == 'str':
        d = dec_str(v)
        return 'T?%r' % (v,) if d is None else str(d)
    elif kd == 'fks':
        return str(int(v)) if (isinstance(v, str) and v.isdigit()) else 'T?%r' % (v,)
    if isinstance(v, bool) or not isinstance(v, int):
        return 'T?%r' % (v,)
    return str(v)


def sv_dbobj(k, c, v):
    """a STORED value as a Python object (from sqlite, or kept in _SO_createValues) -> model text"""
    if v is None:
        return 'N'
    kd = kind(k, c)
    if kd == 'json':
        try:
            return str(int(json.loads(v)) + JOFF)
        except Exception:
            return 'S?%r' % (v,)
    if kd == 'str':
        d = dec_str(v)
        return 'T?%r' % (v,) if d is None else str(d)
    if kd == 'fks':
        return str(int(v)) if (isinstance(v, str) and v.isdigit()) else 'T?%r' % (v,)
    if isinstance(v, bool) or not isinstance(v, int):
        return 'T?%r' % (v,)
    return str(v)


def sv_lit(k, c, t):
    """a value as an SQL literal in a statement -> model text"""
    if t in ('N', 'NULL'):
        return 'N'
    kd = kind(k, c)
    quoted = len(t) >= 2 and t[0] == "'" and t[-1] == "'"
    body = t[1:-1].replace("''", "'") if quoted else t
    if kd in ('json', 'str', 'fks'):
        if not quoted:
            return 'T?' + t
        if kd == 'json':
            try:
                return str(int(json.loads(body)) + JOFF)
            except Exception:
                return 'S?' + t
        if kd == 'str':
            d = dec_str(body)
            return 'T?' + t if d is None else str(d)
        return str(int(body)) if body.isdigit() else 'T?' + t
    return t if re.match(r'^-?\d+$', t) else 'T?' + t


def kvtxt(kvs):
    return ','.join('%d=%s' % (c, sv(v)) for c, v in kvs) if kvs else '-'


def kvreq(kvs):
    return ' '.join('%d=%s' % (c, sv(v)) for c, v in kvs)


_re_ins = re.compile(r'^INSERT INTO (\w+) \(([^)]*)\) VALUES \(([^)]*)\)$')
_re_upd = re.compile(r'''^UPDATE (\w+) SET (.*) WHERE id = \('?(-?\d+)'?\)$''')
_re_del = re.compile(r'''^DELETE FROM (\w+) WHERE id = \('?(-?\d+)'?\)$''')
_re_delw = re.compile(r'''^DELETE FROM (\w+) WHERE (\w+ = -?\w+|\(\(\w+\.id\) = \('?-?\d+'?\)\))$''')
_re_sel1 = re.compile(r'''^SELECT ([\w, ]+) FROM (\w+) WHERE \(\(\w+\.id\) = \('?(-?\d+)'?\)\)$''')
_re_selr = re.compile(r'^SELECT (\w+)\.id, .* FROM (\w+) WHERE \(\(\w+\.fk_id\) = \((-?\d+)\)\)$')
_re_sela = re.compile(r'^SELECT (\w+)\.id, .* FROM (\w+) WHERE 1 = 1( ORDER BY (\w+\.)?id)?$')


def sqlval(t):
    t = t.strip()
    if t.startswith('(') and t.endswith(')'):
        t = t[1:-1]
    return 'N' if t == 'NULL' else t


def canon_stmt(e, q, auto_id=None):
    """statement text -> the model's statement token (or 'SQL?<text>')"""
    tabs = e['tables']
    m = _re_ins.match(q)
    if m and m.group(1) in tabs:
        k = tabs[m.group(1)]
        names = [x.strip() for x in m.group(2).split(',')]
        vals = [sqlval(x) for x in m.group(3).split(',')]
        d = dict(zip(names, vals))
        rid = d.pop('id', None)
        if rid is None:
            rid = '?' if auto_id is None else str(auto_id)
        rid = rid.strip("'")
        n = CLASSES[k][3]
        if sorted(d) != sorted(DBN[k]):
            return 'SQL?' + q
        return 'I %d %s %s' % (k, rid, ','.join('%d=%s' % (i, sv_lit(k, i, d[DBN[k][i]])) for i in range(n)))
    m = _re_upd.match(q)
    if m and m.group(1) in tabs:
        k = tabs[m.group(1)]
        parts = []
        for a in m.group(2).split(', '):
            nm, v = a.split(' = ')
            if nm not in DBN[k]:
                return 'SQL?' + q
            parts.append('%d=%s' % (DBN[k].index(nm), sv_lit(k, DBN[k].index(nm), sqlval(v))))
        return 'U %d %s %s' % (k, m.group(3), ','.join(parts))
    m = _re_del.match(q)
    if m and m.group(1) in tabs:
        return 'D %d %s' % (tabs[m.group(1)], m.group(2))
    m = _re_delw.match(q)
    if m and m.group(1) in tabs:
        return 'Dw %d' % tabs[m.group(1)]
    m = _re_sel1.match(q)
    if m and m.group(2) in tabs:
        k = tabs[m.group(2)]
        names = [x.strip() for x in m.group(1).split(',')]
        n = CLASSES[k][3]
        if names == DBN[k]:
            return 'S %d %s' % (k, m.group(3))
        if len(names) == 1 and names[0] in DBN[k]:
            return 'Sc %d %s %d' % (k, m.group(3), DBN[k].index(names[0]))
        return 'SQL?' + q
    m = _re_selr.match(q)
    if m and m.group(2) in tabs:
        k = tabs[m.group(2)]
        fk = CLASSES[k][4]
        if fk and m.group(1) == m.group(2):
            return 'Sr %d %d %s' % (k, fk[1], m.group(3))
        return 'SQL?' + q
    m = _re_sela.match(q)
    if m and m.group(2) in tabs:
        return 'Sa %d' % tabs[m.group(2)]
    return 'SQL?' + q


def parse_update(tok):
    """'U k id 0=5,1=N' -> (k, id, {0: 5, 1: None})"""
    _, k, rid, kv = tok.split(' ')
    d = {}
    for p in kv.split(','):
        c, v = p.split('=', 1)
        try:
            d[int(c)] = None if v == 'N' else int(v)
        except ValueError:
            d[int(c)] = v        # a literal of the wrong kind ('T?…'): equals nothing
    return int(k), int(rid), d


class Held(object):
    __slots__ = ('obj', 'k', 'rid', 'destroyed', 'tainted', 'pend', 'incache', 'dead', 'superseded')

    def __init__(self, obj, k, rid):
        self.obj = obj
        self.k = k
        self.rid = rid
        self.destroyed = False
        self.superseded = False  # ... and the library itself created a new row under the same key since
        self.dead = False        # the row this instance was built for is gone (destroyed / bulk-deleted / key re-used)
        self.tainted = False     # row changed behind the instance's back and no sync()/expire() since
        self.pend = {}           # harness's own record of unwritten lazy assignments
        self.incache = True


class Runner(object):
    """executes abstract ops on the real code, records the model requests with the answers the
    implementation gave, and evaluates the oracles"""

    def __init__(self, do_cache, mode, prop='C05'):
        self.e = env(do_cache)
        self.do_cache = do_cache
        self.mode = mode
        self.prop = prop
        self.conn = self.e['conn']
        self.raw = self.e['raw']
        self.held = {}
        self.nexth = 0
        self.lines = []     # (request line, expected answer, stream name)
        self.direct = []    # (stream, model-side text, impl-side text) comparisons not needing the driver
        self.fails = []     # (kind, class kind, what)
        self.executed = []  # ops really executed (replayable)
        self.alloc = []     # handles allocated by each executed op
        self.stats = {}
        self.notes = set()
        self.seen_rows = set()
        self.iters = []     # lazily consumed selects: (class, iterator) or None when exhausted
        self.blobs = []     # pickled states: (bytes, class, row id, raw python id, attribute snapshot, row at that time)
        self.reset()

    # ---- plumbing
    def reset(self):
        self.conn.cache.clear()
        cur = self.raw.cursor()
        for t in self.e['tables']:
            cur.execute('DELETE FROM %s' % t)
        cur.execute('DELETE FROM sqlite_sequence')    # AUTOINCREMENT counters restart with every history
        cur.close()
        self.conn.stmts = []
        self.conn.fail_update = False
        cfg = ' '.join('%d %d %d %s %s' % (lz, cv, n, ('%s%d' % fk) if fk else '-', '-' if jc is None else 'j%d' % jc)
                       for (_, lz, cv, n, fk, jc, _sk) in CLASSES)
        self.lines.append(('reset %d %s' % (int(self.do_cache), cfg), 'ok', 'protocol'))

    def rawstored(self, k, rid):
        cur = self.raw.cursor()
        cur.execute('SELECT %s FROM %s WHERE id = %s' % (', '.join(DBN[k]), tbl(k), idlit(k, rid)))
        r = cur.fetchone()
        cur.close()
        return None if r is None else tuple(r)

    def rawrow(self, k, rid):
        """the row as Python values (JSON text decoded by the harness itself, not by the library)"""
        r = self.rawstored(k, rid)
        if r is None:
            return None
        return tuple((json.loads(v) if (jcol(k, c) and v is not None) else v) for c, v in enumerate(r))

    def rawcanon(self, k, rid):
        r = self.rawstored(k, rid)
        return 'none' if r is None else ','.join(sv_dbobj(k, c, v) for c, v in enumerate(r))

    def rawexec(self, sql):
        cur = self.raw.cursor()
        cur.execute(sql)
        cur.close()

    def fail(self, kind, k, what):
        self.fails.append((kind, CLASSES[k][0] if k is not None else '-', what))

    def emit(self, line, out, stmts, stream='op outcome, statements, UPDATE count: model = main.py'):
        nupd = sum(1 for s in stmts if s.startswith('U '))
        self.lines.append((line, '%s | %s | u=%d' % (out, ';'.join(stmts), nupd), stream))

    def outcome(self, fn):
        """run fn on the real code; returns (outcome string, value, canonical statements)"""
        self.conn.stmts = []
        val = None
        try:
            val = fn()
            out = 'ok'
        except Exception as ex:  # every exception of the real code is an observable outcome
            nm = sqlo.exc_name(ex)
            out = {'Duplicate': 'DbError', 'Operational': 'DbError', 'DbIntegrity': 'DbError',
                   'Other(ValueError)': 'ValueError'}.get(nm, nm)
        finally:
            self.conn.fail_update = False
        return out, val, list(self.conn.stmts)

    def canon(self, stmts, auto_id=None):
        return [canon_stmt(self.e, q, auto_id) for q in stmts]

    def pyval(self, v, k=None, c=None):
        """abstract value of an op -> the Python value handed to / shown by the library"""
        kd = kind(k, c) if k is not None else 'int'
        if v == 'B':
            return {'json': object(), 'str': 5, 'fks': None}.get(kd, 'x')
        if v is None:
            return None
        if kd == 'str':
            return enc_str(v)
        if kd == 'fks':
            return str(v)
        return v

    def others_on_row(self, k, rid, but=None):
        return [h for h, hd in self.held.items() if hd.k == k and hd.rid == rid and h != but]

    def drop(self, h):
        del self.held[h]
        self.lines.append(('drop %d' % h, 'ok |  | u=0', 'op outcome, statements, UPDATE count: model = main.py'))

    def bump(self, name):
        self.stats[name] = self.stats.get(name, 0) + 1

    def adopt(self, obj, k, rid, line_fmt, stmts, created=False):
        """a new instance came out of the library: give it a handle.
        Older handles on the same row: instances of an earlier incarnation of the row (create) become DEAD;
        an instance the harness knows to be out of the cache (expire() evicts: open C04 finding) is dropped;
        one that should still be in the cache stays held - the library just built a SECOND instance of a row it
        already handed out, and every later write through one of them must not leave the other stale."""
        for h2 in self.others_on_row(k, rid):
            hd2 = self.held[h2]
            if created:
                # created() replaces the cache entry of the key: whatever stood for an earlier row of that key is out
                hd2.dead = True
                hd2.superseded = True
                hd2.tainted = True
                hd2.incache = False
                continue
            if hd2.dead:
                continue
            if not hd2.incache:
                self.bump('c04-second-instance-for-a-held-row (older handle dropped)')
                self.drop(h2)
            else:
                self.bump('UNEXPECTED second instance of a row whose instance is cached (both kept)')
        h = self.nexth
        self.nexth += 1
        self.held[h] = Held(obj, k, rid)
        if line_fmt is not None:
            self.emit(line_fmt % h, 'ok', stmts)
        return h

    def revive(self, h):
        """the library handed out an instance the harness had written off: it now stands for the row again"""
        hd = self.held[h]
        if hd.dead and hd.superseded and not hd.destroyed:
            # only when the LIBRARY re-created the key: then its cache must hold the new instance
            self.bump('library handed out an instance of an earlier incarnation of a re-created row')
            hd.dead = False
            hd.superseded = False
            hd.tainted = False
        elif hd.dead:
            self.bump('get/select handed out the cached instance of a bulk-deleted row (not checked)')

    def find(self, obj):
        for h, hd in self.held.items():
            if hd.obj is obj:
                return h
        return None

    def taint_row(self, k, rid, but=None):
        """a write through the library to row (k, rid): instances of earlier incarnations are out of date"""
        misuse = but is not None and (self.held[but].dead or self.held[but].destroyed)
        for h2 in self.others_on_row(k, rid, but):
            # (a write through a dead instance that hits the re-used key's new row is the application's fault)
            if self.held[h2].dead or misuse:
                self.held[h2].tainted = True

    def taint_all(self, k, rid):
        """raw SQL behind the library's back"""
        for h2 in self.others_on_row(k, rid):
            self.held[h2].tainted = True

    # ---- ops
    def apply(self, op):
        """returns False when the op does not apply to the current state (skipped)"""
        name = op[0]
        fn = getattr(self, 'op_' + name)
        h0 = self.nexth
        r = fn(*op[1:])
        if r is False:
            return False
        self.executed.append(op)
        self.alloc.append(list(range(h0, self.nexth)))
        self.stats[name] = self.stats.get(name, 0) + 1
        self.after_step(op)
        return True

    def op_create(self, k, rid, kvs, alt=0):
        cls = self.e['classes'][k]
        if rid is None and strkey(k):
            return False
        kw = dict((ATTRS[k][c], self.pyval(v, k, c)) for c, v in kvs)
        if rid is not None:
            kw['id'] = idval(k, rid, alt)
        before = None if rid is None else self.rawrow(k, rid)
        out, obj, stmts = self.outcome(lambda: cls(**kw))
        if out == 'ok':
            real = int(obj.id)
            st = self.canon(stmts, real)
            self.adopt(obj, k, real, 'create %%d %d %d %s' % (k, real, kvreq(kvs)), st, created=True)
            # C16: inserts are immediate (also for lazy classes)
            n = CLASSES[k][3]
            want = tuple(self.pyval(dict(kvs).get(c), k, c) for c in range(n))
            if self.rawrow(k, real) != want or sum(1 for s in st if s.startswith('I ')) != 1:
                self.fail('insert-not-immediate', k, 'after the constructor returned the row is %r, expected %r; statements %r'
                          % (self.rawrow(k, real), want, st))
        else:
            mid = rid if rid is not None else 99
            self.emit('create %d %d %d %s' % (self.nexth, k, mid, kvreq(kvs)), out, self.canon(stmts, mid))
            if rid is not None and self.rawrow(k, rid) != before:
                self.fail('failed-create-changed-row', k, 'row %r -> %r' % (before, self.rawrow(k, rid)))

    def op_get(self, k, rid, alt=0):
        cls = self.e['classes'][k]
        out, obj, stmts = self.outcome(lambda: cls.get(idval(k, rid, alt)))
        st = self.canon(stmts)
        if out != 'ok':
            self.emit('fetch %d %d %d 0' % (self.nexth, k, rid), out, st)
            return
        h = self.find(obj)
        if h is None:
            self.adopt(obj, k, rid, 'fetch %%d %d %d 0' % (k, rid), st)
        else:
            self.revive(h)
            self.direct.append(('get() of a held instance sends no statement', '', ';'.join(st)))

    def op_select(self, k):
        cls = self.e['classes'][k]
        out, objs, stmts = self.outcome(lambda: list(cls.select(orderBy='id')))
        st = self.canon(stmts)
        self.emit('selstmt %d' % k, out, st)
        if out != 'ok':
            return
        for obj in objs:
            self.from_select(obj, k)

    def from_select(self, obj, k):
        """one row of a select came back as `obj`"""
        h = self.find(obj)
        if h is None:
            return self.adopt(obj, k, int(obj.id), 'fetch %%d %d %d 1' % (k, int(obj.id)), [])
        self.revive(h)
        self.emit('refresh %d' % h, 'ok', [])
        if not self.held[h].pend:
            self.held[h].tainted = False     # a clean instance is reloaded from the select row
        return h

    # ---- lazily consumed selects: other operations happen between two rows
    def op_iter(self, k):
        cls = self.e['classes'][k]
        out, it, stmts = self.outcome(lambda: iter(cls.select(orderBy='id').lazyIter()))
        self.emit('selstmt %d' % k, out, self.canon(stmts))
        if out == 'ok':
            self.iters.append([k, it, self.next_id(k, 0)])

    def next_id(self, k, after):
        """the DB-API driver has always fetched ONE row ahead (sqlite3 steps the statement at execute() and after
        every fetchone()): the row an open iteration will hand out next was read when the previous one was"""
        cur = self.raw.cursor()
        cur.execute('SELECT id FROM %s' % tbl(k))
        ids = sorted(int(r[0]) for r in cur.fetchall())
        cur.close()
        later = [i for i in ids if i > after]
        return later[0] if later else None

    def prefetched(self, k, rid=None):
        """is row (k, rid) [any row of k when rid is None] sitting in the look-ahead of an open iteration?  Writing it
        now and continuing the iteration refreshes the instance from the older copy (reported as a finding of the
        driver look-ahead; the generator keeps out of it so that anything BEYOND one row of look-ahead alarms)"""
        for it in self.iters:
            if it is not None and it[0] == k and it[2] is not None and (rid is None or it[2] == rid):
                return True
        return False

    def cascade_prefetched(self, k):
        return any(self.prefetched(k2) for k2 in range(len(CLASSES)) if CLASSES[k2][4] and CLASSES[k2][4][1] == k)

    def op_next(self, i):
        if i >= len(self.iters) or self.iters[i] is None:
            return False
        k, it, _look = self.iters[i]
        done = []

        def step():
            try:
                return next(it)
            except StopIteration:
                done.append(1)
                return None
        out, obj, stmts = self.outcome(step)
        st = self.canon(stmts)
        if out != 'ok' or done or obj is None:
            self.iters[i] = None
            self.direct.append(('a step of an iteration sends no statement', '', ';'.join(st)))
            if out != 'ok':
                self.notes.add('an iteration step raised %s' % out)
            return
        self.from_select(obj, k)
        self.iters[i][2] = self.next_id(k, int(obj.id))
        self.direct.append(('a step of an iteration sends no statement', '', ';'.join(st)))

    # ---- the object-valued accessor of a foreign key column
    def op_readfk(self, h):
        hd = self.need(h)
        if hd is None or hd.k not in FKT:
            return False
        k, t = hd.k, FKT[hd.k]
        cv = CLASSES[k][2]
        out, val, stmts = self.outcome(lambda: hd.obj.fk)
        st = self.canon(stmts)
        mine = [x for x in st if x.split(' ')[1:2] == [str(k)]]
        theirs = [x for x in st if x not in mine]
        missing = object()
        if cv:
            seen = hd.obj.__dict__.get('_SO_val_fkID', missing)
        else:
            r = self.rawstored(k, hd.rid)
            seen = missing if (r is None or hd.obj.sqlmeta._obsolete) else r[0]
        rstream = 'attribute read (value, statements): model = main.py'
        if seen is missing:
            # the key itself could not be read
            self.emit('read %d 0' % h, out if out != 'ok' else 'val ?', st, rstream)
            return
        self.emit('read %d 0' % h, 'val ' + sv_py(k, 0, seen), mine, rstream)
        exp = ('skip',) if hd.tainted else self.expected(hd, 0)
        if seen is None:
            if out != 'ok' or val is not None:
                self.fail('fk-object-vs-key', k, 'the key of instance %d is None, .fk gave %r / %s' % (h, val, out))
            return
        tid = int(seen)
        if out == 'ok':
            h2 = self.find(val)
            if h2 is None:
                self.adopt(val, t, int(val.id), 'fetch %%d %d %d 0' % (t, tid), theirs)
            else:
                self.revive(h2)
                self.direct.append(('get() of a held instance sends no statement', '', ';'.join(theirs)))
            got = val.id
        else:
            self.emit('fetch %d %d %d 0' % (self.nexth, t, tid), out, theirs)
            got = ('raise', out)
        # C05 / C16 oracle: the referenced OBJECT is the one the shown key (pending value on a lazy class) names
        if exp[0] == 'val':
            want = exp[1]
            if want is None:
                self.fail('fk-object-vs-key', k, 'the key of instance %d should be None, .fk gave %r' % (h, got))
            elif self.rawrow(t, int(want)) is None:
                # (a cached instance of a row deleted behind the library's back may still be handed out)
                if got != ('raise', 'NotFound') and got != want:
                    self.fail('fk-object-vs-key', k, 'instance %d references the missing row %r, .fk gave %r' % (h, want, got))
            elif got != want:
                self.fail('fk-object-vs-key', k, 'instance %d: key (database/pending) is %r, .fk gave the object with id %r'
                          % (h, want, got))

    def bulk(self, k, ids, fn):
        """deleteBy / deleteMany: rows vanish, their instances are not told"""
        out, _, stmts = self.outcome(fn)
        self.emit(('bulkdelete %d %s' % (k, ' '.join(str(i) for i in ids))).strip(), out, self.canon(stmts))
        if out == 'ok':
            for i in ids:
                if self.rawrow(k, i) is not None:
                    self.fail('bulk-delete-left-row', k, 'row %d still there' % i)
                for h2 in self.others_on_row(k, i):
                    self.held[h2].dead = True
                    self.held[h2].tainted = True

    def op_deleteby(self, k, c, v):
        if self.prefetched(k):
            return False
        if c >= CLASSES[k][3] or kind(k, c) not in ('int', 'fk'):
            return False
        cur = self.raw.cursor()
        cur.execute('SELECT id FROM %s WHERE %s %s ORDER BY id' % (tbl(k), DBN[k][c], 'IS NULL' if v is None else '= %d' % v))
        ids = [int(r[0]) for r in cur.fetchall()]
        cur.close()
        if v is None:
            return False     # deleteBy(x=None) renders "x = NULL"; not interesting here
        cls = self.e['classes'][k]
        self.bulk(k, ids, lambda: cls.deleteBy(**{ATTRS[k][c]: v}))

    def op_deletemany(self, k, rid):
        if self.prefetched(k):
            return False
        cls = self.e['classes'][k]
        ids = [rid] if self.rawrow(k, rid) is not None else []
        self.bulk(k, ids, lambda: cls.deleteMany(cls.q.id == idval(k, rid)))

    def need(self, h):
        return self.held.get(h)

    def expected(self, hd, c):
        """oracle value of column c of a live, untainted instance: ('val', v) or ('gone',)"""
        k = hd.k
        lz, cv = CLASSES[k][1], CLASSES[k][2]
        if lz and c in hd.pend:
            if not cv:
                return ('skip',)     # lazy + uncached shows the stored value (noted, not alarmed)
            return ('val', self.pyval(hd.pend[c], k, c))
        row = self.rawrow(k, hd.rid)
        if row is None:
            return ('gone',)
        return ('val', row[c])

    def check_read(self, h, hd, c, out, val, where):
        if hd.tainted:
            return
        exp = self.expected(hd, c)
        if exp[0] == 'skip':
            return
        got = ('val', val) if out == 'ok' else ('raise', out)
        if exp[0] == 'gone':
            if got[0] != 'raise' or got[1] not in ('NotFound', 'Assert'):
                self.fail('read-of-vanished-row-returns-data', hd.k,
                          '%s: reading %s of instance %d (row %d gone) gave %r instead of raising' % (where, ATTRS[hd.k][c], h, hd.rid, got))
            return
        if hd.destroyed and got[0] == 'raise' and got[1] == 'Assert':
            return
        if got != exp:
            self.fail('stale-read', hd.k, '%s: reading %s of instance %d (row %d) gave %r, the database/pending value is %r'
                      % (where, ATTRS[hd.k][c], h, hd.rid, got, exp))

    def op_read(self, h, c, where='read op'):
        hd = self.need(h)
        if hd is None or c >= CLASSES[hd.k][3]:
            return False
        out, val, stmts = self.outcome(lambda: getattr(hd.obj, ATTRS[hd.k][c]))
        if (hd.k, c) in GETVALUE:
            want = [] if hd.obj.sqlmeta._obsolete else ['Sc %d %d %d' % (hd.k, hd.rid, c)]
            self.direct.append(('inherited non-caching getter: one single-column SELECT per read', ';'.join(want), ';'.join(self.canon(stmts))))
            if hd.destroyed and out == 'Assert':
                return
            self.check_read(h, hd, c, out, val, where)
            return
        txt = ('val ' + sv_py(hd.k, c, val)) if out == 'ok' else out
        self.emit('read %d %d' % (h, c), txt, self.canon(stmts), 'attribute read (value, statements): model = main.py')
        self.check_read(h, hd, c, out, val, where)

    def lazy_noupdate_check(self, hd, st, before, what):
        if CLASSES[hd.k][1]:
            if any(s.startswith(('U ', 'I ', 'D ')) for s in st) or self.rawrow(hd.k, hd.rid) != before:
                self.fail('lazy-write-before-sync', hd.k, '%s on a lazy object sent %r, row %r -> %r'
                          % (what, st, before, self.rawrow(hd.k, hd.rid)))

    def op_setattr(self, h, c, v, fail):
        hd = self.need(h)
        if hd is None or c >= CLASSES[hd.k][3]:
            return False
        if self.prefetched(hd.k, hd.rid):
            return False
        before = self.rawrow(hd.k, hd.rid)
        if hd.dead or hd.destroyed or before is None:
            hd.tainted = True     # writing through a dead instance is outside the property
        self.conn.fail_update = bool(fail)
        out, _, stmts = self.outcome(lambda: setattr(hd.obj, ATTRS[hd.k][c], self.pyval(v, hd.k, c)))
        st = self.canon(stmts)
        self.emit('setattr %d %d %s %d' % (h, c, sv(v), int(fail)), out, st)
        self.lazy_noupdate_check(hd, st, before, 'assignment')
        if out == 'ok':
            if CLASSES[hd.k][1]:
                hd.pend[c] = v
            else:
                self.taint_row(hd.k, hd.rid, h)
        elif self.rawrow(hd.k, hd.rid) != before:
            self.fail('failed-write-changed-row', hd.k, 'assignment raised %s, row %r -> %r' % (out, before, self.rawrow(hd.k, hd.rid)))

    def op_set(self, h, kvs, fail):
        hd = self.need(h)
        if hd is None or any(c >= CLASSES[hd.k][3] for c, _ in kvs):
            return False
        if hd.k in SUBCLS and len(kvs) > 1 and any(c == 0 for c, _ in kvs):
            return False     # see probe_subclass_set in harness/c16.py
        if self.prefetched(hd.k, hd.rid):
            return False
        before = self.rawrow(hd.k, hd.rid)
        if hd.dead or hd.destroyed or before is None:
            hd.tainted = True
        self.conn.fail_update = bool(fail)
        kw = dict((ATTRS[hd.k][c], self.pyval(v, hd.k, c)) for c, v in kvs)
        out, _, stmts = self.outcome(lambda: hd.obj.set(**kw))
        st = self.canon(stmts)
        self.emit('set %d %d %s' % (h, int(fail), ' '.join('%d=%s' % (c, sv(v)) for c, v in kvs)), out, st)
        self.lazy_noupdate_check(hd, st, before, 'set()')
        if out == 'ok':
            if CLASSES[hd.k][1]:
                hd.pend.update(dict(kvs))
            else:
                self.taint_row(hd.k, hd.rid, h)
        elif self.rawrow(hd.k, hd.rid) != before:
            self.fail('failed-write-changed-row', hd.k, 'set() raised %s, row %r -> %r' % (out, before, self.rawrow(hd.k, hd.rid)))

    def flush_check(self, hd, out, st, before, what, fail):
        """C16: the flush writes exactly the latest pending value of each assigned column, in one UPDATE"""
        if not CLASSES[hd.k][1]:
            return
        ups = [s for s in st if s.startswith('U ')]
        want = dict(hd.pend)
        if fail and want:
            return
        if not want:
            if ups:
                self.fail('flush-update-without-pending', hd.k, '%s with nothing pending sent %r' % (what, ups))
            return
        want_db = dict((c, enc_model(hd.k, c, v)) for c, v in want.items())
        if len(ups) != 1 or parse_update(ups[0]) != (hd.k, hd.rid, want_db):
            self.fail('flush-not-exactly-pending', hd.k, '%s sent %r, the pending assignments were %r' % (what, ups, want))
        if before is not None:
            exp = tuple((self.pyval(want[c], hd.k, c) if c in want else before[c]) for c in range(len(before)))
            if self.rawrow(hd.k, hd.rid) != exp:
                self.fail('flush-row-not-old-plus-pending', hd.k, '%s: row %r -> %r, pending %r'
                          % (what, before, self.rawrow(hd.k, hd.rid), want))

    def flushed(self, hd, h):
        if hd.pend:
            self.taint_row(hd.k, hd.rid, h)
        hd.pend = {}

    def op_syncupdate(self, h, fail):
        hd = self.need(h)
        if hd is None:
            return False
        if self.prefetched(hd.k, hd.rid):
            return False
        before = self.rawrow(hd.k, hd.rid)
        self.conn.fail_update = bool(fail)
        out, _, stmts = self.outcome(lambda: hd.obj.syncUpdate())
        st = self.canon(stmts)
        self.emit('syncupdate %d %d' % (h, int(fail)), out, st)
        self.flush_check(hd, out, st, before, 'syncUpdate()', fail)
        if out == 'ok':
            self.flushed(hd, h)

    def op_sync(self, h, fail):
        hd = self.need(h)
        if hd is None:
            return False
        if self.prefetched(hd.k, hd.rid):
            return False
        before = self.rawrow(hd.k, hd.rid)
        self.conn.fail_update = bool(fail)
        out, _, stmts = self.outcome(lambda: hd.obj.sync())
        st = self.canon(stmts)
        self.emit('sync %d %d' % (h, int(fail)), out, st)
        self.flush_check(hd, out, st, before, 'sync()', fail)
        if out == 'ok':
            self.flushed(hd, h)
            hd.tainted = False
        elif out == 'NotFound':
            if CLASSES[hd.k][1] and not fail:
                self.flushed(hd, h)
            if self.rawrow(hd.k, hd.rid) is not None:
                self.fail('sync-notfound-but-row-exists', hd.k, 'sync() raised NotFound, row is %r' % (self.rawrow(hd.k, hd.rid),))
            self.notes.add('sync() raised NotFound for a vanished row; the dead instance keeps its old cached attributes (not checked)')
            hd.tainted = True

    def expired_now(self, hd):
        hd.pend = {}
        hd.tainted = False
        for h2 in self.others_on_row(hd.k, hd.rid):
            self.held[h2].incache = False     # cache.expire(id) drops the entry of the KEY, whoever it points to

    def op_expire(self, h):
        hd = self.need(h)
        if hd is None:
            return False
        out, _, stmts = self.outcome(lambda: hd.obj.expire())
        self.emit('expire %d' % h, out, self.canon(stmts))
        if out == 'ok':
            self.expired_now(hd)

    def op_expireall(self):
        out, _, stmts = self.outcome(lambda: self.conn.expireAll())
        self.emit('expireall', out, self.canon(stmts))
        if out == 'ok':
            for hd in self.held.values():
                if hd.incache:
                    self.expired_now(hd)

    def op_expireallcls(self, k):
        cls = self.e['classes'][k]
        out, _, stmts = self.outcome(lambda: cls.sqlmeta.expireAll())
        self.emit('expireallcls %d' % k, out, self.canon(stmts))
        # (the connection keeps ONE cache per class NAME: like-named classes of other registries go with it;
        #  reported as a finding of its own, mirrored here)
        group = [k2 for k2 in FAMILY if k in FAMILY and FAMILY[k2][0] == FAMILY[k][0] and k2 != k]
        for k2 in group:
            self.lines.append(('expireallcls %d' % k2, 'ok |  | u=0', 'op outcome, statements, UPDATE count: model = main.py'))
        if out == 'ok':
            for hd in self.held.values():
                if hd.incache and (hd.k == k or hd.k in group):
                    self.expired_now(hd)

    def op_destroy(self, h):
        hd = self.need(h)
        if hd is None:
            return False
        if self.prefetched(hd.k, hd.rid) or self.cascade_prefetched(hd.k):
            return False
        k, rid = hd.k, hd.rid
        # the dependents loop, as the harness expects it from the raw tables: per dependent class (creation
        # order) the referencing rows by id; which of them have an instance in the connection cache
        plan = []
        for k2 in range(len(CLASSES)):
            fk = CLASSES[k2][4]
            if not fk or fk[1] != k:
                continue
            cur = self.raw.cursor()
            cur.execute('SELECT id FROM %s WHERE fk_id = %d ORDER BY id' % (tbl(k2), rid))
            ids = [r[0] for r in cur.fetchall()]
            cur.close()
            rows = []
            for i in ids:
                cached = self.conn.cache.tryGet(i, self.e['classes'][k2])
                h2 = None if cached is None else self.find(cached)
                want = None
                if h2 is not None and CLASSES[k2][1] and fk[0] == 'n' and not self.held[h2].tainted:
                    # C16: what the flush of this lazy referrer inside destroySelf must write
                    want = dict(self.held[h2].pend)
                    if want.get(0, rid) == rid:
                        want[0] = None
                    want = (want, self.rawrow(k2, i))
                rows.append((i, h2, want))
            plan.append((k2, fk[0], rows))
        out, _, stmts = self.outcome(lambda: hd.obj.destroySelf())
        st = self.canon(stmts)
        toks = []
        dropafter = []
        for (k2, kind, rows) in plan:
            toks.append('S%d' % k2)
            for (i, h2, cached) in rows:
                if h2 is not None:
                    toks.append('r%d' % h2)
                    hd2 = self.held[h2]
                    if kind == 'c':
                        hd2.destroyed = True
                        hd2.dead = True
                        hd2.tainted = True
                        hd2.incache = False
                    else:
                        if cached is not None and out == 'ok':
                            want, before2 = cached
                            ups = [parse_update(x)[2] for x in st if x.startswith('U %d %d ' % (k2, i))]
                            after2 = self.rawrow(k2, i)
                            exp2 = None if before2 is None else tuple(want.get(c, before2[c]) for c in range(len(before2)))
                            want_db = dict((c, enc_model(k2, c, v)) for c, v in want.items())
                            if ups != ([want_db] if want else []) or after2 != exp2 or hd2.obj.sqlmeta.dirty:
                                self.fail('cascade-flush-not-exactly-pending', k2,
                                          'destroySelf of the referenced row %d sent %r for the lazy referrer %d (pending before: %r), '
                                          'row %r -> %r, dirty=%r' % (rid, ups, i, want, before2, after2, hd2.obj.sqlmeta.dirty))
                        if not hd2.pend:
                            hd2.tainted = False        # refreshed from the select row
                        if CLASSES[k2][1]:
                            # whether the library wrote NULL or left it pending on the lazy object (it does the
                            # latter: row.set) is not this property's business: take its pending set as it is;
                            # the read / flag / flush oracles then apply to it
                            hd2.pend = dict((ATTRS[k2].index(nm), v) for nm, v in hd2.obj._SO_createValues.items())
                    continue
                # the library built an instance of its own for this row
                for h3 in self.others_on_row(k2, i):
                    self.drop(h3)
                obj2 = self.conn.cache.tryGet(i, self.e['classes'][k2]) if out == 'ok' and kind == 'n' else None
                hn = self.nexth
                self.nexth += 1
                toks.append('R%d:%d:%d' % (hn, k2, i))
                if obj2 is not None:
                    self.held[hn] = Held(obj2, k2, i)
                    if CLASSES[k2][1]:
                        self.held[hn].pend = dict((ATTRS[k2].index(nm), v) for nm, v in obj2._SO_createValues.items())
                else:
                    dropafter.append(hn)
        for t in toks:
            nm = {'S': None, 'r': 'destroy: referencing row with a HELD instance', 'R': 'destroy: referencing row, instance built by the library'}[t[0]]
            if nm:
                self.stats[nm] = self.stats.get(nm, 0) + 1
        self.emit(('destroy %d %s' % (h, ' '.join(toks))).strip(), out, st)
        for hn in dropafter:
            self.lines.append(('drop %d' % hn, 'ok |  | u=0', 'op outcome, statements, UPDATE count: model = main.py'))
        if out == 'ok':
            # C16: deletes are immediate
            if self.rawrow(k, rid) is not None or sum(1 for s_ in st if s_ == 'D %d %d' % (k, rid)) != 1:
                self.fail('delete-not-immediate', k, 'after destroySelf() the row is %r; statements %r' % (self.rawrow(k, rid), st))
            self.taint_row(k, rid, h)     # instances of earlier incarnations; everything if this was a dead instance itself
            hd.destroyed = True
            hd.dead = True
            hd.tainted = True
            for h2 in self.others_on_row(k, rid):
                self.held[h2].incache = False
        else:
            self.notes.add('destroySelf() raised %s inside the dependents loop' % out)
            for hd2 in self.held.values():
                hd2.tainted = True

    def op_pickle(self, h, fail):
        hd = self.need(h)
        if hd is None:
            return False
        if self.prefetched(hd.k, hd.rid):
            return False
        before = self.rawrow(hd.k, hd.rid)
        self.conn.fail_update = bool(fail)
        out, blob, stmts = self.outcome(lambda: pickle.dumps(hd.obj))
        st = self.canon(stmts)
        self.emit('pickle %d %d' % (h, int(fail)), out, st)
        self.flush_check(hd, out, st, before, 'pickling', fail)
        if out == 'ok':
            self.flushed(hd, h)
            if CLASSES[hd.k][1] and (hd.obj.sqlmeta.dirty or hd.obj._SO_createValues):
                self.fail('pickle-left-pending', hd.k, 'after pickling dirty=%r pending=%r' % (hd.obj.sqlmeta.dirty, hd.obj._SO_createValues))
            d = hd.obj.__dict__
            snap = [(c, d['_SO_val_' + ATTRS[hd.k][c]]) for c in range(CLASSES[hd.k][3]) if ('_SO_val_' + ATTRS[hd.k][c]) in d]
            self.blobs.append((blob, hd.k, hd.rid, hd.obj.id, snap, None if hd.tainted else self.rawrow(hd.k, hd.rid)))

    def op_unpickle(self, b):
        """pickle.loads of an earlier pickled state (works when no instance of the row is in the cache)"""
        if b >= len(self.blobs):
            return False
        blob, k, rid, idraw, snap, row_then = self.blobs[b]
        clash = self.conn.cache.tryGet(idraw, self.e['classes'][k]) is not None
        out, obj, stmts = self.outcome(lambda: pickle.loads(blob))
        st = self.canon(stmts)
        line = 'unpickle %%d %d %d %d %s' % (k, rid, int(clash), ' '.join('%d=%s' % (c, sv_py(k, c, v)) for c, v in snap))
        if out != 'ok':
            self.emit((line % self.nexth).strip(), out, st)
            return
        h = self.adopt(obj, k, rid, line.strip(), st)
        hd = self.held[h]
        # the copy shows what the row held when it was pickled; nothing was ever assigned to it
        hd.tainted = (row_then is None) or (self.rawrow(k, rid) != row_then)

    def op_drop(self, h):
        hd = self.need(h)
        if hd is None:
            return False
        if self.conn.cache.tryGet(hd.obj.id, self.e['classes'][hd.k]) is hd.obj and self.do_cache:
            return False    # the strong cache would hand the same object out again
        self.drop(h)
        del hd
        gc.collect()

    def sqllit(self, k, c, v):
        if v is None:
            return 'NULL'
        kd = kind(k, c)
        if kd == 'json':
            return "'%s'" % json.dumps(v)
        if kd == 'str':
            return "'%s'" % enc_str(v).replace("'", "''")
        if kd == 'fks':
            return "'%d'" % v
        return str(v)

    def op_oobupdate(self, k, rid, c, v):
        if c >= CLASSES[k][3]:
            return False
        if self.prefetched(k, rid):
            return False
        self.rawexec('UPDATE %s SET %s = %s WHERE id = %s' % (tbl(k), DBN[k][c], self.sqllit(k, c, v), idlit(k, rid)))
        self.lines.append(('oobupdate %d %d %d %s' % (k, rid, c, sv(enc_model(k, c, v))), 'ok |  | u=0',
                           'op outcome, statements, UPDATE count: model = main.py'))
        if self.rawrow(k, rid) is not None:
            self.taint_all(k, rid)

    def op_oobdelete(self, k, rid):
        if self.prefetched(k, rid):
            return False
        self.rawexec('DELETE FROM %s WHERE id = %s' % (tbl(k), idlit(k, rid)))
        self.lines.append(('oobdelete %d %d' % (k, rid), 'ok |  | u=0', 'op outcome, statements, UPDATE count: model = main.py'))
        self.taint_all(k, rid)

    def op_oobinsert(self, k, rid, kvs):
        n = CLASSES[k][3]
        if any(c >= n for c, _ in kvs):
            return False
        if self.rawrow(k, rid) is None:
            d = dict(kvs)
            self.rawexec('INSERT INTO %s (id, %s) VALUES (%s, %s)' % (
                tbl(k), ', '.join(DBN[k]), idlit(k, rid),
                ', '.join(self.sqllit(k, c, d.get(c)) for c in range(n))))
        self.lines.append(('oobinsert %d %d %s' % (k, rid, ' '.join('%d=%s' % (c, sv(enc_model(k, c, v))) for c, v in kvs)),
                           'ok |  | u=0', 'op outcome, statements, UPDATE count: model = main.py'))
        self.taint_all(k, rid)

    # ---- after every step
    def peek(self, h, hd):
        o = hd.obj
        n = CLASSES[hd.k][3]
        d = o.__dict__
        cols = []
        for c in range(n):
            key = '_SO_val_' + ATTRS[hd.k][c]
            cols.append(sv_py(hd.k, c, d[key]) if key in d else '-')
        pend = d.get('_SO_createValues', {})
        pk = sorted((ATTRS[hd.k].index(nm), v) for nm, v in pend.items())
        ptxt = ','.join('%d=%s' % (c, sv_dbobj(hd.k, c, v)) for c, v in pk) if pk else '-'
        incache = self.conn.cache.tryGet(o.id, type(o)) is o
        return 'cls=%d id=%d cached=%s expired=%d dirty=%d pending=%s obsolete=%d incache=%d' % (
            hd.k, int(o.id), ','.join(cols), int(bool(o.sqlmeta.expired)), int(bool(o.sqlmeta.dirty)), ptxt,
            int(bool(o.sqlmeta._obsolete)), int(incache))

    def after_step(self, op):
        where = 'after %s' % (op,)
        if self.mode == 'A':
            for h in sorted(self.held):
                hd = self.held[h]
                for c in range(CLASSES[hd.k][3]):
                    self.op_read(h, c, where)
        for h in sorted(self.held):
            hd = self.held[h]
            k = hd.k
            lz, cv, n = CLASSES[k][1], CLASSES[k][2], CLASSES[k][3]
            self.lines.append(('peek %d' % h, self.peek(h, hd), 'instance state after every step (cached, expired, dirty, pending, obsolete, in cache): model = main.py'))
            o = hd.obj
            # C16 oracle: dirty <-> unwritten assignments exist (harness's own record)
            if bool(o.sqlmeta.dirty) != bool(hd.pend):
                self.fail('dirty-flag-vs-pending', k, '%s: instance %d dirty=%r, unwritten assignments %r'
                          % (where, h, o.sqlmeta.dirty, hd.pend))
            # ... and what the object keeps as pending is exactly the columns assigned and not yet written
            pcols = sorted(ATTRS[k].index(nm) for nm in o.__dict__.get('_SO_createValues', {}))
            if pcols != sorted(hd.pend):
                self.fail('pending-set-vs-assignments', k, '%s: instance %d keeps %r pending, the unwritten assignments are %r'
                          % (where, h, o.__dict__.get('_SO_createValues'), hd.pend))
            # C05 oracle, non-destructive form: what a read would return from the cache
            if cv and not hd.tainted:
                for c in range(n):
                    key = '_SO_val_' + ATTRS[k][c]
                    if key in o.__dict__:
                        exp = self.expected(hd, c)
                        if exp[0] == 'gone':
                            self.fail('read-of-vanished-row-returns-data', k,
                                      '%s: instance %d (row %d gone) still caches %s=%r' % (where, h, hd.rid, ATTRS[k][c], o.__dict__[key]))
                        elif exp[0] == 'val' and exp[1] != o.__dict__[key]:
                            self.fail('stale-read', k, '%s: instance %d (row %d) caches %s=%r, the database/pending value is %r'
                                      % (where, h, hd.rid, ATTRS[k][c], o.__dict__[key], exp[1]))
        self.emit_rows(full=False)
        self.conn.stmts = []

    def emit_rows(self, full):
        """raw rows vs the model: every row that exists or has existed in this history (all rows when `full`)"""
        for k in range(len(CLASSES)):
            cur = self.raw.cursor()
            cur.execute('SELECT id FROM %s' % tbl(k))
            for r in cur.fetchall():
                self.seen_rows.add((k, int(r[0])))
            cur.close()
        keys = [(k, rid) for k in range(len(CLASSES)) for rid in range(1, MAXID + 1)] if full else sorted(self.seen_rows)
        for (k, rid) in keys:
            self.lines.append(('row %d %d' % (k, rid), self.rawcanon(k, rid), 'raw row after every step: model = SQLite'))


# ---------------------------------------------------------------- generator
VALS = [None, 0, 1, 2, 3, 5, 7, -1, -4, 9]


FKVALS = [None, 1, 1, 2, 2, 3, 4, 5]


def gen_val(rng, pbad=0.08, k=None, c=None):
    if rng.random() < pbad and not (k is not None and kind(k, c) == 'fks'):
        return 'B'
    if k is not None and c == 0 and k in FKT:
        return rng.choice(FKVALS)
    return rng.choice(VALS)


def gen_op(rng, r, weights):
    """next abstract op for the runner's current state"""
    held = sorted(r.held)
    live = [h for h in held if not r.held[h].destroyed and not r.held[h].dead]

    def pick_h(allow_dead=0.1):
        if not held:
            return None
        if live and rng.random() > allow_dead:
            return rng.choice(live)
        return rng.choice(held)

    def pick_k():
        return rng.choice(weights['classes'])
    names = weights['ops']
    for _ in range(20):
        name = rng.choice(names)
        if name == 'create':
            k = pick_k()
            n = CLASSES[k][3]
            cols = [c for c in range(n) if rng.random() < 0.8]
            kvs = [[c, gen_val(rng, 0.05, k, c)] for c in cols]
            if k in FKT:
                targets = [r.held[h2].rid for h2 in live if r.held[h2].k == FKT[k]]
                if targets and rng.random() < 0.75:
                    kvs = [kv for kv in kvs if kv[0] != 0] + [[0, rng.choice(targets)]]
            rid = None if (rng.random() < 0.5 and not strkey(k)) else rng.randint(1, MAXID)
            alt = 1 if (rid is not None and rng.random() < 0.2) else 0
            if rid is None:
                # keep the table small
                cur = r.raw.cursor()
                cur.execute("SELECT seq FROM sqlite_sequence WHERE name = '%s'" % tbl(k))
                m = cur.fetchone()
                cur.close()
                if m is not None and m[0] >= MAXID:
                    continue
            return ['create', k, rid, kvs, alt]
        if name == 'get':
            k = pick_k()
            return ['get', k, rng.randint(1, MAXID), 1 if rng.random() < 0.2 else 0]
        if name == 'deleteby':
            k = pick_k()
            cs = [c for c in range(CLASSES[k][3]) if kind(k, c) in ('int', 'fk')]
            if not cs:
                continue
            c = rng.choice(cs)
            v = gen_val(rng, 0, k, c)
            if v is None:
                continue
            return ['deleteby', k, c, v]
        if name == 'deletemany':
            return ['deletemany', pick_k(), rng.randint(1, MAXID)]
        if name == 'select':
            return ['select', pick_k()]
        if name in ('expireall',):
            return ['expireall']
        if name == 'unpickle':
            if not r.blobs:
                continue
            return ['unpickle', rng.randrange(len(r.blobs))]
        if name == 'iter':
            if sum(1 for x in r.iters if x is not None) >= 2:
                name = 'next'
            else:
                return ['iter', pick_k()]
        if name == 'next':
            opened = [i for i, x in enumerate(r.iters) if x is not None]
            if not opened:
                continue
            return ['next', rng.choice(opened)]
        if name == 'readfk':
            hs = [h2 for h2 in live if r.held[h2].k in FKT]
            if not hs:
                continue
            return ['readfk', rng.choice(hs)]
        if name == 'expireallcls':
            return ['expireallcls', pick_k()]
        if name == 'oobupdate':
            k = pick_k()
            c = rng.randrange(CLASSES[k][3])
            return ['oobupdate', k, rng.randint(1, MAXID), c, gen_val(rng, 0, k, c)]
        if name == 'oobdelete':
            return ['oobdelete', pick_k(), rng.randint(1, MAXID)]
        if name == 'oobinsert':
            k = pick_k()
            return ['oobinsert', k, rng.randint(1, MAXID), [[c, gen_val(rng, 0, k, c)] for c in range(CLASSES[k][3])]]
        h = pick_h(0.03 if name in ('setattr', 'set', 'syncupdate', 'destroy', 'pickle') else 0.15)
        if h is None:
            continue
        if name == 'destroy' and rng.random() < 0.5:
            referenced = [h2 for h2 in live if r.held[h2].k == 0]
            if referenced:
                h = rng.choice(referenced)
        n = CLASSES[r.held[h].k][3]
        fail = 1 if rng.random() < 0.07 else 0
        if name == 'read':
            return ['read', h, rng.randrange(n)]
        kk = r.held[h].k
        if name == 'setattr':
            c = rng.randrange(n)
            return ['setattr', h, c, gen_val(rng, 0.08, kk, c), fail]
        if name == 'set':
            cols = [c for c in range(n) if rng.random() < 0.6]
            rng.shuffle(cols)
            if kk in SUBCLS and len(cols) > 1:
                # (finding C16:subclass-set-splits-inherited-column: a multi-column set() of a plain subclass writes the
                #  INHERITED column separately; the generator sets it alone or not at all)
                cols = [rng.choice(cols)]
            return ['set', h, [[c, gen_val(rng, 0.06, kk, c)] for c in cols], fail]
        if name in ('syncupdate', 'sync', 'pickle'):
            return [name, h, fail]
        if name in ('expire', 'destroy', 'drop'):
            return [name, h]
    return ['select', 0]


OPS_C05 = (['create'] * 10 + ['get'] * 7 + ['select'] * 6 + ['read'] * 8 + ['setattr'] * 14 + ['set'] * 9 +
           ['syncupdate'] * 4 + ['sync'] * 7 + ['expire'] * 8 + ['expireall'] * 2 + ['expireallcls'] * 1 +
           ['destroy'] * 4 + ['pickle'] * 2 + ['drop'] * 1 + ['oobupdate'] * 4 + ['oobdelete'] * 2 + ['oobinsert'] * 1 +
           ['deleteby'] * 1 + ['deletemany'] * 2 + ['unpickle'] * 2 + ['iter'] * 3 + ['next'] * 9 + ['readfk'] * 4)
W_C05 = {'ops': OPS_C05, 'classes': [0, 0, 0, 0, 1, 1, 2, 2, 3, 4, 4, 5, 5, 6, 7, 7, 8, 8, 9, 10, 11, 11, 12, 13, 13, 14, 14, 15, 15, 16]}


def interesting(ops):
    names = [o[0] for o in ops]
    wrote = False
    for o in ops:
        if o[0] in ('setattr', 'set'):
            wrote = True
            if o[-1]:
                return True
        elif wrote and o[0] in ('expire', 'sync', 'select', 'destroy', 'expireall', 'syncupdate', 'pickle'):
            return True
    return False


HANDLE_OPS = ('read', 'setattr', 'set', 'syncupdate', 'sync', 'expire', 'destroy', 'pickle', 'drop')


def run_history(do_cache, mode, ops, prop='C05'):
    r = Runner(do_cache, mode, prop)
    for op in ops:
        r.apply(op)
    r.emit_rows(full=True)
    return r


def shrink(do_cache, mode, ops, kind, prop):
    """ddmin over the op list: keep a history that still fails with the same oracle kind"""
    def bad(cand):
        r = run_history(do_cache, mode, cand, prop)
        return any(f[0] == kind for f in r.fails)
    cur = list(ops)
    n = 2
    budget = 120
    while len(cur) >= 2 and budget > 0:
        chunk = max(1, len(cur) // n)
        reduced = False
        for i in range(0, len(cur), chunk):
            cand = cur[:i] + cur[i + chunk:]
            budget -= 1
            if cand and bad(cand):
                cur = cand
                n = max(n - 1, 2)
                reduced = True
                break
            if budget <= 0:
                break
        if not reduced:
            if chunk == 1:
                break
            n = min(len(cur), n * 2)
    i = len(cur) - 1
    while i >= 0 and budget > 0 and len(cur) > 1:
        # remove one op; handles it allocated disappear and later handle numbers shift down
        r0 = run_history(do_cache, mode, cur, prop)
        gone = r0.alloc[i] if r0.executed == cur else []
        cand = cur[:i]
        for o in cur[i + 1:]:
            if o[0] in HANDLE_OPS:
                if o[1] in gone:
                    continue
                o = [o[0], o[1] - sum(1 for g in gone if g < o[1])] + list(o[2:])
            cand.append(o)
        budget -= 1
        if cand and bad(cand):
            cur = cand
        i -= 1
    return cur


def fail_key(prop, kind, clsname, ops):
    return '%s:%s:%s:%s' % (prop, kind, clsname, ','.join(o[0] for o in ops))


def finding_listed(key):
    try:
        return any(f.get('key') == key for f in json.load(open(os.path.join(HERE, 'known_findings.json')))['findings'])
    except Exception:
        return False


def load_corpus(prop):
    d = os.path.join(HERE, 'corpus', prop)
    out = []
    if os.path.isdir(d):
        for fn in sorted(os.listdir(d)):
            if fn.endswith('.json'):
                c = json.load(open(os.path.join(d, fn)))
                c['name'] = fn
                out.append(c)
    return out


def report_fails(ctx, prop, r, do_cache, mode, ops, shrink_it=True):
    seen = set()
    for kind, clsname, what in r.fails:
        if (kind, clsname) in seen:
            continue
        seen.add((kind, clsname))
        small = shrink(do_cache, mode, r.executed, kind, prop) if shrink_it else list(r.executed)
        rr = run_history(do_cache, mode, small, prop)
        w = [f for f in rr.fails if f[0] == kind]
        if w:
            clsname, what = w[0][1], w[0][2]
        else:
            small = list(r.executed)
        ctx.oracle_fail(fail_key(prop, kind, clsname, small), what,
                        {'cache': do_cache, 'mode': mode, 'ops': small, 'kind': kind})


def flush(ctx, runs):
    """model side: one driver call for a batch of histories, then the line-by-line comparison"""
    lines = []
    for (r, _, _, _) in runs:
        lines.extend(l for l, _, _ in r.lines)
    outs = ctx.model(lines)
    k = 0
    for (r, do_cache, mode, origin) in runs:
        ops = r.executed
        ctx.case(tuple(json.dumps(o) for o in ops) + (do_cache, mode), nontrivial=interesting(ops),
                 sample={'cache': do_cache, 'mode': mode, 'origin': origin, 'ops': ops[:12],
                         'oracle_failures': [f[0] for f in r.fails]},
                 kind='len%02d-%02d' % (len(ops) // 10 * 10, len(ops) // 10 * 10 + 9))
        ctx.count('mode %s, cache=%s' % (mode, do_cache))
        for nm, cnt in r.stats.items():
            ctx.count(('op:' + nm) if ' ' not in nm else nm, cnt)
        for nt in r.notes:
            ctx.note(nt)
        bad_reported = False
        for (line, exp, stream) in r.lines:
            if outs is not None:
                ok = ctx.compare(stream, {'cache': do_cache, 'mode': mode, 'ops': ops, 'at': line} if not bad_reported else {'at': line},
                                 outs[k], exp)
                if not ok:
                    bad_reported = True
            k += 1
        for (stream, m, im) in r.direct:
            ctx.compare(stream, {'cache': do_cache, 'mode': mode, 'ops': ops}, m, im)
    del runs[:]


def drive(ctx, prop, weights, n_hist, max_ops, modes=('A', 'B')):
    rng = ctx.rng
    runs = []
    for c in load_corpus(prop):
        for do_cache in ([True, False] if c.get('cache') is None else [c['cache']]):
            for mode in (list(modes) if c.get('mode') is None else [c['mode']]):
                r = run_history(do_cache, mode, c['ops'], prop)
                runs.append((r, do_cache, mode, 'corpus:' + c['name']))
                if r.fails:
                    report_fails(ctx, prop, r, do_cache, mode, c['ops'])
    for i in range(n_hist):
        do_cache = rng.random() < 0.6
        mode = modes[i % len(modes)]
        r = Runner(do_cache, mode, prop)
        nops = rng.randint(max(4, max_ops // 3), max_ops)
        tries = 0
        while len(r.executed) < nops and tries < nops * 3:
            tries += 1
            r.apply(gen_op(rng, r, weights))
        r.emit_rows(full=True)
        runs.append((r, do_cache, mode, 'random'))
        if r.fails and len(ctx.oracle_fails) < 40:
            report_fails(ctx, prop, r, do_cache, mode, r.executed)
        if len(runs) >= 250:
            flush(ctx, runs)
    flush(ctx, runs)


def probe_like_named(ctx):
    """known finding (open): the connection keeps one identity map per class NAME, so like-named classes of two
    registries share it.  Two int-id classes `Twin` in two registries: B.get(1) must be an instance of B showing B's row."""
    sqlo.setup()
    from sqlobject import SQLObject, IntCol
    conn = sqlo.mem_conn()
    tag = sqlo.uniq('twin')

    def mk(reg, table, col):
        return type('Twin', (SQLObject,), {'_connection': conn, col: IntCol(default=None),
                                           'sqlmeta': type('sqlmeta', (), {'table': table, 'registry': tag + reg})})
    A = mk('a', 't_twin_a', 'x')
    B = mk('b', 't_twin_b', 'y')
    A.createTable()
    B.createTable()
    what = None
    try:
        a = A(x=1)
        conn._memoryConn.execute('INSERT INTO t_twin_b (id, y) VALUES (1, 77)')
        b = B.get(1)
        if not isinstance(b, B) or getattr(b, 'y', None) != 77:
            what = ('with two classes named alike in two registries on one connection, B.get(1) returned %s showing %r; '
                    'row 1 of B holds y=77' % ('the instance of A' if b is a else type(b).__name__, getattr(b, 'y', '<no attribute y>')))
    except Exception as ex:
        what = 'like-named classes in two registries: %s' % sqlo.exc_name(ex)
    ctx.case(('probe', 'like-named'), sample={'probe': 'like-named classes share the cache', 'failed': bool(what)}, kind='directed probe')
    if what:
        ctx.oracle_fail('C05:like-named-classes-share-cache', what,
                        {'probe': 'like_named', 'cache': True, 'mode': 'B', 'ops': []})


def probe_lookahead(ctx):
    """known finding (open): a write to exactly the row an open lazyIter() hands out next is overwritten in the held
    instance by the copy the driver read ahead.  Replays  a = E(x=7); it = iter(E.select().lazyIter()); a.x = 0;
    next(it); a.x  on the real code, on a connection of its own, and compares with a raw SELECT."""
    sqlo.setup()
    from sqlobject import SQLObject, IntCol
    what = None
    for do_cache in (True, False):
        conn = sqlo.mem_conn(cache=do_cache)
        cls = type(sqlo.uniq('C05Look'), (SQLObject,), {'_connection': conn, 'x': IntCol(default=None),
                                                        'sqlmeta': type('sqlmeta', (), {'table': 't_look'})})
        cls.createTable()
        try:
            a = cls(x=7)
            it = iter(cls.select().lazyIter())
            a.x = 0
            got = next(it)
            shown = a.x
            cur = conn._memoryConn.cursor()
            cur.execute('SELECT x FROM t_look WHERE id = %d' % a.id)
            stored = cur.fetchone()[0]
            cur.close()
            del it
            if got is not a or shown != stored:
                what = ('a = E(x=7); it = iter(E.select().lazyIter()); a.x = 0; next(it) (cache=%s): a.x shows %r, the row '
                        'holds %r%s' % (do_cache, shown, stored, '' if got is a else '; the iteration handed out another instance'))
                break
        except Exception as ex:
            what = 'look-ahead witness raised %s' % sqlo.exc_name(ex)
            break
    ctx.case(('probe', 'lookahead'), sample={'probe': 'write to the look-ahead row of an open lazyIter()', 'failed': bool(what)},
             kind='directed probe')
    if what:
        ctx.oracle_fail('C05:stale-read:lazyIter-lookahead-row', what, {'probe': 'lookahead', 'cache': True, 'mode': 'B', 'ops': []})


def probe_subclass_cachevalues(ctx):
    """known finding (open): a plain subclass with cacheValues=False under a caching parent keeps the parent's CACHING
    getter of the inherited column, while its setter does not cache: b = B(x=1, y=2); b.x = 5; b.x -> 1."""
    sqlo.setup()
    from sqlobject import SQLObject, IntCol
    conn = sqlo.mem_conn()
    A = type(sqlo.uniq('C05SubA'), (SQLObject,), {'_connection': conn, 'x': IntCol(default=None),
                                                  'sqlmeta': type('sqlmeta', (), {'table': 't_sub_a'})})
    B = type(sqlo.uniq('C05SubB'), (A,), {'y': IntCol(default=None),
                                          'sqlmeta': type('sqlmeta', (), {'table': 't_sub_b', 'cacheValues': False})})
    B.createTable()
    what = None
    try:
        b = B(x=1, y=2)
        b.x = 5
        b.y = 6
        shown = (b.x, b.y)
        cur = conn._memoryConn.cursor()
        cur.execute('SELECT x, y FROM t_sub_b WHERE id = %d' % b.id)
        stored = tuple(cur.fetchone())
        cur.close()
        if shown != stored:
            what = ('class B(A) with sqlmeta.cacheValues = False under a caching A: b = B(x=1, y=2); b.x = 5; b.y = 6: '
                    '(b.x, b.y) shows %r, the row holds %r' % (shown, stored))
    except Exception as ex:
        what = 'subclass witness raised %s' % sqlo.exc_name(ex)
    ctx.case(('probe', 'subclass-cachevalues'), sample={'probe': 'cacheValues=False subclass of a caching class', 'failed': bool(what)},
             kind='directed probe')
    if what:
        ctx.oracle_fail('C05:subclass-cacheValues-false-inherits-caching-getter', what,
                        {'probe': 'subclass_cachevalues', 'cache': True, 'mode': 'B', 'ops': []})



# ---------------------------------------------------------------- transactions / explicit connections
# Instances bound to a Transaction (get/create with connection=tx) next to instances of the class's own connection,
# on a file-backed database (the transaction has a connection of its own).  Oracle: after every step every held
# instance shows, for every column, the row AS SEEN BY ITS OWN CONNECTION (raw SELECT through that connection).
# The parent connection's cache culls every few look-ups (CacheSet(cullFrequency=2)), so held instances sit in the
# weak table as often as in the strong one.
_txenv = {}
TXCLS = [('T', ['x', 'y'], 't_txt'), ('DN', ['fkID', 'x'], 't_txdn'), ('DC', ['fkID', 'x'], 't_txdc')]
TXDB = [['x', 'y'], ['fk_id', 'x'], ['fk_id', 'x']]


def tx_env():
    if _txenv:
        return _txenv
    import atexit
    import shutil
    import tempfile
    sqlo.setup()
    from sqlobject import SQLObject, IntCol, ForeignKey
    from sqlobject.cache import CacheSet
    d = tempfile.mkdtemp(prefix='c05tx', dir='/dev/shm' if os.path.isdir('/dev/shm') else None)
    atexit.register(shutil.rmtree, d, True)
    conn = sqlo.file_conn(os.path.join(d, 'c05tx.db'), timeout=0.05)
    conn.cache = CacheSet(cache=True, cullFrequency=2)
    T = type(sqlo.uniq('C05TxT'), (SQLObject,), {'_connection': conn, 'x': IntCol(default=None), 'y': IntCol(default=None),
                                                 'sqlmeta': type('sqlmeta', (), {'table': 't_txt'})})
    DN = type(sqlo.uniq('C05TxDN'), (SQLObject,), {'_connection': conn, 'fk': ForeignKey(T.__name__, cascade='null', default=None),
                                                   'x': IntCol(default=None), 'sqlmeta': type('sqlmeta', (), {'table': 't_txdn'})})
    DC = type(sqlo.uniq('C05TxDC'), (SQLObject,), {'_connection': conn, 'fk': ForeignKey(T.__name__, cascade=True, default=None),
                                                   'x': IntCol(default=None), 'sqlmeta': type('sqlmeta', (), {'table': 't_txdc'})})
    for c in (T, DN, DC):
        c.createTable()
    _txenv.update(conn=conn, classes=[T, DN, DC], CacheSet=CacheSet)
    return _txenv


class TxRun(object):
    """ops: ['create', who, k, [v0, v1]] ['get', who, k, id] ['set', i, c, v] ['destroy', i] ['lookups', who, k, n]
    ['commit'] ['rollback']      who: 'p' the class's own connection, 't' the transaction;  i: index into the held list"""

    def __init__(self):
        e = tx_env()
        self.conn = e['conn']
        self.classes = e['classes']
        for (_, _, t) in TXCLS:
            self.conn.query('DELETE FROM %s' % t)
        self.conn.query('DELETE FROM sqlite_sequence')
        self.conn.cache = e['CacheSet'](cache=True, cullFrequency=2)
        self.tx = self.conn.transaction()
        self.tx_dirty = False
        self.resync = set()
        self.held = []      # [obj, who, k, id] or None
        self.fails = []
        self.executed = []

    def close(self):
        try:
            self.tx.rollback()
        except Exception:
            pass

    def view(self, who):
        return self.tx if who == 't' else self.conn

    def rawrow(self, who, k, rid):
        r = self.view(who).queryOne('SELECT %s FROM %s WHERE id = %d' % (', '.join(TXDB[k]), TXCLS[k][2], rid))
        return None if r is None else tuple(r)

    def hold(self, obj, who, k):
        for i, hd in enumerate(self.held):
            if hd is not None and hd[0] is obj:
                return i
        for i, hd in enumerate(self.held):
            # (open C04 finding: expire() - also the one commit() does - evicts the instance; the older handle goes)
            if hd is not None and hd[1:] == [who, k, obj.id]:
                self.held[i] = None
        self.held.append([obj, who, k, obj.id])
        return len(self.held) - 1

    def in_cache(self, hd):
        """is the instance still registered (strong or weak table) in the cache of its connection?  (looked up in the
        tables themselves, not through tryGet)"""
        obj, who, k, rid = hd
        f = self.view(who).cache.caches.get(type(obj).__name__)
        if f is None:
            return False
        if getattr(f, 'cache', {}).get(rid) is obj if f.doCache else False:
            return True
        w = f.expiredCache.get(rid)
        return w is not None and w() is obj

    def other_side_wrote(self, who, ks):
        """a write through one connection is raw SQL for the instances of the OTHER one (until commit() expires the
        parent's): the application lets go of those"""
        other = 't' if who == 'p' else None
        for i, hd in enumerate(self.held):
            if hd is not None and hd[1] == other and hd[2] in ks:
                self.held[i] = None
        if other:
            self.resync.update(ks)     # the transaction's cached instances of these classes need a sync() when met again

    def apply(self, op):
        name = op[0]
        try:
            r = getattr(self, 'do_' + name)(*op[1:])
        except Exception as ex:
            r = 'raised %s' % sqlo.exc_name(ex)
            self.fails.append(('tx-op-raised', '-', '%r raised %s' % (op, sqlo.exc_name(ex))))
        if r is False:
            return False
        self.executed.append(op)
        self.check('after %r' % (op,))
        # (open C04 finding: expire() - also the one commit()/rollback() do - drops the instance from the cache; the
        #  application re-fetches such instances)
        for i, hd in enumerate(self.held):
            if hd is not None and not self.in_cache(hd):
                self.held[i] = None
        return True

    def do_create(self, who, k, vals):
        if who == 'p' and self.tx_dirty:
            return False
        kw = dict(zip(TXCLS[k][1], vals))
        if who == 't':
            kw['connection'] = self.tx
            self.tx_dirty = True
        self.hold(self.classes[k](**kw), who, k)

    def do_get(self, who, k, rid):
        if self.rawrow(who, k, rid) is None:
            return False
        obj = self.classes[k].get(rid, connection=self.tx) if who == 't' else self.classes[k].get(rid)
        if who == 't' and k in self.resync:
            obj.sync()
        self.hold(obj, who, k)

    def do_lookups(self, who, k, n):
        for _ in range(n):
            for rid in (1, 2, 3):
                if self.rawrow(who, k, rid) is not None:
                    if who == 't':
                        self.classes[k].get(rid, connection=self.tx)
                    else:
                        self.classes[k].get(rid)

    def do_set(self, i, c, v):
        if i >= len(self.held) or self.held[i] is None:
            return False
        obj, who, k, rid = self.held[i]
        if who == 'p' and self.tx_dirty:
            return False
        if self.rawrow(who, k, rid) is None:
            return False
        if who == 't':
            self.tx_dirty = True
        self.other_side_wrote(who, [k])
        setattr(obj, TXCLS[k][1][c], v)

    def do_destroy(self, i):
        if i >= len(self.held) or self.held[i] is None:
            return False
        obj, who, k, rid = self.held[i]
        if who == 'p' and self.tx_dirty:
            return False
        if self.rawrow(who, k, rid) is None:
            return False
        if who == 't':
            self.tx_dirty = True
        self.other_side_wrote(who, [0, 1, 2] if k == 0 else [k])
        obj.destroySelf()
        self.held[i] = None

    def do_commit(self):
        self.tx.commit()
        self.tx_dirty = False

    def do_rollback(self):
        self.resync = set()
        self.tx.rollback()
        self.held = [None if (hd is None or hd[1] == 't') else hd for hd in self.held]
        self.tx = self.conn.transaction()
        self.tx_dirty = False

    def check(self, where):
        for i, hd in enumerate(self.held):
            if hd is None:
                continue
            obj, who, k, rid = hd
            row = self.rawrow(who, k, rid)
            if row is None:
                self.held[i] = None      # the row is gone for that connection (cascade, destroy through another instance)
                continue
            try:
                shown = tuple(getattr(obj, a) for a in TXCLS[k][1])
            except Exception as ex:
                shown = 'raised %s' % sqlo.exc_name(ex)
            if shown != row:
                self.fails.append(('tx-stale-read', TXCLS[k][0] + ('@tx' if who == 't' else '@conn'),
                                   '%s: instance %d (%s row %d, held on the %s) shows %r, its connection sees the row %r'
                                   % (where, i, TXCLS[k][0], rid, 'transaction' if who == 't' else "class's connection", shown, row)))
                self.held[i] = None


def tx_run(ops):
    r = TxRun()
    try:
        for op in ops:
            r.apply(op)
    finally:
        r.close()
    return r


def tx_shrink(ops, kind, clsname):
    def bad(cand):
        return any(f[0] == kind and f[1] == clsname for f in tx_run(cand).fails)
    cur = list(ops)
    i = len(cur) - 1
    budget = 60
    while i >= 0 and budget > 0 and len(cur) > 1:
        cand = cur[:i] + cur[i + 1:]
        budget -= 1
        if bad(cand):
            cur = cand
        i -= 1
    return cur


TX_CORPUS = [
    # a referenced row destroyed THROUGH THE TRANSACTION: its dependents held on the transaction follow (NULL / gone)
    [['create', 'p', 0, [1, 1]], ['create', 'p', 1, [1, 5]], ['create', 'p', 2, [1, 6]], ['get', 't', 0, 1], ['get', 't', 1, 1], ['get', 't', 2, 1],
     ['get', 'p', 1, 1], ['destroy', 3], ['commit'], ['get', 'p', 1, 1]],
    # a held instance of the class's connection, moved to the weak table by culls, then its row is updated through a
    # transaction: commit() must still find and expire it; rollback() must find the transaction's own culled instances
    [['create', 'p', 0, [1, 1]], ['create', 'p', 0, [2, 2]], ['create', 'p', 0, [3, 3]], ['lookups', 'p', 0, 3], ['get', 't', 0, 1], ['set', 3, 0, 9],
     ['commit'], ['lookups', 'p', 0, 2], ['get', 't', 0, 2], ['set', 4, 1, 7], ['lookups', 't', 0, 3], ['commit']],
    [['create', 'p', 0, [1, 1]], ['create', 'p', 0, [2, 2]], ['get', 't', 0, 1], ['get', 't', 0, 2], ['lookups', 't', 0, 3], ['set', 2, 0, 5], ['set', 3, 0, 6],
     ['rollback'], ['get', 't', 0, 1], ['set', 2, 1, 4], ['commit']],
]


def tx_gen(rng):
    ops = [['create', 'p', 0, [rng.randint(0, 9), rng.randint(0, 9)]] for _ in range(rng.randint(1, 3))]
    for _ in range(rng.randint(0, 2)):
        ops.append(['create', rng.choice('pt'), rng.choice([1, 2]), [rng.choice([1, 1, 2, None]), rng.randint(0, 9)]])
    for _ in range(rng.randint(4, 12)):
        r = rng.random()
        if r < 0.25:
            ops.append(['get', rng.choice('ptt'), rng.choice([0, 0, 1, 2]), rng.randint(1, 3)])
        elif r < 0.5:
            c = rng.randint(0, 1)
            ops.append(['set', rng.randint(0, 7), c, rng.randint(0, 9)])
        elif r < 0.62:
            ops.append(['lookups', rng.choice('pt'), rng.choice([0, 0, 1]), rng.randint(1, 3)])
        elif r < 0.72:
            ops.append(['destroy', rng.randint(0, 7)])
        elif r < 0.8:
            ops.append(['create', rng.choice('pt'), rng.choice([0, 1, 2]), [rng.choice([1, 2, None]), rng.randint(0, 9)]])
        elif r < 0.93:
            ops.append(['commit'])
        else:
            ops.append(['rollback'])
    ops.append(['commit'])
    return ops


def tx_scenarios(ctx):
    rng = ctx.rng
    n = ctx.budget(150, 3000)
    seen = set()
    for idx in range(len(TX_CORPUS) + n):
        ops = TX_CORPUS[idx] if idx < len(TX_CORPUS) else tx_gen(rng)
        r = tx_run(ops)
        ctx.case(('tx',) + tuple(json.dumps(o) for o in r.executed), sample={'transaction scenario': r.executed[:12]}, kind='transaction scenario')
        for kind, clsname, what in r.fails:
            if (kind, clsname) in seen or len(ctx.oracle_fails) >= 40:
                continue
            seen.add((kind, clsname))
            small = tx_shrink(r.executed, kind, clsname)
            rr = tx_run(small)
            w = [f for f in rr.fails if f[0] == kind and f[1] == clsname]
            ctx.oracle_fail('C05:%s:%s:%s' % (kind, clsname, ','.join(o[0] for o in small)), (w[0][2] if w else what),
                            {'probe': 'tx', 'cache': True, 'mode': 'B', 'ops': small, 'kind': kind, 'cls': clsname})


PROBES = {'like_named': probe_like_named, 'lookahead': probe_lookahead, 'subclass_cachevalues': probe_subclass_cachevalues}


def run(ctx):
    env(True)
    env(False)
    probe_like_named(ctx)
    probe_lookahead(ctx)
    probe_subclass_cachevalues(ctx)
    tx_scenarios(ctx)
    n = ctx.budget(2500, 15000)
    drive(ctx, 'C05', W_C05, n, 30 if ctx.tier == 'quick' and not ctx.deep else 60)


def replay(case):
    if case.get('probe') == 'tx':
        r = tx_run([list(o) for o in case['ops']])
        bad = [f for f in r.fails if f[0] == case.get('kind', f[0])]
        return (not bad), 'transaction scenario: %s\n%s' % (json.dumps(case['ops']), '\n'.join('%s [%s]: %s' % f for f in r.fails) or 'no oracle failure')
    if case.get('probe') in PROBES:
        class _C(object):
            fails = []

            def case(self, *a, **k):
                pass

            def oracle_fail(self, key, what, case):
                self.fails.append(what)
        c = _C()
        PROBES[case['probe']](c)
        return (not c.fails), '\n'.join(c.fails) or 'the witness no longer reproduces'
    r = run_history(case['cache'], case['mode'], [list(o) for o in case['ops']], 'C05')
    bad = [f for f in r.fails if f[0] == case.get('kind', f[0])]
    txt = '\n'.join('%s [%s]: %s' % f for f in r.fails) or 'no oracle failure on this history'
    return (not bad), 'history: %s\n%s' % (json.dumps(case['ops']), txt)
