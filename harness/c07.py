"""C07 — transactions: invisible until commit, visible after (no stale cached value), erased by rollback,
a finished transaction refuses use until begin().

correspondence: interleaved histories on a file-backed SQLite database (parent connection with timeout=0,
`conn.transaction()`, a third plain sqlite3 connection as raw observer) against the Lean model driver
`drv_c07` (Model/Tx.lean): the answer of every operation and, after every step, the committed rows, the
transaction's own view and the cached values of every held instance on both sides.
oracle (independent of the model): raw observer = committed state, `t.queryAll` = the transaction's own view;
tx operations never change the committed rows; commit makes committed = the view before; parent reads / gets /
selects and every cached value of a parent-held instance equal the committed rows; transaction-side instances
equal the view; rollback leaves the committed rows alone; an obsolete transaction answers AssertionError.
"""
import gc
import os
import shutil
import sqlite3
import tempfile
import weakref
import atexit

from vlib import sqlo

PROP = 'C07'
K_CULLED = 'C07:stale-after-commit:tx-instance-culled'
K_TXDET = 'C07:stale-after-commit:tx-instance-detached-by-expire'
K_PDET = 'C07:stale-after-commit:parent-detached-by-expire'
K_RBDET = 'C07:stale-after-rollback:tx-instance-detached-by-expire'

META = {
    'extractors': ['pytx'],
    'technique': ('Lean 4 proofs over an executable model of Transaction/CacheFactory/instance life cycle '
                  '(step-wise isolation and commit/rollback theorems for every state, history induction for the '
                  'coherence invariant) + differential correspondence on interleaved histories + raw-observer oracle'),
    'level_text': ('C07_isolation*, C07_commit_visible, C07_rollback_erases, C07_obsolete_refuses* hold for every model state / '
                   'history; C07_commit_no_stale and the instance part of rollback are FALSE of the code (four replayed '
                   'witnesses) and proved as _partial under the decidable per-step hypothesis `good`.'),
    'level_note': ('Trusted: Lean kernel; hand-written model Model/Tx.lean tied by the sampling correspondence AND, for '
                   'Transaction.commit/rollback/begin/_makeObsolete/assertActive/_SO_delete/__del__, by translation: '
                   'vlib/extractors/pytx.py translates the method bodies from the AST on every run into PyTx programs '
                   '(Model/PyTx.lean); C07_translated_*_eq_model prove by symbolic execution (nested loops by induction over '
                   'the lists allIDs() returned) that running them from the image of any model state gives opCommit / opRollback / '
                   'opBegin / the _SO_delete part of opDestroy, under ConnWF of the connection whose instances are expired and the '
                   'interface assumptions stated in Model/TxX.lean (low-level COMMIT/ROLLBACK, allIDs() = any list with exactly '
                   'the ids of Conn.inAllIDs, tryGet/tryGetByName = Conn.tryGet, inst.expire() = opExpire, signals/debug without '
                   'effect, _setAutoCommit / releaseConnection(explicit=True) / getConnection on the pooled connection); SQLite '
                   'locking/visibility semantics, weakref/GC and cull timing are modelled (explicit drop/weaken/purge steps '
                   'observed from the real run), not verified.'),
    'rule': ('case = (doCache, history of create/get/read/set/destroy/expire/select/drop/cull on either side and '
             'commit/commit(close)/rollback/begin), 2 classes x ids 1..4 x 2 columns; corpus of the known-finding witnesses first, '
             'then seeded random histories; distinct = distinct model request sequences; non-trivial = at least one commit or rollback'),
    'trusted': ['SQLite (3.40) transaction visibility and write-lock behaviour as modelled in Model/Tx.lean (view = committed '
                'overridden by the write set; first write attempt takes the lock; parent write under lock fails at timeout=0)',
                'CPython weakref/GC: an instance dies when neither the application nor a strong cache entry references it '
                '(harness runs gc.collect() after every drop/cull)'],
    'modelled': ['inheritable classes and aggregates (count/sum/max) are outside the Lean models: oracle-only streams (selects and aggregates '
                 'on either side must equal the committed rows / the transaction\'s view; isolation, commit = view, rollback over all tables)',
                 'lazyUpdate classes live in a model of their own (Model/TxLazy.lean: pending set per instance, cache membership as one '
                 'flag), tied by its own correspondence stream; eager and lazy instances are not mixed in one history',
                 'cascading deletes (cascade=True / \'null\' foreign keys) through a transaction are outside the Lean model: a separate '
                 'oracle-only stream checks isolation, commit = view and rollback over all tables with the raw observer',
                 'cull timing: the harness observes which keys a real cull moved and feeds `weaken`/`purge` steps to the model',
                 'only eager classes with cached values, no joins/foreign keys, explicit ids',
                 'transaction-bound class access `t.Cls.get()` is only exercised on an obsolete transaction: ConnWrapper.__getattr__ '
                 'uses inspect.getargspec, which Python 3.12 no longer has (AttributeError on an active transaction)',
                 'Transaction.__del__ (rollback by refcounting) is exercised by C08, not here'],
    'assumptions': ['C07_commit_no_stale_partial / rollback instance part assume `good` at every step: at commit, every loaded '
                    'parent instance of a written key is the one the parent cache returns and the key is in the transaction '
                    'cache\'s allIDs() or the deleted log; at rollback the loaded transaction-side instances of written keys are '
                    'the cached ones; writes go through the only loaded instance of the row on either side',
                    'C07_translated_*_eq_model: the calls into other objects are interpreter parameters (Model/TxX.lean header): '
                    'allIDs() returns any list whose members are exactly Conn.inAllIDs (AllIDsSpec, tied to CacheFactory.allIDs by C04), '
                    'tryGet/tryGetByName = Conn.tryGet, inst.expire() = opExpire, low-level COMMIT/ROLLBACK as in Model/Tx.lean, signal '
                    'listeners and debug output do not touch the modelled state; representation invariant ConnWF (holds in every '
                    'reachable state: C07_translated_rep_reachable); ids < 1000 per class (key = class*1000 + id)'],
    'exhaustive': False,
}

NCOLS = 2
COLS = ['n', 'm']
NCLS = 2
MISSING = object()
_env = {}


def env():
    if _env:
        return _env
    sqlo.setup()
    from sqlobject import SQLObject, IntCol
    classes = []
    for c in range(NCLS):
        name = 'C07K%d' % c
        classes.append(type(name, (SQLObject,), {'n': IntCol(), 'm': IntCol()}))
    d = tempfile.mkdtemp(prefix='verif_c07_', dir='/dev/shm' if os.access('/dev/shm', os.W_OK) else None)
    atexit.register(shutil.rmtree, d, True)
    _env.update(classes=classes, dir=d, count=[0])
    gc.collect()
    gc.freeze()
    return _env


def exc(e):
    from sqlobject import dberrors, SQLObjectNotFound
    if isinstance(e, SQLObjectNotFound):
        return 'NotFound'
    if isinstance(e, dberrors.DuplicateEntryError):
        return 'Duplicate'
    if isinstance(e, (dberrors.OperationalError, sqlite3.OperationalError)) and 'locked' in str(e):
        return 'Locked'
    if isinstance(e, AssertionError):
        return 'Assert'
    return 'Other(%s)' % type(e).__name__


def fmt_rows(rows):
    return ''.join(' %d=%s' % (k, ','.join(str(x) for x in rows[k])) for k in sorted(rows))


TX_KINDS = ('commit', 'rollback', 'begin', 'commit_blocked')


class World:
    """one history on the real code, with the oracle; produces the model request lines and the answers to compare"""

    def __init__(self, dc):
        e = env()
        e['count'][0] += 1
        self.dc = dc
        self.path = os.path.join(e['dir'], 'h%d.db' % e['count'][0])
        self.classes = e['classes']
        self.conn = sqlo.file_conn(self.path, timeout=0, cache=dc)
        for c in self.classes:
            c._connection = self.conn
            c.createTable()
        self.raw = sqlite3.connect(self.path, isolation_level=None, timeout=0)
        self.t = self.conn.transaction()
        self.refs = {'P': [], 'T': []}
        self.keyof = {'P': [], 'T': []}
        self.held = {'P': {}, 'T': {}}
        self.destroyed = {'P': set(), 'T': set()}
        # reference bookkeeping of the UNCHANGED code's cache membership, kept by the harness from the API calls alone
        # (never read from the implementation): it decides whether a stale read belongs to a recorded finding
        self.att = {'P': [], 'T': []}
        self.weakened = {'P': set(), 'T': set()}
        self.allocs = []
        self.taint = {'P': set(), 'T': set()}
        self.stale = {'P': set(), 'T': set()}
        self.obsolete = False
        self.txdel = set()
        self.txupd = set()       # keys assigned to through transaction-side instances since the last commit / rollback / close
        self.need_gc = False
        self.lines = ['init %d' % (1 if dc else 0)]
        self.impl = ['ok']
        self.fails = []            # (key or None, what, detail)
        self.pending_lock = False
        self.raw_now = {}
        self.raw_now = self.raw_rows()
        self.view_now = self.tx_view()
        self.ncommit = 0
        self.gets = 0
        self.view_error = None

    def close(self):
        try:
            self.held = {'P': {}, 'T': {}}
            try:
                self.t.rollback()
            except Exception:
                pass
            self.t = None
            self.raw.close()
            self.conn.close()
        finally:
            for suffix in ('', '-journal'):
                try:
                    os.unlink(self.path + suffix)
                except OSError:
                    pass

    # ---------------------------------------------------------------- observers
    def raw_rows(self):
        out = {}
        try:
            for c, cls in enumerate(self.classes):
                for row in self.raw.execute('SELECT id, n, m FROM %s' % cls.sqlmeta.table).fetchall():
                    out[c * 1000 + row[0]] = tuple(row[1:])
        except sqlite3.OperationalError:
            # after a refused COMMIT the writer keeps SQLite's PENDING lock: no new reader gets in until the transaction
            # is committed or rolled back; the committed rows cannot have changed meanwhile
            self.pending_lock = True
            return dict(self.raw_now)
        self.pending_lock = False
        return out

    def tx_view(self):
        """the transaction's own view through its public queryAll; None when it refuses (obsolete)"""
        out = {}
        try:
            for c, cls in enumerate(self.classes):
                for row in self.t.queryAll('SELECT id, n, m FROM %s' % cls.sqlmeta.table):
                    out[c * 1000 + row[0]] = tuple(row[1:])
        except AssertionError:
            return None
        except Exception as e:       # not a refusal: remembered for the oracle
            self.view_error = type(e).__name__
            return None
        return out

    def peek(self, obj):
        return tuple(obj.__dict__.get('_SO_val_%s' % c, MISSING) for c in COLS)

    def side_conn(self, sd):
        return self.conn if sd == 'P' else self.t

    def cacheset(self, sd):
        return self.conn.cache if sd == 'P' else self.t.cache

    def try_get(self, sd, k):
        try:
            return self.cacheset(sd).tryGet(k % 1000, self.classes[k // 1000])
        except Exception:
            return None

    def index_of(self, sd, obj, k):
        for j, r in enumerate(self.refs[sd]):
            if r() is obj:
                return j
        older = self.ref_attached_alive(sd, k)
        self.refs[sd].append(weakref.ref(obj))
        self.keyof[sd].append(k)
        self.att[sd].append(True)
        self.allocs.append((sd, len(self.refs[sd]) - 1, k, older))
        return len(self.refs[sd]) - 1

    def ref_attached_alive(self, sd, k, but=None):
        return [i for i, r in enumerate(self.refs[sd]) if self.keyof[sd][i] == k and self.att[sd][i] and r() is not None
                and i != but]

    def detach_key(self, sd, k, but=None):
        for i in range(len(self.att[sd])):
            if self.keyof[sd][i] == k and i != but:
                self.att[sd][i] = False

    def hold(self, sd, obj, k):
        j = self.index_of(sd, obj, k)
        self.held[sd][j] = obj
        return j

    def live(self, sd):
        return [j for j in sorted(self.held[sd]) if j not in self.destroyed[sd]]

    def alive(self, sd):
        """held or merely still referenced by the cache"""
        return [j for j, r in enumerate(self.refs[sd]) if r() is not None and j not in self.destroyed[sd]]

    # ---------------------------------------------------------------- cull observation
    def cull_state(self):
        st = {}
        for sd in 'PT':
            for c, cls in enumerate(self.classes):
                cf = self.cacheset(sd).caches.get(cls.__name__)
                if cf is not None and self.dc:
                    st[(sd, c)] = (list(cf.cache), cf.cullCount, cf)
        return st

    def cull_lines(self, before):
        """model steps for the culls the real code ran since `before`"""
        out = []
        for (sd, c), (keys, count, cf) in sorted(before.items(), key=lambda kv: kv[0]):
            if cf.cullCount >= count and not self.explicit_cull == (sd, c):
                continue
            moved = [k for k in keys if k not in cf.cache]
            out.append('purge %s %d' % (sd, c))
            for k in moved:
                out.append('weaken %s %d' % (sd, c * 1000 + k))
                self.weakened[sd].add(c * 1000 + k)
            self.need_gc = True
        return out

    # ---------------------------------------------------------------- one operation
    def do(self, op):
        kind = op[0]
        sd = op[1] if kind not in TX_KINDS else 'T'
        if self.need_gc:
            gc.collect()
            self.need_gc = False
        # facts the oracle needs from before the step
        raw_before = self.raw_now
        view_before = self.view_now
        pre = {}
        if kind in ('commit', 'commit_blocked') and not self.obsolete:
            for j in self.alive('P'):
                k = self.keyof['P'][j]
                pre[j] = (self.att['P'][j],
                          bool(self.ref_attached_alive('T', k)) or k in self.txdel or k in self.txupd,
                          any(self.keyof['T'][i] == k and not self.att['T'][i] for i in range(len(self.refs['T']))),
                          (not self.dc) or k in self.weakened['T'])
        if kind == 'rollback' and not self.obsolete:
            for j in self.alive('T'):
                pre[j] = self.att['T'][j]
        was_obsolete = self.obsolete
        cs = self.cull_state()
        self.explicit_cull = None
        self.allocs = []
        line, ans, cached_answer = self.execute(op)
        if kind == 'commit_blocked':
            # a COMMIT attempted while another connection holds a read lock: refused by the engine (then nothing may have
            # happened and the transaction stays pending) or, with nothing to write, an ordinary commit
            kind = 'commit' if ans == 'ok' else 'commit_refused'
        self.reference_update(op, kind, sd, ans, was_obsolete)
        extra = self.cull_lines(cs)
        for l in extra:
            self.lines.append(l)
            self.impl.append('ok')
        if line is not None:
            self.lines.append(line)
            self.impl.append(ans)
        if self.need_gc:
            gc.collect()
            self.need_gc = False
        self.raw_now = self.raw_rows()
        self.view_now = self.tx_view()
        self.lines.append('dump')
        self.impl.append(self.dump())
        self.oracle(op, kind, sd, ans, cached_answer, raw_before, view_before, pre, was_obsolete)

    def reference_update(self, op, kind, sd, ans, was_obsolete):
        """cache membership as the unchanged code keeps it, from the API calls and their answers only"""
        for (s2, j, k, older) in self.allocs:
            if kind in ('get', 'select') and older:
                self.fail(None, '%s %s built a new instance of row %d although instance %s of it is alive and was never expired '
                          'or evicted' % (s2, kind, k, older), 'cache-lost-instance')
            self.detach_key(s2, k, but=j)          # `created`/`put` overwrite the entry of the id
        if kind in ('expire', 'destroy') and ans == 'ok':
            self.detach_key(sd, self.keyof[sd][op[2]])
        if kind == 'commit' and ans == 'ok' and not was_obsolete:
            for j, r in enumerate(self.refs['P']):
                k = self.keyof['P'][j]
                if self.att['P'][j] and r() is not None and (self.ref_attached_alive('T', k) or k in self.txdel or k in self.txupd):
                    self.att['P'][j] = False       # expire() evicts
        if kind == 'rollback' and ans == 'ok' and not was_obsolete:
            for j, r in enumerate(self.refs['T']):
                if self.att['T'][j] and r() is not None:
                    self.att['T'][j] = False

    def dump(self):
        def insts(sd):
            out = ''
            for j in self.live(sd):
                vals = self.peek(self.held[sd][j])
                out += ' %d:%d:%s' % (j, self.keyof[sd][j], ','.join('-' if v is MISSING else str(v) for v in vals))
            return out
        return 'db%s | view%s | P%s | T%s' % (fmt_rows(self.raw_now),
                                               ' obsolete' if self.view_now is None else fmt_rows(self.view_now),
                                               insts('P'), insts('T'))

    def execute(self, op):
        """returns (model line or None, canonical answer, answered-from-cache flag)"""
        kind = op[0]
        conn_kw = {}
        line = {'commit': 'commit %d' % (1 if len(op) > 1 and op[1] else 0), 'rollback': 'rollback', 'begin': 'begin'}.get(kind)
        try:
            if kind == 'create':
                _, sd, k, v0, v1 = op
                line = 'create %s %d %d %d' % (sd, k, v0, v1)
                if sd == 'T':
                    conn_kw['connection'] = self.t
                obj = self.classes[k // 1000](id=k % 1000, n=v0, m=v1, **conn_kw)
                return line, 'inst %d' % self.hold(sd, obj, k), False
            if kind == 'get':
                _, sd, k, bound = op
                line = 'get %s %d %d' % (sd, k, 1 if bound else 0)
                self.gets += 1
                cls = self.classes[k // 1000]
                before = self.try_get(sd, k)
                if bound:
                    obj = getattr(self.t, cls.__name__).get(k % 1000)
                elif sd == 'T':
                    obj = cls.get(k % 1000, connection=self.t)
                else:
                    obj = cls.get(k % 1000)
                return line, 'inst %d' % self.hold(sd, obj, k), obj is before
            if kind == 'select':
                _, sd, c = op
                line = 'select %s %d' % (sd, c)
                cls = self.classes[c]
                if sd == 'T':
                    objs = list(cls.select(orderBy='id', connection=self.t))
                else:
                    objs = list(cls.select(orderBy='id'))
                self.gets += len(objs)
                out = 'rows'
                for obj in objs:
                    k = c * 1000 + obj.id
                    out += ' %d:%d' % (self.hold(sd, obj, k), k)
                return line, out, False
            if kind == 'cull':
                _, sd, c = op
                cf = self.cacheset(sd).caches.get(self.classes[c].__name__)
                if cf is None or not self.dc:
                    return None, 'ok', False
                self.explicit_cull = (sd, c)
                cf.cull()
                self.need_gc = True
                return None, 'ok', False
            if kind == 'commit':
                line = 'commit %d' % (1 if op[1] else 0)
                self.t.commit(close=bool(op[1]))
                return line, 'ok', False
            if kind == 'commit_blocked':
                line = None                          # a refused commit is no step of the model: nothing may change
                self.raw.execute('BEGIN')
                try:
                    self.raw.execute('SELECT count(*) FROM %s' % self.classes[0].sqlmeta.table).fetchall()
                    self.t.commit(close=bool(op[1]))
                finally:
                    self.raw.execute('ROLLBACK')
                return 'commit %d' % (1 if op[1] else 0), 'ok', False
            if kind == 'rollback':
                self.t.rollback()
                return 'rollback', 'ok', False
            if kind == 'begin':
                self.t.begin()
                return 'begin', 'ok', False
            # instance operations
            sd, j = op[1], op[2]
            if j >= len(self.refs[sd]):
                return None, 'bad', False          # only after shrinking: the instance no longer exists
            obj = self.held[sd].get(j)
            if obj is None:
                return None, 'bad', False          # dropped instances are not used again
            if kind == 'read':
                c = op[3]
                line = 'read %s %d %d' % (sd, j, c)
                cached = self.peek(obj)[c] is not MISSING
                return line, 'val %d' % getattr(obj, COLS[c]), cached
            if kind == 'set':
                _, _, _, c, v = op
                line = 'set %s %d %d %d' % (sd, j, c, v)
                setattr(obj, COLS[c], v)
                return line, 'ok', False
            if kind == 'destroy':
                line = 'destroy %s %d' % (sd, j)
                obj.destroySelf()
                self.destroyed[sd].add(j)
                return line, 'ok', False
            if kind == 'expire':
                line = 'expire %s %d' % (sd, j)
                obj.expire()
                return line, 'ok', False
            if kind == 'drop':
                line = 'drop %s %d' % (sd, j)
                del self.held[sd][j]
                obj = None
                self.need_gc = True
                return line, 'ok', False
        except Exception as e:           # the real code's exceptions are observable outcomes
            return line, exc(e), False
        return None, 'bad', False

    # ---------------------------------------------------------------- the property's oracle
    def fail(self, key, what, detail=None):
        self.fails.append((key, what, detail))

    def oracle(self, op, kind, sd, ans, cached_answer, raw_before, view_before, pre, was_obsolete):
        raw, view = self.raw_now, self.view_now
        # --- bookkeeping of the harness (not of the model): transaction state as the API calls define it
        if kind == 'commit' and ans == 'ok' and not was_obsolete:
            self.ncommit += 1
            self.txupd = set()
            if op[1]:
                self.obsolete = True
                self.txdel = set()
        elif kind == 'rollback' and ans == 'ok' and not was_obsolete:
            self.ncommit += 1
            self.obsolete = True
            self.txdel = set()
            self.txupd = set()
        elif kind == 'begin' and ans == 'ok':
            self.obsolete = False
        if kind == 'destroy' and sd == 'T':
            self.txdel.add(self.keyof['T'][op[2]])
        if kind == 'set' and sd == 'T' and ans in ('ok', 'Assert'):
            self.txupd.add(self.keyof['T'][op[2]])     # Transaction._SO_update notes the row before anything else
        if kind == 'commit_refused':
            if ans != 'Locked':
                self.fail(None, 'a commit refused by the engine answered %s' % ans, 'commit-refused-answer')
            if raw != raw_before or view != view_before:
                self.fail(None, 'a refused commit changed the rows: committed %s -> %s, transaction view %s -> %s'
                          % (fmt_rows(raw_before), fmt_rows(raw), fmt_rows(view_before or {}), fmt_rows(view or {})), 'commit-refused-effect')
        # --- a finished transaction refuses use; an active one answers
        if self.view_error is not None:
            self.fail(None, 'a query through the transaction fails with %s instead of being answered or refused (AssertionError)'
                      % self.view_error, 'refusal-kind')
            self.view_error = None
        if (view is None) != self.obsolete:
            self.fail(None, 'transaction is %s but its queryAll %s' % (
                'finished' if self.obsolete else 'active', 'answers' if view is not None else 'refuses'), 'obsolete-flag')
        if was_obsolete and sd == 'T':
            if kind in ('create', 'set', 'destroy', 'select') and ans != 'Assert':
                self.fail(None, '%s on a finished transaction answered %s' % (kind, ans), 'obsolete-use')
            if kind in ('get', 'read') and ans != 'Assert' and not cached_answer:
                self.fail(None, '%s on a finished transaction reached the database: %s' % (kind, ans), 'obsolete-use')
            if kind == 'get' and op[3] and ans != 'Assert':
                self.fail(None, 'bound class access on a finished transaction answered %s' % ans, 'obsolete-use')
            if kind == 'begin' and ans != 'ok':
                self.fail(None, 'begin() on a finished transaction answered %s' % ans, 'begin')
        if kind == 'begin' and not was_obsolete and ans != 'Assert':
            self.fail(None, 'begin() on an active transaction answered %s' % ans, 'begin')
        # --- isolation: nothing a transaction does short of commit changes the committed rows
        if sd == 'T' and not (kind == 'commit' and not was_obsolete) and raw != raw_before:
            self.fail(None, 'committed rows changed by transaction-side %s: %s -> %s' % (kind, fmt_rows(raw_before), fmt_rows(raw)),
                      'isolation')
        # --- commit applies exactly the transaction's view; rollback / begin leave the view equal to the committed rows
        if kind == 'commit' and not was_obsolete and ans == 'ok':
            if raw != view_before:
                self.fail(None, 'after commit the committed rows are %s, the transaction saw %s' % (fmt_rows(raw), fmt_rows(view_before)),
                          'commit-applies-view')
            if view is not None and view != raw:
                self.fail(None, 'after commit the transaction sees %s, committed %s' % (fmt_rows(view), fmt_rows(raw)), 'commit-view')
        if kind == 'begin' and ans == 'ok' and view != raw:
            self.fail(None, 'after rollback/close + begin the transaction sees %s, committed %s' % (fmt_rows(view), fmt_rows(raw)),
                      'begin-view')
        # --- parent observations equal the committed rows
        if sd == 'P' and kind == 'get':
            k = op[2]
            if (ans == 'NotFound') != (k not in raw_before) and not cached_answer:
                self.fail(None, 'parent get(%d) answered %s, committed rows %s' % (k, ans, fmt_rows(raw_before)), 'parent-get')
        if kind == 'select' and ans.startswith('rows'):
            ref = raw_before if sd == 'P' else view_before
            want = sorted(k for k in (ref or {}) if k // 1000 == op[2])
            got = [int(x.split(':')[1]) for x in ans.split()[1:]]
            if got != want:
                self.fail(None, '%s select of class %d returned keys %s, expected %s' % (sd, op[2], got, want), 'select')
        # --- taints: staleness that is not the transaction machinery's (two instances of one row on one side; the
        #     parent wrote a row the transaction holds; assignment to an instance whose row does not exist)
        if kind in ('set', 'destroy') and ans in ('ok',):
            j = op[2]
            k = self.keyof[sd][j]
            ref_before = raw_before if sd == 'P' else (view_before if view_before is not None else raw_before)
            if kind == 'set' and k not in ref_before:
                self.taint[sd].add(j)
            for j2 in self.alive(sd):
                if j2 != j and self.keyof[sd][j2] == k:
                    self.taint[sd].add(j2)
            if sd == 'P':
                for j2 in self.alive('T'):
                    if self.keyof['T'][j2] == k:
                        self.taint['T'].add(j2)
        if kind == 'create' and ans.startswith('inst'):
            k = op[2]
            me = int(ans.split()[1])
            for s2 in ('P', 'T') if sd == 'P' else ('T',):
                for j2 in self.alive(s2):
                    if self.keyof[s2][j2] == k and not (s2 == sd and j2 == me):
                        self.taint[s2].add(j2)
        # --- every cached value of every held instance: parent side = committed rows, transaction side = its own view
        for s2 in 'PT':
            ref = raw if (s2 == 'P' or view is None) else view
            for j in self.alive(s2):
                inst = self.refs[s2][j]()
                if inst is None:
                    continue
                vals = self.peek(inst)
                del inst
                if all(v is MISSING for v in vals):
                    self.taint[s2].discard(j)
                    self.stale[s2].discard(j)
                    continue
                if j in self.taint[s2]:
                    continue
                k = self.keyof[s2][j]
                row = ref.get(k)
                ok = row is not None and all(v is MISSING or v == row[c] for c, v in enumerate(vals))
                if ok:
                    self.stale[s2].discard(j)
                    continue
                if j in self.stale[s2]:
                    continue
                self.stale[s2].add(j)
                shown = ','.join('-' if v is MISSING else str(v) for v in vals)
                what = '%s-side instance %d of row %d shows %s after %s, the %s holds %s' % (
                    'parent' if s2 == 'P' else 'transaction', j, k, shown, kind,
                    'committed database' if s2 == 'P' or view is None else 'transaction view', row)
                key = None
                if s2 == 'P' and kind == 'commit' and j in pre:
                    attached, reached, tx_detached, cull_possible = pre[j]
                    if not reached:
                        if tx_detached:
                            key = K_TXDET
                        elif cull_possible:
                            key = K_CULLED
                    elif not attached:
                        key = K_PDET
                elif s2 == 'T' and kind == 'rollback' and j in pre:
                    if not pre[j]:
                        key = K_RBDET
                self.fail(key, what, 'stale-%s-after-%s' % (s2, kind))
        # --- explicit reads
        if kind == 'read' and ans.startswith(('val', 'NotFound')):
            j, c = op[2], op[3]
            if j not in self.taint[sd] and j not in self.stale[sd] and j not in self.destroyed[sd] \
                    and not (sd == 'T' and was_obsolete):
                ref = raw_before if sd == 'P' else view_before
                row = ref.get(self.keyof[sd][j])
                want = 'NotFound' if row is None else 'val %d' % row[c]
                if ans != want:
                    self.fail(None, '%s read of instance %d column %d answered %s, expected %s' % (sd, j, c, ans, want), 'read')


# -------------------------------------------------------------------- generator
def gen_history(rng, length, dc):
    """ops are generated against the real run's own bookkeeping (which instances exist / are held)"""
    w = World(dc)
    ops = []
    try:
        for _ in range(length):
            if w.gets > 85:
                break
            op = gen_op(rng, w)
            ops.append(op)
            w.do(op)
        if w.pending_lock:
            ops.append(('commit', 0))
            w.do(('commit', 0))
        for op in sweep_ops(w):
            ops.append(op)
            w.do(op)
        return ops, w.lines, w.impl, w.fails
    finally:
        w.close()


def sweep_ops(w):
    out = []
    for sd in 'PT':
        for j in w.live(sd):
            for c in range(NCOLS):
                out.append(('read', sd, j, c))
    return out


def gen_op(rng, w):
    r = rng.random()
    tx_dirty = w.view_now is not None and w.view_now != w.raw_now
    sd = 'T' if rng.random() < 0.55 else 'P'
    keys = [c * 1000 + i for c in range(NCLS) for i in range(1, 5)]
    ref = w.raw_now if sd == 'P' or w.view_now is None else w.view_now
    existing = sorted(ref)
    live = w.live(sd)
    if w.pending_lock:
        return ('commit', 0) if rng.random() < 0.7 else ('rollback',)
    if w.obsolete and rng.random() < 0.45:
        return ('begin',)
    if r < 0.13 or not ref:
        if sd == 'P' and tx_dirty and rng.random() < 0.8:
            sd = 'T'
        k = rng.choice(keys)
        if k in ref and rng.random() < 0.8:
            free = [x for x in keys if x not in ref]
            if free:
                k = rng.choice(free)
        return ('create', sd, k, rng.randint(0, 9), rng.randint(0, 9))
    if r < 0.30:
        k = rng.choice(existing) if existing and rng.random() < 0.85 else rng.choice(keys)
        bound = sd == 'T' and w.obsolete and rng.random() < 0.4
        return ('get', sd, k, bound)
    if r < 0.45 and live:
        return ('read', sd, rng.choice(live), rng.randrange(NCOLS))
    if r < 0.63 and live:
        if sd == 'P' and tx_dirty and rng.random() < 0.85:
            sd = 'T'
            live = w.live('T') or live
            if not w.live('T'):
                return ('get', 'T', rng.choice(sorted(w.view_now)) if w.view_now else rng.choice(keys), False)
        return ('set', sd, rng.choice(live), rng.randrange(NCOLS), rng.randint(10, 99))
    if r < 0.68 and live:
        if sd == 'P' and tx_dirty:
            sd = 'T'
            live = w.live('T')
            if not live:
                return ('select', 'T', rng.randrange(NCLS))
        return ('destroy', sd, rng.choice(live))
    if r < 0.71 and live:
        return ('expire', sd, rng.choice(live))
    if r < 0.78:
        return ('select', sd, rng.randrange(NCLS))
    if r < 0.83 and w.held[sd]:
        return ('drop', sd, rng.choice(sorted(w.held[sd])))
    if r < 0.87:
        return ('cull', sd, rng.randrange(NCLS))
    if r < 0.95:
        if tx_dirty and rng.random() < 0.25:
            return ('commit_blocked', 1 if rng.random() < 0.25 else 0)
        return ('commit', 1 if rng.random() < 0.25 else 0)
    if r < 0.99:
        return ('rollback',)
    return ('begin',)


def run_ops(dc, ops):
    w = World(dc)
    try:
        for op in ops:
            w.do(tuple(op))
        return w.lines, w.impl, w.fails
    finally:
        w.close()


# -------------------------------------------------------------------- corpus: the known findings' witnesses first
def bulk_history(n):
    """(a) as it happens in practice: n creates in the transaction, none of the instances kept"""
    ops = [('create', 'P', 1, 1, 0), ('get', 'T', 1, False), ('set', 'T', 0, 0, 2), ('drop', 'T', 0)]
    j = 1
    for i in range(n):
        ops.append(('create', 'T', 2 + i, i % 10, 0))
        ops.append(('drop', 'T', j))
        j += 1
    ops += [('commit', 0), ('read', 'P', 0, 0)]
    return ops


CORPUS = [
    # (name, doCache, ops, expected known key or None)
    ('culled (explicit cull + drop)', True,
     [('create', 'P', 1, 1, 0), ('get', 'T', 1, False), ('set', 'T', 0, 0, 2), ('cull', 'T', 0), ('drop', 'T', 0),
      ('commit', 0), ('read', 'P', 0, 0)], None),
    ('culled (cache=False, tx instance dropped)', False,
     [('create', 'P', 1, 1, 0), ('get', 'T', 1, False), ('set', 'T', 0, 0, 2), ('drop', 'T', 0),
      ('commit', 0), ('read', 'P', 0, 0)], None),
    ('culled (260 creates in the transaction)', True, bulk_history(260), None),
    ('tx instance detached by rollback', True,
     [('create', 'P', 1, 1, 0), ('get', 'T', 1, False), ('rollback',), ('begin',), ('set', 'T', 0, 0, 3),
      ('commit', 0), ('read', 'P', 0, 0)], None),
    ('parent instance detached by the first commit', True,
     [('create', 'P', 1, 1, 0), ('get', 'T', 1, False), ('set', 'T', 0, 0, 2), ('commit', 0), ('read', 'P', 0, 0),
      ('set', 'T', 0, 0, 3), ('commit', 0), ('read', 'P', 0, 0)], K_PDET),
    ('tx instance detached: second rollback does not reach it', True,
     [('create', 'P', 1, 1, 0), ('get', 'T', 1, False), ('rollback',), ('begin',), ('read', 'T', 0, 0),
      ('set', 'T', 0, 0, 7), ('rollback',), ('begin',), ('read', 'T', 0, 0)], K_RBDET),
    ('a dead weakref entry of the same id does not hide the new instance from rollback (tryGet falls through)', True,
     [('create', 'P', 1, 1, 0), ('get', 'T', 1, False), ('cull', 'T', 0), ('drop', 'T', 0), ('destroy', 'P', 0),
      ('create', 'T', 1, 5, 5), ('rollback',), ('begin',), ('read', 'T', 1, 0)], None),
    ('commit refused once by the engine (a reader holds its lock), then repeated: nothing is forgotten', True,
     [('create', 'P', 1, 1, 0), ('create', 'P', 2, 2, 0), ('get', 'T', 1, False), ('get', 'T', 2, False), ('destroy', 'T', 0),
      ('set', 'T', 1, 0, 9), ('commit_blocked', 0), ('read', 'P', 0, 0), ('commit', 0), ('read', 'P', 0, 0), ('read', 'P', 1, 0),
      ('get', 'P', 1, False)], None),
    ('deleted in tx, commit -> NotFound on parent', True,
     [('create', 'P', 1, 1, 0), ('create', 'P', 1001, 4, 4), ('get', 'T', 1, False), ('destroy', 'T', 0), ('read', 'P', 0, 0),
      ('get', 'P', 1, False), ('commit', 0), ('read', 'P', 0, 0), ('get', 'P', 1, False), ('select', 'P', 0), ('select', 'T', 0)], None),
    ('created in tx, rollback, begin', True,
     [('create', 'T', 2, 5, 5), ('get', 'P', 2, False), ('select', 'P', 0), ('rollback',), ('read', 'T', 0, 0), ('begin',),
      ('read', 'T', 0, 1), ('get', 'T', 2, False), ('create', 'P', 2, 6, 6), ('read', 'T', 0, 0)], None),
    ('commit(close): every use refused until begin', True,
     [('create', 'P', 1, 1, 0), ('get', 'T', 1, False), ('set', 'T', 0, 1, 8), ('commit', 1), ('get', 'T', 1, False),
      ('get', 'T', 1, True), ('get', 'T', 2, False), ('read', 'T', 0, 0), ('set', 'T', 0, 0, 9), ('create', 'T', 3, 1, 1),
      ('select', 'T', 0), ('destroy', 'T', 0), ('commit', 0), ('rollback',), ('expire', 'T', 0), ('read', 'T', 0, 0),
      ('begin',), ('begin',), ('read', 'T', 0, 0), ('commit', 0), ('read', 'P', 0, 1)], None),
    ('locked parent writes, failed tx insert keeps the lock', True,
     [('create', 'P', 1, 1, 0), ('get', 'T', 1, False), ('create', 'T', 1, 7, 7), ('set', 'P', 0, 0, 5), ('create', 'P', 2, 2, 2),
      ('rollback',), ('set', 'P', 0, 0, 5), ('begin',), ('select', 'T', 0), ('set', 'P', 0, 1, 6), ('read', 'T', 1, 1)], None),
    ('select loads rows into the tx cache, commit expires all their parent instances', True,
     [('create', 'P', 1, 1, 0), ('create', 'P', 2, 2, 0), ('select', 'T', 0), ('set', 'T', 1, 0, 20), ('commit', 0),
      ('read', 'P', 0, 0), ('read', 'P', 1, 0)], None),
]


# -------------------------------------------------------------------- cascading deletes through a transaction
# (oracle only: the Lean model has no foreign keys; isolation / commit / rollback are checked over ALL tables)
class CascadeWorld:
    """owner rows referenced by dependent rows through a cascade=True and a cascade='null' foreign key; the same
    raw-observer oracle as above, over both tables"""

    def setup(self, e):
        if 'own' not in e:
            from sqlobject import SQLObject, IntCol, ForeignKey
            e['own'] = type('C07Own', (SQLObject,), {'n': IntCol()})
            e['dep'] = type('C07Dep', (SQLObject,), {'own': ForeignKey('C07Own', cascade=True),
                                                     'alt': ForeignKey('C07Own', cascade='null', default=None),
                                                     'n': IntCol()})
        self.own, self.dep = e['own'], e['dep']
        self.classes = [self.own, self.dep]

    def make(self, kind, op, kw):
        if kind == 'ocreate':
            return self.own(id=op[2], n=op[3], **kw)
        if kind == 'dcreate':
            return self.dep(id=op[2], ownID=op[3], altID=op[4], n=op[5], **kw)
        return None

    def ids_of(self, ref, i):
        return sorted(ref[i])

    def ns_of(self, ref, i):
        return [ref[0][k] for k in ref[0]] if i == 0 else [ref[1][k][2] for k in ref[1]]

    def __init__(self, dc):
        e = env()
        self.setup(e)
        e['count'][0] += 1
        self.path = os.path.join(e['dir'], 'c%d.db' % e['count'][0])
        self.conn = sqlo.file_conn(self.path, timeout=0, cache=dc)
        for c in self.classes:
            c._connection = self.conn
        for c in self.classes:
            c.createTable()
        self.raw = sqlite3.connect(self.path, isolation_level=None, timeout=0)
        self.t = self.conn.transaction()
        self.h = {'P': [], 'T': []}
        self.fails = []
        self.obsolete = False
        self.raw_now = self.tables(self.raw.execute)
        self.view_now = self.tx_tables()
        self.answers = []

    def close(self):
        try:
            self.h = {'P': [], 'T': []}
            try:
                self.t.rollback()
            except Exception:
                pass
            self.t = None
            self.raw.close()
            self.conn.close()
        finally:
            for suffix in ('', '-journal'):
                try:
                    os.unlink(self.path + suffix)
                except OSError:
                    pass

    def tables(self, q):
        def rows(sql):
            r = q(sql)
            return r.fetchall() if hasattr(r, 'fetchall') else r
        return (dict((r[0], r[1]) for r in rows('SELECT id, n FROM %s' % self.own.sqlmeta.table)),
                dict((r[0], tuple(r[1:])) for r in rows('SELECT id, own_id, alt_id, n FROM %s' % self.dep.sqlmeta.table)))

    def tx_tables(self):
        try:
            return self.tables(self.t.queryAll)
        except AssertionError:
            return None
        except Exception as e:
            self.fails.append((None, 'a query through the transaction fails with %s' % type(e).__name__, 'refusal-kind'))
            return None

    def do(self, op):
        kind = op[0]
        sd = op[1] if kind not in TX_KINDS else 'T'
        raw_before, view_before, was_obsolete = self.raw_now, self.view_now, self.obsolete
        kw = {'connection': self.t} if sd == 'T' else {}
        observed = None
        try:
            if kind.endswith('create'):
                self.h[sd].append(self.make(kind, op, kw))
            elif kind in ('oget', 'dget'):
                cls = self.classes[0] if kind == 'oget' else self.classes[1]
                self.h[sd].append(cls.get(op[2], **kw))
            elif kind == 'select':
                observed = sorted(o.id for o in self.classes[op[2]].select(**kw))
            elif kind == 'agg':
                sel = self.classes[op[2]].select(**kw)
                observed = (sel.count(), sel.sum('n'), sel.max('n'), self.classes[op[2]].select(self.classes[op[2]].q.n >= 5, **kw).count())
            elif kind in ('destroy', 'set', 'read'):
                if op[2] >= len(self.h[sd]):
                    ans = 'bad'
                    raise LookupError
                obj = self.h[sd][op[2]]
                if kind == 'destroy':
                    obj.destroySelf()
                elif kind == 'set':
                    obj.n = op[3]
                else:
                    obj.n
            elif kind == 'commit':
                self.t.commit(close=bool(op[1]))
            elif kind == 'rollback':
                self.t.rollback()
            elif kind == 'begin':
                self.t.begin()
            ans = 'ok'
        except LookupError:
            ans = 'bad'
        except Exception as e:
            ans = exc(e)
        self.answers.append('%s -> %s' % (' '.join(str(x) for x in op), ans))
        self.raw_now = self.tables(self.raw.execute)
        self.view_now = self.tx_tables()
        raw, view = self.raw_now, self.view_now
        if kind == 'commit' and ans == 'ok' and not was_obsolete and op[1]:
            self.obsolete = True
        elif kind == 'rollback' and ans == 'ok':
            self.obsolete = True
        elif kind == 'begin' and ans == 'ok':
            self.obsolete = False
        if (view is None) != self.obsolete:
            self.fails.append((None, 'transaction state and refusal disagree after %s' % kind, 'obsolete-flag'))
        if sd == 'T' and not (kind == 'commit' and not was_obsolete) and raw != raw_before:
            self.fails.append((None, 'committed rows of some table changed by transaction-side %s (not a commit): %s -> %s'
                               % (kind, raw_before, raw), 'cascade-isolation'))
        # what a select / an aggregate answers: the committed rows for the parent, the transaction's own view for the transaction
        ref = raw_before if (sd == 'P' or view_before is None) else view_before
        if kind == 'select' and ans == 'ok' and observed != self.ids_of(ref, op[2]):
            self.fails.append((None, '%s select of class %d returned ids %s, the %s holds %s' % (
                sd, op[2], observed, 'database' if sd == 'P' else 'transaction view', self.ids_of(ref, op[2])), 'select-ids'))
        if kind == 'agg' and ans == 'ok':
            ns = self.ns_of(ref, op[2])
            want = (len(ns), sum(ns) if ns else None, max(ns) if ns else None, len([x for x in ns if x >= 5]))
            if observed != want:
                self.fails.append((None, '%s count/sum/max/filtered count of class %d answered %s, the %s gives %s' % (
                    sd, op[2], observed, 'database' if sd == 'P' else 'transaction view', want), 'aggregate'))
        if kind.endswith('create') and sd == 'P' and ans == 'ok' and raw == raw_before:
            self.fails.append((None, 'a row created through the parent connection is not in the database', 'parent-write-lost'))
        if kind == 'commit' and not was_obsolete and ans == 'ok' and raw != view_before:
            self.fails.append((None, 'after commit the committed tables are %s, the transaction saw %s' % (raw, view_before),
                               'cascade-commit-applies-view'))
        if kind == 'begin' and ans == 'ok' and view != raw:
            self.fails.append((None, 'after rollback/close + begin the transaction sees %s, committed %s' % (view, raw),
                               'cascade-begin-view'))


def run_cascade(dc, ops):
    w = CascadeWorld(dc)
    try:
        for op in ops:
            w.do(tuple(op))
        return w.answers, w.fails
    finally:
        w.close()


def gen_cascade(rng, length, dc, world=None):
    w = (world or CascadeWorld)(dc)
    ops = []
    try:
        for _ in range(length):
            tx_dirty = w.view_now is not None and w.view_now != w.raw_now
            sd = 'T' if (tx_dirty or rng.random() < 0.6) else 'P'
            ref = w.raw_now if (sd == 'P' or w.view_now is None) else w.view_now
            owners, deps = sorted(ref[0]), sorted(ref[1])
            r = rng.random()
            if w.obsolete and rng.random() < 0.6:
                op = ('begin',)
            elif r < 0.15 or not owners:
                op = ('ocreate', sd, rng.randint(1, 4), rng.randint(0, 9))
            elif r < 0.35:
                op = ('dcreate', sd, rng.randint(1, 5), rng.choice(owners),
                      rng.choice(owners) if rng.random() < 0.6 else None, rng.randint(0, 9))
            elif r < 0.50:
                op = ('oget', sd, rng.choice(owners))
            elif r < 0.58 and deps:
                op = ('dget', sd, rng.choice(deps))
            elif r < 0.76 and w.h[sd]:
                op = ('destroy', sd, rng.randrange(len(w.h[sd])))
            elif r < 0.84 and w.h[sd]:
                op = ('set', sd, rng.randrange(len(w.h[sd])), rng.randint(10, 99))
            elif r < 0.87:
                op = ('select', sd, rng.randrange(2)) if rng.random() < 0.5 else ('agg', sd, rng.randrange(2))
            elif r < 0.92:
                op = ('commit', 1 if rng.random() < 0.2 else 0)
            elif r < 0.97:
                op = ('rollback',)
            else:
                op = ('begin',)
            ops.append(op)
            w.do(op)
        return ops, w.answers, w.fails
    finally:
        w.close()


class InheritWorld(CascadeWorld):
    """an InheritableSQLObject parent class and a child class (two tables); same oracle"""

    def setup(self, e):
        if 'animal' not in e:
            from sqlobject import IntCol
            from sqlobject.inheritance import InheritableSQLObject
            e['animal'] = type('C07Animal', (InheritableSQLObject,), {'n': IntCol()})
            e['dog'] = type('C07Dog', (e['animal'],), {'m': IntCol()})
        self.classes = [e['animal'], e['dog']]

    def make(self, kind, op, kw):
        if kind == 'ocreate':
            return self.classes[0](id=op[2], n=op[3], **kw)
        if kind == 'dcreate':
            return self.classes[1](id=op[2], n=op[5], m=op[5] + 1, **kw)
        return None

    def tables(self, q):
        def rows(sql):
            r = q(sql)
            return r.fetchall() if hasattr(r, 'fetchall') else r
        return (dict((r[0], (r[1], r[2])) for r in rows('SELECT id, n, child_name FROM %s' % self.classes[0].sqlmeta.table)),
                dict((r[0], r[1]) for r in rows('SELECT id, m FROM %s' % self.classes[1].sqlmeta.table)))

    def ns_of(self, ref, i):
        return [ref[0][k][0] for k in ref[0]] if i == 0 else [ref[0][k][0] for k in ref[1] if k in ref[0]]


def run_inherit(dc, ops):
    w = InheritWorld(dc)
    try:
        for op in ops:
            w.do(tuple(op))
        return w.answers, w.fails
    finally:
        w.close()


CASCADE_CORPUS = [
    ('aggregates and selects through the transaction over uncommitted creates / deletes', True,
     [('ocreate', 'P', 1, 3), ('ocreate', 'T', 2, 8), ('dcreate', 'T', 1, 2, None, 6), ('agg', 'T', 0), ('agg', 'T', 1), ('select', 'T', 0),
      ('agg', 'P', 0), ('select', 'P', 1), ('oget', 'T', 1), ('destroy', 'T', 2), ('agg', 'T', 0), ('rollback',), ('begin',), ('agg', 'T', 0)]),
    ('cascade=True and cascade=null dependants of a row deleted through the transaction, then rollback', True,
     [('ocreate', 'P', 1, 1), ('ocreate', 'P', 2, 2), ('dcreate', 'P', 1, 1, None, 5), ('dcreate', 'P', 2, 2, 1, 6),
      ('oget', 'T', 1), ('destroy', 'T', 0), ('rollback',), ('begin',), ('oget', 'T', 1)]),
    ('the same, committed', True,
     [('ocreate', 'P', 1, 1), ('ocreate', 'P', 2, 2), ('dcreate', 'P', 1, 1, None, 5), ('dcreate', 'P', 2, 2, 1, 6),
      ('oget', 'T', 1), ('destroy', 'T', 0), ('oget', 'P', 1), ('dget', 'P', 1), ('commit', 0), ('dget', 'P', 2)]),
    ('cache=False', False,
     [('ocreate', 'P', 1, 1), ('dcreate', 'P', 1, 1, 1, 5), ('oget', 'T', 1), ('destroy', 'T', 0), ('commit', 1), ('begin',)]),
]


INHERIT_CORPUS = [
    ('select of the inheritable parent class through the transaction, then work on the parent connection', True,
     [('ocreate', 'P', 1, 1), ('dcreate', 'P', 2, 0, None, 4), ('dcreate', 'T', 3, 0, None, 7), ('select', 'T', 0), ('select', 'T', 1),
      ('select', 'P', 0), ('agg', 'P', 0), ('ocreate', 'P', 4, 9), ('select', 'T', 0), ('rollback',), ('select', 'P', 0), ('begin',),
      ('select', 'T', 0), ('agg', 'T', 1)]),
    ('aggregates through the transaction see its uncommitted work', True,
     [('ocreate', 'P', 1, 3), ('ocreate', 'P', 2, 7), ('oget', 'T', 1), ('set', 'T', 0, 40), ('dcreate', 'T', 3, 0, None, 9), ('agg', 'T', 0),
      ('agg', 'T', 1), ('agg', 'P', 0), ('commit', 0), ('agg', 'P', 0)]),
]


def shrink_generic(runner, dc, ops, detail, budget=120):
    def bad(o):
        try:
            fails = runner(dc, o)[-1]
        except Exception:
            return False
        return any(k is None and d == detail for k, _, d in fails)
    ops = list(ops)
    changed = True
    while changed and budget > 0:
        changed = False
        i = len(ops) - 1
        while i >= 0 and budget > 0:
            cand = ops[:i] + ops[i + 1:]
            budget -= 1
            if bad(cand):
                ops = cand
                changed = True
            i -= 1
    return ops


def report_cascade(ctx, dc, ops, fails, runner=None, tag='cascade'):
    runner = runner or run_cascade
    for key, what, detail in fails[:1]:
        _unknown[0] += 1
        small = shrink_generic(runner, dc, ops, detail) if _unknown[0] <= 3 else ops
        k2 = 'C07:%s%s:%s' % ('inherit-' if tag == 'inherit' else '', detail,
                              '-'.join(o[0] + (o[1] if o[0] not in TX_KINDS else '') for o in small))
        ctx.oracle_fail(k2, what, {tag: True, 'dc': dc, 'ops': [list(o) for o in small]})


# -------------------------------------------------------------------- lazyUpdate classes: pending (unsynced) assignments
class LazyWorld:
    """a lazyUpdate class under a transaction: assignments stay pending until syncUpdate(); correspondence with
    Model/TxLazy.lean (driver lines `L ...`) and an oracle of its own (raw observer, the transaction's queryAll, and the
    assignments the harness itself issued)"""

    def __init__(self):
        e = env()
        if 'lazy' not in e:
            from sqlobject import SQLObject, IntCol

            class meta:
                lazyUpdate = True
            e['lazy'] = type('C07Lz', (SQLObject,), {'n': IntCol(), 'm': IntCol(), 'sqlmeta': meta})
        e['count'][0] += 1
        self.cls = e['lazy']
        self.path = os.path.join(e['dir'], 'l%d.db' % e['count'][0])
        self.conn = sqlo.file_conn(self.path, timeout=0)
        self.cls._connection = self.conn
        self.cls.createTable()
        self.table = self.cls.sqlmeta.table
        self.raw = sqlite3.connect(self.path, isolation_level=None, timeout=0)
        self.t = self.conn.transaction()
        self.objs = {'P': [], 'T': []}
        self.keyof = {'P': [], 'T': []}
        self.att = {'P': [], 'T': []}           # reference: the unchanged code's cache would hand out this instance
        self.pend = {'P': [], 'T': []}          # reference: assignments issued and not yet synced / dropped
        self.first_read = {'P': {}, 'T': {}}    # instance -> 'rollback' | 'commit': its next read must show the view
        self.txupd = set()                      # rows synced through transaction instances since the last commit / rollback
        self.obsolete = False
        self.fails = []
        self.lines = ['L init']
        self.impl = ['ok']
        self.raw_now = self.rows(self.raw.execute)
        self.view_now = self.tx_rows()

    def close(self):
        try:
            self.objs = {'P': [], 'T': []}
            try:
                self.t.rollback()
            except Exception:
                pass
            self.t = None
            self.raw.close()
            self.conn.close()
        finally:
            for suffix in ('', '-journal'):
                try:
                    os.unlink(self.path + suffix)
                except OSError:
                    pass

    def rows(self, q):
        r = q('SELECT id, n, m FROM %s' % self.table)
        r = r.fetchall() if hasattr(r, 'fetchall') else r
        return dict((x[0], tuple(x[1:])) for x in r)

    def tx_rows(self):
        try:
            return self.rows(self.t.queryAll)
        except AssertionError:
            return None
        except Exception as e:
            self.fails.append((None, 'a query through the transaction fails with %s' % type(e).__name__, 'lazy-refusal-kind'))
            return None

    def index_of(self, sd, obj, k):
        for j, o in enumerate(self.objs[sd]):
            if o is obj:
                return j
        self.objs[sd].append(obj)
        self.keyof[sd].append(k)
        self.att[sd].append(True)
        self.pend[sd].append({})
        return len(self.objs[sd]) - 1

    def do(self, op):
        kind = op[0]
        sd = op[1] if kind in ('get', 'assign', 'sync', 'read', 'expire') else ('P' if kind == 'insert' else 'T')
        raw_before, view_before, was_obsolete = self.raw_now, self.view_now, self.obsolete
        kw = {'connection': self.t} if sd == 'T' else {}
        line = 'L ' + ' '.join(str(x) for x in op)
        j = op[2] if kind in ('assign', 'sync', 'read', 'expire') else None
        if j is not None and j >= len(self.objs[sd]):
            return                                   # only after shrinking
        try:
            if kind == 'insert':
                self.raw.execute('INSERT INTO %s (id, n, m) VALUES (%d, %d, %d)' % (self.table, op[1], op[2], op[3]))
                ans = 'ok'
            elif kind == 'get':
                ans = 'inst %d' % self.index_of(sd, self.cls.get(op[2], **kw), op[2])
            elif kind == 'assign':
                setattr(self.objs[sd][j], COLS[op[3]], op[4])
                ans = 'ok'
            elif kind == 'sync':
                self.objs[sd][j].syncUpdate()
                ans = 'ok'
            elif kind == 'read':
                ans = 'val %d' % getattr(self.objs[sd][j], COLS[op[3]])
            elif kind == 'expire':
                self.objs[sd][j].expire()
                ans = 'ok'
            elif kind == 'commit':
                self.t.commit(close=bool(op[1]))
                ans = 'ok'
            elif kind == 'rollback':
                self.t.rollback()
                ans = 'ok'
            elif kind == 'begin':
                self.t.begin()
                ans = 'ok'
        except sqlite3.IntegrityError:
            ans = 'Duplicate'
        except sqlite3.OperationalError:
            ans = 'Locked'
        except Exception as e:
            ans = exc(e)
        self.lines.append(line)
        self.impl.append(ans)
        self.raw_now = self.rows(self.raw.execute)
        self.view_now = self.tx_rows()
        self.lines.append('L dump')
        self.impl.append('db%s | view%s' % (fmt_rows(self.raw_now), ' obsolete' if self.view_now is None else fmt_rows(self.view_now)))
        self.oracle(op, kind, sd, j, ans, raw_before, view_before, was_obsolete)

    def oracle(self, op, kind, sd, j, ans, raw_before, view_before, was_obsolete):
        raw, view = self.raw_now, self.view_now
        if kind == 'commit' and ans == 'ok' and not was_obsolete and op[1]:
            self.obsolete = True
        elif kind == 'rollback' and ans == 'ok':
            self.obsolete = True
        elif kind == 'begin' and ans == 'ok':
            self.obsolete = False
        if (view is None) != self.obsolete:
            self.fails.append((None, 'transaction state and refusal disagree after %s' % kind, 'lazy-obsolete-flag'))
        # isolation: nothing on the transaction side short of commit — lazy assignments and syncUpdate included — changes
        # the committed rows
        if sd == 'T' and not (kind == 'commit' and not was_obsolete) and raw != raw_before:
            self.fails.append((None, 'committed rows changed by transaction-side %s: %s -> %s' % (kind, fmt_rows(raw_before), fmt_rows(raw)),
                               'lazy-isolation'))
        if kind == 'commit' and not was_obsolete and ans == 'ok' and raw != view_before:
            self.fails.append((None, 'after commit the committed rows are %s, the transaction saw %s' % (fmt_rows(raw), fmt_rows(view_before)),
                               'lazy-commit-applies-view'))
        if kind == 'begin' and ans == 'ok' and view != raw:
            self.fails.append((None, 'after rollback/close + begin the transaction sees %s, committed %s' % (fmt_rows(view), fmt_rows(raw)),
                               'lazy-begin-view'))
        # a lazy assignment sends nothing
        if kind == 'assign' and (raw != raw_before or view != view_before):
            self.fails.append((None, 'a lazy assignment changed the database', 'lazy-assign-writes'))
        # bookkeeping of what the harness itself did (reference of the unchanged code's cache membership, as in World)
        if kind == 'assign' and ans == 'ok':
            self.pend[sd][j][op[3]] = op[4]
            self.first_read[sd].pop(j, None)
        if kind == 'expire' and ans == 'ok':
            self.pend[sd][j] = {}
            for i in range(len(self.att[sd])):
                if self.keyof[sd][i] == self.keyof[sd][j]:
                    self.att[sd][i] = False
        if kind == 'sync' and sd == 'T' and ans in ('ok', 'Assert') and self.pend[sd][j]:
            self.txupd.add(self.keyof[sd][j])       # Transaction._SO_update notes the row before anything else
        # syncUpdate writes exactly the assignments issued since the instance was last synced / expired / rolled back
        if kind == 'sync' and ans == 'ok':
            ref_b = (raw_before if sd == 'P' else view_before) or {}
            ref_a = (raw if sd == 'P' else view) or {}
            k = self.keyof[sd][j]
            want = dict(ref_b)
            if k in want and self.pend[sd][j]:
                row = list(want[k])
                for c, v in self.pend[sd][j].items():
                    row[c] = v
                want[k] = tuple(row)
            if ref_a != want:
                self.fails.append((None, 'syncUpdate through %s instance %d (assignments since its last sync/expiry/rollback: %s) '
                                   'turned the rows%s into%s, expected%s' % (sd, j, self.pend[sd][j], fmt_rows(ref_b), fmt_rows(ref_a),
                                                                             fmt_rows(want)), 'lazy-sync-writes'))
            self.pend[sd][j] = {}
        if kind == 'rollback' and ans == 'ok' and not was_obsolete:
            for i in range(len(self.att['T'])):
                if self.att['T'][i]:
                    self.att['T'][i] = False
                    self.pend['T'][i] = {}
                    self.first_read['T'][i] = 'rollback'
            self.txupd = set()
        if kind == 'commit' and ans == 'ok' and not was_obsolete:
            reached = set(self.keyof['T'][i] for i in range(len(self.att['T'])) if self.att['T'][i]) | self.txupd
            self.txupd = set()
            for i in range(len(self.att['P'])):
                if self.att['P'][i] and self.keyof['P'][i] in reached:
                    self.att['P'][i] = False
                    self.pend['P'][i] = {}
                    self.first_read['P'][i] = 'commit'
        # after rollback (+ begin) the transaction's instances show the pre-transaction state; after commit the parent's
        # instances show the committed state: the first read of an instance the expiry reached
        if kind == 'read' and j in self.first_read[sd] and ans != 'Assert':
            why = self.first_read[sd].pop(j)
            ref = raw_before if sd == 'P' else view_before
            row = (ref or {}).get(self.keyof[sd][j])
            want = 'NotFound' if row is None else 'val %d' % row[op[3]]
            if ans != want:
                self.fails.append((None, 'the first read of %s instance %d after the %s that expired it answered %s, the %s holds %s'
                                   % (sd, j, why, ans, 'database' if sd == 'P' else 'transaction view', want), 'lazy-stale-after-' + why))


def run_lazy(dc, ops):
    w = LazyWorld()
    try:
        for op in ops:
            w.do(tuple(op))
        return w.lines, w.impl, w.fails
    finally:
        w.close()


def gen_lazy(rng, length):
    w = LazyWorld()
    ops = []
    try:
        for _ in range(length):
            sd = 'T' if rng.random() < 0.7 else 'P'
            ref = w.raw_now if (sd == 'P' or w.view_now is None) else w.view_now
            have = len(w.objs[sd])
            r = rng.random()
            if w.obsolete and rng.random() < 0.6:
                op = ('begin',)
            elif r < 0.10 or not w.raw_now:
                op = ('insert', rng.randint(1, 3), rng.randint(0, 9), rng.randint(0, 9))
            elif r < 0.25 or not have:
                op = ('get', sd, rng.choice(sorted(ref)) if ref and rng.random() < 0.9 else rng.randint(1, 3))
            elif r < 0.50:
                op = ('assign', sd, rng.randrange(have), rng.randrange(NCOLS), rng.randint(10, 99))
            elif r < 0.62:
                op = ('sync', sd, rng.randrange(have))
            elif r < 0.78:
                op = ('read', sd, rng.randrange(have), rng.randrange(NCOLS))
            elif r < 0.81:
                op = ('expire', sd, rng.randrange(have))
            elif r < 0.89:
                op = ('commit', 1 if rng.random() < 0.2 else 0)
            elif r < 0.97:
                op = ('rollback',)
            else:
                op = ('begin',)
            ops.append(op)
            w.do(op)
        for sd in 'PT':
            for j in range(len(w.objs[sd])):
                for c in range(NCOLS):
                    op = ('read', sd, j, c)
                    ops.append(op)
                    w.do(op)
        return ops, w.lines, w.impl, w.fails
    finally:
        w.close()


LAZY_CORPUS = [
    ('unsynced assignment through the transaction, rollback, begin: gone from the instance, never written',
     [('insert', 1, 1, 0), ('get', 'T', 1), ('assign', 'T', 0, 0, 5), ('read', 'T', 0, 0), ('rollback',), ('begin',), ('read', 'T', 0, 0),
      ('sync', 'T', 0), ('commit', 0), ('get', 'P', 1), ('read', 'P', 0, 0)]),
    ('synced then rolled back; synced then committed',
     [('insert', 1, 1, 0), ('get', 'T', 1), ('assign', 'T', 0, 1, 7), ('sync', 'T', 0), ('get', 'P', 1), ('read', 'P', 0, 1), ('rollback',),
      ('begin',), ('read', 'T', 0, 1), ('get', 'T', 1), ('assign', 'T', 1, 1, 8), ('sync', 'T', 1), ('commit', 0), ('read', 'P', 0, 1)]),
    ('parent instance with a pending assignment is expired by the commit that touches its row',
     [('insert', 2, 3, 4), ('get', 'P', 2), ('assign', 'P', 0, 0, 9), ('get', 'T', 2), ('assign', 'T', 0, 1, 6), ('sync', 'T', 0),
      ('sync', 'P', 0), ('commit', 0), ('read', 'P', 0, 0), ('sync', 'P', 0), ('read', 'P', 0, 1)]),
    ('finished transaction: lazy assignment still accepted, syncUpdate refused',
     [('insert', 1, 1, 0), ('get', 'T', 1), ('commit', 1), ('assign', 'T', 0, 0, 5), ('sync', 'T', 0), ('read', 'T', 0, 0), ('begin',),
      ('sync', 'T', 0), ('commit', 0)]),
]


def report_lazy(ctx, name, ops, lines, impl, fails):
    outs = ctx.model(lines)
    if outs is not None:
        for idx, (l, m, i) in enumerate(zip(lines, outs, impl)):
            if not ctx.compare('lazyUpdate histories (answers and rows after every step): model TxLazy = implementation',
                               {'lazy': [list(o) for o in ops], 'step': idx, 'request': l}, m, i):
                break
    for key, what, detail in fails[:1]:
        _unknown[0] += 1
        small = shrink_generic(run_lazy, True, ops, detail) if _unknown[0] <= 3 else ops
        k2 = 'C07:%s:%s' % (detail, '-'.join(o[0] + (o[1] if o[0] in ('get', 'assign', 'sync', 'read', 'expire') else '') for o in small))
        ctx.oracle_fail(k2, what, {'lazy': True, 'dc': True, 'ops': [list(o) for o in small]})


def shrink(dc, ops, detail):
    """greedy one-at-a-time removal keeping an unlisted failure of the same kind"""
    def bad(o):
        try:
            _, _, fails = run_ops(dc, o)
        except Exception:
            return False
        return any(k is None and d == detail for k, _, d in fails)
    ops = list(ops)
    budget = 150
    changed = True
    while changed and budget > 0:
        changed = False
        i = len(ops) - 1
        while i >= 0 and budget > 0:
            cand = ops[:i] + ops[i + 1:]
            budget -= 1
            if bad(cand):
                ops = cand
                changed = True
            i -= 1
    return ops


_unknown = [0]


def report(ctx, name, dc, ops, lines, impl, fails, expect=None):
    desc = {'dc': dc, 'ops': [list(o) for o in ops]}
    outs = ctx.model(lines)
    if outs is not None:
        for idx, (l, m, i) in enumerate(zip(lines, outs, impl)):
            stream = 'state after every step (committed rows, tx view, cached values of held instances): model = implementation' \
                if l == 'dump' else 'answer of every operation: model = implementation'
            if not ctx.compare(stream, {'history': desc, 'step': idx, 'request': l, 'prefix': lines[max(0, idx - 6):idx]}, m, i):
                break
    known = set()
    unknown_done = False
    for key, what, detail in fails:
        if key is not None:
            if key not in known:
                known.add(key)
                ctx.oracle_fail(key, what, desc)
        elif not unknown_done:
            unknown_done = True
            _unknown[0] += 1
            # only the first few unlisted failures are minimised (each costs up to 150 re-executions)
            small = shrink(dc, ops, detail) if _unknown[0] <= 3 else ops
            k2 = 'C07:%s:%s' % (detail, '-'.join(o[0] + (o[1] if o[0] not in TX_KINDS else '') for o in small))
            ctx.oracle_fail(k2, what, {'dc': dc, 'ops': [list(o) for o in small]})
    if expect is not None and expect not in known:
        ctx.note('corpus history %r no longer shows %s' % (name, expect))
    return known


def run(ctx):
    env()
    rng = ctx.rng
    _unknown[0] = 0
    import glob
    import json
    corpus = list(CORPUS)
    for path in sorted(glob.glob(os.path.join(os.path.dirname(os.path.dirname(os.path.abspath(__file__))), 'corpus', 'C07', '*.json'))):
        for hst in json.load(open(path)).get('histories', []):
            corpus.append((hst['name'], hst['dc'], [tuple(o) for o in hst['ops']], hst.get('expect')))
    for name, dc, ops, expect in corpus:
        if 'creates in the transaction' in name and ctx.deep:
            continue
        lines, impl, fails = run_ops(dc, ops)
        ctx.case(('corpus', name), sample={'corpus': name, 'answers': impl[-2:]}, kind='corpus')
        report(ctx, name, dc, ops, lines, impl, fails, expect)
    # cascading deletes through the transaction: isolation / commit / rollback over all tables (oracle only)
    for name, dc, ops in CASCADE_CORPUS:
        answers, fails = run_cascade(dc, ops)
        ctx.case(('cascade-corpus', name), sample={'cascade': name, 'answers': answers[-3:]}, kind='cascade corpus')
        report_cascade(ctx, dc, ops, fails)
    for h in range(ctx.budget(250, 2500)):
        if _unknown[0] >= 12:
            break
        dc = rng.random() < 0.8
        ops, answers, fails = gen_cascade(rng, rng.randint(4, 14), dc)
        ctx.case(('cascade', tuple(answers)), nontrivial=any(o[0] == 'destroy' for o in ops),
                 sample={'cascade': [list(o) for o in ops[:10]], 'answers': answers[-2:]}, kind='cascade history')
        report_cascade(ctx, dc, ops, fails)
    # commit / rollback as ConnectionHub.doInTransaction drives them (classes bound to a hub): several committed calls in a row
    # while the program keeps its instances across them — no stale value after any of the commits (the stream of harness/c08.py;
    # the plans with a BaseException are left to C08, where the recorded finding about Transaction.__del__ belongs)
    from harness import c08 as _c08
    e8 = _c08.env()
    for var in (('1', 'e'), ('0', 'l')):
        _c08.select_variant(e8, *var)
        _c08.chained_runs(ctx, e8, only_plans=(0, 1, 2), prefix='C07:doInTransaction-chain')
    # inheritable classes (parent + child table) through the transaction; selects and aggregates on both sides
    for name, dc, ops in INHERIT_CORPUS:
        answers, fails = run_inherit(dc, ops)
        ctx.case(('inherit-corpus', name), sample={'inherit': name, 'answers': answers[-3:]}, kind='inherit corpus')
        report_cascade(ctx, dc, ops, fails, run_inherit, 'inherit')
    for h in range(ctx.budget(200, 2000)):
        if _unknown[0] >= 12:
            break
        dc = rng.random() < 0.8
        ops, answers, fails = gen_cascade(rng, rng.randint(4, 14), dc, InheritWorld)
        ctx.case(('inherit', tuple(answers)), nontrivial=any(o[0] in ('select', 'agg') for o in ops),
                 sample={'inherit': [list(o) for o in ops[:10]], 'answers': answers[-2:]}, kind='inherit history')
        report_cascade(ctx, dc, ops, fails, run_inherit, 'inherit')
    # lazyUpdate class: pending assignments, syncUpdate through transaction and parent instances
    for name, ops in LAZY_CORPUS:
        lines, impl, fails = run_lazy(True, ops)
        ctx.case(('lazy-corpus', name), sample={'lazy': name, 'answers': impl[-2:]}, kind='lazy corpus')
        report_lazy(ctx, name, ops, lines, impl, fails)
    for h in range(ctx.budget(300, 3000)):
        if _unknown[0] >= 12:
            break
        ops, lines, impl, fails = gen_lazy(rng, rng.randint(4, 22))
        ctx.case(('lazy', tuple(lines)), nontrivial=any(o[0] in ('rollback', 'commit') for o in ops),
                 sample={'lazy': [list(o) for o in ops[:10]], 'last': impl[-1]}, kind='lazy history')
        report_lazy(ctx, 'random', ops, lines, impl, fails)
    n = ctx.budget(1500, 11000)
    for h in range(n):
        if _unknown[0] >= 12:
            ctx.note('stopped after 12 histories with unlisted oracle failures')
            break
        dc = rng.random() < 0.8
        length = rng.randint(4, 30 if ctx.tier == 'quick' else 60)
        ops, lines, impl, fails = gen_history(rng, length, dc)
        ncr = sum(1 for o in ops if o[0] in ('commit', 'rollback'))
        ctx.case(tuple(lines), nontrivial=ncr > 0,
                 sample={'dc': dc, 'ops': [list(o) for o in ops[:12]], 'last_state': impl[-1]},
                 kind='len<=10' if len(ops) <= 10 else 'len<=20' if len(ops) <= 20 else 'len>20')
        ctx.count('commit/rollback points', ncr)
        for o in ops:
            ctx.count('op:' + o[0] + (o[1] if o[0] not in TX_KINDS else ''))
        report(ctx, 'random', dc, ops, lines, impl, fails)


def replay(case):
    env()
    if case.get('lazy'):
        lines, impl, fails = run_lazy(True, [tuple(o) for o in case['ops']])
        return not fails, '\n'.join('%-22s -> %s' % (l, i) for l, i in zip(lines, impl)) + '\n' + '\n'.join('ORACLE: %s' % w for _, w, _ in fails)
    if case.get('chain'):
        from harness import c08 as _c08
        return _c08.replay(case)
    if case.get('inherit'):
        answers, fails = run_inherit(case['dc'], [tuple(o) for o in case['ops']])
        return not fails, '\n'.join(answers + ['ORACLE: %s' % w for _, w, _ in fails])
    if case.get('cascade'):
        answers, fails = run_cascade(case['dc'], [tuple(o) for o in case['ops']])
        return not fails, '\n'.join(answers + ['ORACLE: %s' % w for _, w, _ in fails])
    lines, impl, fails = run_ops(case['dc'], [tuple(o) for o in case['ops']])
    text = '\n'.join('%-22s -> %s' % (l, i) for l, i in zip(lines, impl))
    text += '\n' + '\n'.join('ORACLE: [%s] %s' % (k, w) for k, w, _ in fails)
    return not fails, text
