"""C18 — connection URIs round-trip: parse(build(x)) = x and the same database is opened.

extra parameters: connectionForURI(uri, **args) / uri + '?' + urlencode(args) through a private instance of the real
ConnectionURIOpener whose schemes build a recorder: the args dict must come back exactly.
several databases: groups of similarly named sqlite files opened through the real connectionForURI (the cache) in one
process: every URI's connection must address its own file (marker table written with the stdlib sqlite3 module).

correspondence: `urllib.parse.quote/unquote` as imported by dbconnection.py, `DBConnection.uri` (driverless
instances of the real connection classes), `SQLiteConnection.uri`, `DBConnection._parseURI` on built URIs
and on a hostile raw stream, `SQLiteConnection._connectionFromParams` — against the Lean driver `drv_c18`.
oracle (no model involved): parse(build(x)) == x component-wise on the real code; for sqlite the file
name handed to the connection class, and for real files in a scratch directory that the connection
opened from the reported URI sees the table created through the original one (and os.path.samefile);
ports that are non-numeric / out of range must make `_parseURI` raise.
"""
import json
import os
import shutil
import tempfile
import unicodedata

from vlib import sqlo

PROP = 'C18'
HERE = os.path.dirname(os.path.dirname(os.path.abspath(__file__)))

KEY_SLASHMEM = 'C18:sqlite:/:memory:'

META = {
    'extractors': ['uri', 'pyuri'],
    'technique': ('Lean 4 proof (induction over the string for unquote∘quote with the hex-digit and UTF-8 arithmetic; '
                  'delimiter-freeness of quoted text for the urlsplit model) + extracted literals/safe sets/skeleton of '
                  'uri() + differential correspondence of builders, urlparse model and _parseURI; TRANSLATOR tie: '
                  'vlib/extractors/pyuri.py translates DBConnection._parseURI / uri / connectionFromURI, SQLiteConnection.uri / '
                  '_connectionFromParams and ConnectionURIOpener.connectionForURI statement by statement into the PyUri deep embedding '
                  '(Model/PyUri.lean); C18_translated_*_eq_model prove the translated programs equal to the hand model for all inputs'),
    'level_text': ('Theorems C18_unquote_quote (every string, every safe set without %), C18_sqlite_parse_build / '
                   'C18_sqlite_open_partial (every absolute file name and :memory:), C18_parse_build (every user, '
                   'password, db; host without URI delimiters, lower-case, IPv6 literals included; port absent/0 or 1..65535) and '
                   'C18_params_roundtrip / C18_parse_build_params / C18_sqlite_parse_build_params (every list of extra parameters with '
                   'distinct names and non-empty values appended as connectionForURI does parses back exactly), '
                   'C18_bad_port_rejected / C18_bad_port_built_rejected (every non-numeric, negative or > 65535 port) about a model whose literals, safe= '
                   'arguments and statement skeleton are regenerated from /repo on every run and whose urllib/_parseURI part '
                   'is compared with the real code on built and on hostile raw URIs.  C18_translated_parseURI_eq_model / _uri_eq_model / '
                   '_sqlite_uri_eq_model / _connectionFromParams_eq_model / _connectionForURI_eq_model: the functions as TRANSLATED from the '
                   'source on this run equal the hand model for all inputs (standard-library functions = the hand model, os.name != "nt"), so '
                   'C18_translated_parse_build / _sqlite_parse_build / _parse_build_params / _sqlite_same_database state the round trip about the translated source.'),
    'level_note': ('Trusted: Lean kernel; extractors vlib/extractors/uri.py and pyuri.py (AST -> PyUri term) and the reference semantics of the '
                   'Python fragment (Model/PyUri.lean); the hand-written model of CPython 3.12 '
                   'urllib.parse (quote, unquote, urlsplit/urlparse, parse_qsl, UTF-8 replace-decoding), tied by sampling. '
                   'FALSE-witness theorem: sqlite file "/:memory:".'),
    'rule': ('cases = generic component tuples (class, user, password, host, port, db), sqlite file names, raw URI '
             'strings (generated, and single-character mutations of built URIs), port texts, extra-parameter dicts (inline and keyword) on built '
             'URIs through a private ConnectionURIOpener, absolute sqlite names not in normal form (/./, //, .. also behind a symlinked directory) '
             'given to the real constructor and opened as real files (marker written with the stdlib sqlite3 module under the same name), groups of sqlite files whose names differ only by quoting / by a tail that spells a '
             'query or fragment, opened with and without parameters through the real connectionForURI in shuffled orders with repeats; distinct = distinct tuple / '
             'string; non-trivial = contains a character outside the unreserved set or a port'),
    'trusted': ['model of CPython 3.12.1 urllib.parse.quote / unquote / urlsplit / urlparse / parse_qsl and of '
                'bytes.decode("utf-8", "replace") (Model/Uri.lean), cross-checked against the interpreter on every case',
                'decimal rendering / int() of the port (decDigits / parseDec), cross-checked'],
    'modelled': ['ipaddress.ip_address / IPvFuture validation of a bracketed host is a hand-written model (bracketedHostOk), compared on every raw URI with brackets',
                 'non-ASCII netloc: the NFKC check of urlsplit and Unicode str.lower() are not modelled; compared only where both are the identity',
                 'os.name == "nt" branch of _parseURI: translated, proved dead for os.name != "nt" (hypothesis of the translated theorems); not compared on Windows',
                 'method calls between objects (dbConnectionForScheme, connectionFromURI, cls(filename=..., **args)) are parameters of the translated '
                 'semantics (resolved by running the translations in C18_translated_sqlite_same_database); _parseOldURI / connectionFromOldURI are not '
                 'translated (proved unreachable from connectionForURI when oldUri is false)',
                 'the sqlite engine / file system (executed for the same-file oracle)'],
    'assumptions': ['component strings are str without lone surrogates (quote raises UnicodeEncodeError otherwise; checked as such)',
                    'None and "" are the same "absent" value for user, password, host (Python truthiness in uri() and in _parseURI)',
                    'port 0 is this library\'s "unspecified port" (coordinator decision): uri() omits a falsy port and `host:0` parses to None; '
                    '0 and None are the same absent port, ports > 65535, negative or non-numeric must be rejected',
                    'a host is a DNS name / IPv4 address / IPv6 literal: hosts containing / ? # @ [ ] blanks or control characters, or a colon without being an IPv6 literal, are outside the property; '
                    'host case is not significant (urlparse lower-cases it)',
                    'uri() reports no extra parameters (debug, cache, timeout …): the query part of a reported URI is always empty; '
                    'extra parameters are those given to connectionForURI(uri, **args) or appended with urlencode; their values are non-empty '
                    '(parse_qsl drops blank values) and their names distinct',
                    'the per-URI cache of connectionForURI is translated and proved equal to the hand model UriX.connectionForURI (keyed by the '
                    'extended URI text); that every reported URI (with and without parameters) addresses its own file when several similarly named '
                    'databases are opened in one process is checked by the oracle',
                    'in-memory sqlite databases are private to a connection: for :memory: only the parsed file name is checked'],
    'exhaustive': False,
}

_env = {}


def env():
    if _env:
        return _env
    sqlo.setup()
    from sqlobject import dbconnection
    from sqlobject.dbconnection import DBConnection
    from sqlobject.sqlite.sqliteconnection import SQLiteConnection
    from sqlobject.mysql.mysqlconnection import MySQLConnection
    from sqlobject.postgres.pgconnection import PostgresConnection
    from sqlobject.firebird.firebirdconnection import FirebirdConnection
    from sqlobject.maxdb.maxdbconnection import MaxdbConnection
    from sqlobject.mssql.mssqlconnection import MSSQLConnection
    from sqlobject.sybase.sybaseconnection import SybaseConnection
    _env.update(dbconnection=dbconnection, DBConnection=DBConnection, SQLiteConnection=SQLiteConnection,
                classes={'mysql': MySQLConnection, 'postgres': PostgresConnection, 'firebird': FirebirdConnection,
                         'maxdb': MaxdbConnection, 'mssql': MSSQLConnection, 'sybase': SybaseConnection})
    return _env


# ---------------------------------------------------------------------------------------- encoding
def enc(s):
    if s is None:
        return 'N'
    if s == '':
        return '-'
    return '.'.join('%x' % ord(c) for c in s)


def short(s, n=60):
    if s is None:
        return None
    r = ascii(s)
    return r if len(r) <= n else r[:n] + '…'


def exc(e):
    return 'err ' + type(e).__name__


# ---------------------------------------------------------------------------------------- real code
def real_quote(s, safe):
    try:
        return 'ok ' + enc(env()['dbconnection'].quote(s, safe=safe))
    except Exception as e:
        return exc(e)


def real_unquote(s):
    try:
        return enc(env()['dbconnection'].unquote(s))
    except Exception as e:
        return exc(e)


def make_generic(scheme, user, pw, host, port, db, no_user_attr=False, charset=None):
    cls = env()['classes'][scheme]
    c = object.__new__(cls)
    if charset is not None:
        c.dbEncoding = charset      # where MySQLConnection / PostgresConnection keep their `charset=` option
    if not no_user_attr:
        c.user = user
    c.password, c.host, c.port, c.db = pw, host, port, db
    return c


def real_guri(case):
    try:
        return make_generic(**case).uri(), None
    except Exception as e:
        return None, exc(e)


def real_suri(filename):
    # one real SQLiteConnection; uri() reads nothing but `filename`
    c = env().get('sqlite_instance')
    if c is None:
        c = env()['sqlite_instance'] = sqlo.mem_conn()
    c.filename = filename
    try:
        return c.uri(), None
    except Exception as e:
        return None, exc(e)
    finally:
        c.filename = ':memory:'


def real_parse(uri):
    """(canonical text, tuple or None)"""
    try:
        t = env()['DBConnection']._parseURI(uri)
    except Exception as e:
        return exc(e), None
    user, pw, host, port, path, args = t
    toks = ['ok', enc(user), enc(pw), enc(host), 'N' if port is None else str(port), enc(path)]
    for k, v in args.items():
        toks += [enc(k), enc(v)]
    return ' '.join(toks), t


class _Recorder(object):
    """stands for the connection class in `_connectionFromParams(cls, …)`: records the file name"""
    def __init__(self, filename=None, **kw):
        self.filename = filename
        self.kw = kw


def real_sopen(uri):
    """file name the real `SQLiteConnection._connectionFromParams` passes to the constructor"""
    E = env()
    try:
        params = E['DBConnection']._parseURI(uri)
        r = E['SQLiteConnection']._connectionFromParams.__func__(_Recorder, *params)
        return 'file ' + enc(r.filename), r.filename
    except Exception as e:
        return exc(e), None


def ascii_lower(s):
    return ''.join(chr(ord(c) + 32) if 'A' <= c <= 'Z' else c for c in s)


def parse_comparable(uri):
    """False when the real parse goes through stdlib code the model leaves out (NFKC check, Unicode lower())."""
    from urllib.parse import urlsplit
    try:
        nl = urlsplit(uri).netloc
    except ValueError as e:
        return 'NFKC' not in str(e)
    except Exception:
        return True
    if nl.isascii():
        return True
    return nl.lower() == ascii_lower(nl)


# ---------------------------------------------------------------------------------------- generators
RESERVED = ":/?#[]@!$&'()*+,;=%"
UNRESERVED = "abcxyzABZ019-._~"
WHITE = " \t\n\r\x0b\x0c\x00\x1f\x7f\x85\xa0"
NONASCII = "\xe9\xdfł中İ℀／：\U0001f600�͸​\U0010ffff퟿\x80߿ࠀ￿\U00010000"
PCT = ['%41', '%2F', '%2f', '%3A', '%40', '%25', '%zz', '%', '%4', '%%41', '%00', '%C3%A9', '%c3%a9', '%E4%B8%AD',
       '%F0%9F%98%80', '%C3', '%E4%B8', '%F0%9F%98', '%F0%9F', '%ED%A0%80', '%C0%AF', '%E0%80%80', '%F4%90%80%80',
       '%FF', '%F5%80', '%80', '%BF%41', '%E0%A0', '%ED%9F%BF', '%F0%90%80%80', '%F4%8F%BF%BF', '%C2%41', '%E1%80%41',
       '%F1%80%80%41', '%E1%41', '%F1%41', '%F1%80%41', '+', '%2B', '%EF%BF%BD']


ODD = '|^`{}\\"<>'


def odd_everywhere(base):
    """every URI-unreserved-but-odd character inserted at, and substituted at, every position of `base`"""
    out = []
    for ch in ODD:
        for i in range(len(base) + 1):
            out.append(base[:i] + ch + base[i:])
            if i < len(base) and base[i] != '/':
                out.append(base[:i] + ch + base[i + 1:])
    return out


def rstr(rng, maxlen=8, pct=0.15, nonascii=0.15):
    n = rng.choice([0, 1, 1, 2, 3, 3, 4, 5, maxlen])
    out = []
    for _ in range(n):
        r = rng.random()
        if r < pct:
            out.append(rng.choice(PCT))
        elif r < pct + nonascii:
            out.append(rng.choice(NONASCII))
        elif r < pct + nonascii + 0.30:
            out.append(rng.choice(RESERVED))
        elif r < pct + nonascii + 0.40:
            out.append(rng.choice(WHITE))
        elif r < pct + nonascii + 0.47:
            out.append(rng.choice(ODD))
        else:
            out.append(rng.choice(UNRESERVED))
    return ''.join(out)


GOOD_HOSTS = ['host', 'localhost', 'db.example.com', '127.0.0.1', 'a', 'xn--bcher-kva.example', 'db-1.internal',
              'my_host', 'h~1', 'a%41', 'b\xfccher.example', '中.example', 'a!$&\'()*+,;=b', 'a b', 'h%zz']
ODD_HOSTS = ['Host', 'DB.Example.COM', '::1', '[::1]', 'fe80::1', '2001:db8::ff00:42:8329', 'a:b', 'a@b', 'a/b', 'a?b', 'a#b',
             '/var/run/postgresql', '[v1.x]', 'a[b', 'a]b', ' a', 'a\tb', 'a\nb', 'İstanbul', 'Ａ', 'a／b',
             'a:80', 'h:', ':', '@', '%41', 'A%41b']


IP6_PIECES = ['1', 'a', 'F', 'g', ':', '::', ':', '.', '%', '0', '255', '256', '01', 'v', '1.2.3.4', 'ffff', '12345', 'db8', '2001', '%eth0', 'v1.x']
IP6_GOOD = ['::1', '::', '1::', '2001:db8::ff00:42:8329', 'fe80::1%eth0', '::ffff:192.0.2.1', '1:2:3:4:5:6:7:8', '1:2:3:4:5:6:1.2.3.4',
            '::1:2:3:4:5:6:7', '1:2:3:4:5:6:7::', 'abcd:ef01:2345:6789:abcd:ef01:2345:6789', 'fe80::a%1', '0:0:0:0:0:0:0:0', '::0.0.0.0']


def gen_ip6ish(rng):
    if rng.random() < 0.5:
        return rng.choice(IP6_GOOD)
    return ''.join(rng.choice(IP6_PIECES) for _ in range(rng.randint(1, 9)))


def gen_host(rng):
    r = rng.random()
    if r < 0.12:
        return rng.choice([None, ''])
    if r < 0.55:
        return rng.choice(GOOD_HOSTS)
    if r < 0.70:
        return gen_ip6ish(rng)
    if r < 0.85:
        return rng.choice(ODD_HOSTS)
    return rstr(rng, 6, pct=0.05)


def gen_port(rng):
    r = rng.random()
    if r < 0.3:
        return None
    if r < 0.65:
        return rng.choice([1, 80, 3306, 5432, 65535, 10, 9, 100, 4999])
    if r < 0.8:
        return rng.randint(1, 65535)
    return rng.choice([0, -1, 65536, 70000, -65535, 10 ** 6, 2 ** 64, -0, 1, 65535])


CHARSETS = ['utf8', 'latin1', 'koi8-r', 'ascii', 'cp1252', 'utf-16', 'latin-1', 'iso8859-15', 'big5', '']
CHARSET_TEXTS = ['jos\xe9', 'p\xe4ss w/rd', 'pa\xdfwort', '\u65e5\u672c', '\u0431\u0430\u0437\u0430', '\u20ac', 'caf\xe9', '\xff', '\x80']


def gen_generic(rng):
    scheme = rng.choice(['mysql', 'postgres', 'firebird', 'maxdb', 'mssql', 'sybase'])
    user = rng.choice([None, '', 'user', 'us:er', 'a/b']) if rng.random() < 0.35 else rstr(rng)
    pw = rng.choice([None, None, '', 'pass word', 'p@ss', 'p:w/x']) if rng.random() < 0.35 else rstr(rng)
    if not user and pw and rng.random() < 0.9:
        pw = None
    db = rng.choice(['database', '/database', '/full/path/to/socket/database', '', '/', '//x']) \
        if rng.random() < 0.3 else rstr(rng, 10)
    case = dict(scheme=scheme, user=user, pw=pw, host=gen_host(rng), port=gen_port(rng), db=db)
    if user is None and rng.random() < 0.3:
        case['no_user_attr'] = True
    if rng.random() < 0.3:
        # a connection configured with a database charset: the URI is still percent-encoded UTF-8
        case['charset'] = rng.choice(CHARSETS)
        if rng.random() < 0.7:
            k = rng.choice(['user', 'pw', 'db'])
            if k != 'pw' or case['user']:
                case[k] = (case[k] or '') + rng.choice(CHARSET_TEXTS)
                if k == 'user':
                    case.pop('no_user_attr', None)
    return case


def gen_filename(rng):
    r = rng.random()
    if r < 0.05:
        return ':memory:'
    if r < 0.10:
        return rng.choice(['/:memory:', '/', '//', '/a b', '/a%20b', '/a?b#c', '/\xe9', '/x/:memory:', '/:memory:/x',
                           ':memory:x', '', 'rel/path', 'rel', '/a;b', '/a\tb', '/%', '/a%', '/a+b'])
    if r < 0.92:
        return '/' + rstr(rng, 10)
    return rstr(rng, 6)       # relative: outside the property, still compared with the model


SCHEMES = ['mysql', 'postgres', 'sqlite', 'MySQL', 'http', 'ftp', 'sip', 'tel', 'x+y-z.1', 'my_sql', '1ab', '', 'a', '\xe9a', 'a\tb',
           'postgresql', 'hdl', 'file', ' mysql', '\x00\x1fmysql', 'ws']
PORT_TEXTS = ['', '0', '1', '80', '5432', '65535', '65536', '70000', '00080', '000000', '99999999999999999999', '-1', '+80', ' 80',
              '80 ', '8o', 'abc', '٣', '²', '80:90', ':', '0x50', '8_0', '1e3', '65535\t', '%38%30', '１', '6553\n5']


def gen_netloc(rng):
    parts = []
    r = rng.random()
    if r < 0.5:
        u = rng.choice(['user', 'us%3Aer', 'u%40', '', 'a%2Fb', 'a/b', 'x@y']) if rng.random() < 0.5 else rstr(rng, 5, pct=0.3)
        parts.append(u)
        if rng.random() < 0.6:
            parts.append(':')
            parts.append(rng.choice(['pw', 'p%40ss', '', 'a:b', 'p@ss']) if rng.random() < 0.5 else rstr(rng, 5, pct=0.3))
        parts.append('@')
    r = rng.random()
    if r < 0.15:
        parts.append('[' + gen_ip6ish(rng) + ']' + rng.choice(['', '', '', 'x', ']', '[']))
    elif r < 0.8:
        parts.append(rng.choice(GOOD_HOSTS + ODD_HOSTS + ['', '']))
    else:
        parts.append(rstr(rng, 5))
    if rng.random() < 0.5:
        parts.append(':')
        parts.append(rng.choice(PORT_TEXTS) if rng.random() < 0.7 else str(rng.randint(0, 70000)))
    return ''.join(parts)


def gen_query(rng):
    items = []
    for _ in range(rng.choice([0, 1, 1, 2, 3])):
        k = rng.choice(['debug', 'cache', 'a', '', 'k%3D', 'a+b', 'a', '\xe9']) if rng.random() < 0.6 else rstr(rng, 4, pct=0.3)
        r = rng.random()
        if r < 0.15:
            items.append(k)
        else:
            v = rng.choice(['1', '', 'x y', 'a+b', '%26', 'v=w', '%C3']) if rng.random() < 0.6 else rstr(rng, 4, pct=0.3)
            items.append(k + '=' + v)
    return rng.choice(['&', '&', '&', '&&', ';']).join(items)


def gen_raw(rng):
    s = rng.choice(SCHEMES)
    out = [s]
    if rng.random() < 0.93:
        out.append(':')
    r = rng.random()
    if r < 0.7:
        out.append('//')
        out.append(gen_netloc(rng))
    elif r < 0.8:
        out.append('/')
    if rng.random() < 0.85:
        out.append(rng.choice(['/', '/', '', '//', '/:memory:', '/a;b/c;d', ';p', '/x;y']) if rng.random() < 0.3 else '/')
        out.append(rstr(rng, 8, pct=0.35))
    if rng.random() < 0.35:
        out.append('?')
        out.append(gen_query(rng))
    if rng.random() < 0.2:
        out.append('#')
        out.append(rstr(rng, 4))
    u = ''.join(out)
    if rng.random() < 0.08:
        u = rng.choice([' ', '\t', '\x00', '\n \r', '\x1f', '\xa0', '\x7f']) + u
    if rng.random() < 0.05:
        u = u + rng.choice([' ', '\t', '\n'])
    return u


def mutate(rng, u):
    if not u:
        return u
    i = rng.randint(0, len(u) - 1)
    r = rng.random()
    c = rng.choice(RESERVED + WHITE + 'aA0' + NONASCII[:6])
    if r < 0.35:
        return u[:i] + u[i + 1:]
    if r < 0.7:
        return u[:i] + c + u[i:]
    return u[:i] + c + u[i + 1:]


# ---------------------------------------------------------------------------------------- oracle helpers
def has_surrogate(s):
    return s is not None and any(0xD800 <= ord(c) <= 0xDFFF for c in s)


def is_ipv6_literal(h):
    import ipaddress
    try:
        return isinstance(ipaddress.ip_address(h), ipaddress.IPv6Address)
    except ValueError:
        return False


def host_class(h):
    """a host is a DNS name / IPv4 address (no URI delimiters, blanks, controls) or an IPv6 literal"""
    if not h:
        return 'none'
    if any(c in '/?#@[]' or ord(c) <= 0x20 or c == '\x7f' for c in h):
        return 'outside'
    if not h.isascii():
        if unicodedata.normalize('NFKC', h) != h or any(unicodedata.category(c) in ('Zs', 'Cc', 'Cf', 'Cn', 'Co') for c in h):
            return 'outside'
    if ':' in h:
        if not is_ipv6_literal(h):
            return 'outside'
        return 'ipv6-case' if h.partition('%')[0].lower() != h.partition('%')[0] else 'ipv6'
    if h.lower() != h:
        return 'case'
    return 'plain'


def norm_db(db):
    return '/' + (db[1:] if db.startswith('/') else db)


def generic_desc(case):
    return {k: (short(v) if isinstance(v, str) else v) for k, v in case.items()}


def check_generic_oracle(ctx, case, uri, err):
    """parse(build(x)) == x on the real code; returns kind label"""
    user, pw, host, port, db = case['user'], case['pw'], case['host'], case['port'], case['db']
    if any(has_surrogate(x) for x in (user, pw, host, db)):
        return 'surrogate'
    if not user and pw:
        # the builder itself declares this outside the URI syntax
        if err != 'err AssertionError':
            ctx.oracle_fail('C18:generic:password-without-user-not-refused',
                            'uri() with a password and no user gave %r instead of refusing' % (uri or err,), case)
        return 'pw-without-user'
    hc = host_class(host)
    if hc == 'outside':
        return 'host-outside'
    if err is not None:
        ctx.oracle_fail('C18:generic:build-raises:%s' % err, 'uri() raises %s for %r' % (err, generic_desc(case)), case)
        return 'build-raises'
    text, t = real_parse(uri)
    if port == 0:
        port = None        # 0 is this library's "unspecified port" (uri() omits a falsy port, `host:0` parses to None)
    in_range = port is None or (isinstance(port, int) and 1 <= port <= 65535)
    if port is not None and not in_range:
        if text != 'err ValueError':
            ctx.oracle_fail('C18:bad-port-not-rejected:%s' % port,
                            'port %r: the reported URI %s is accepted by _parseURI as %s' % (port, short(uri), text), case)
        return 'port-out-of-range'
    want = (user or None, pw or None, host or None, port if in_range else None, norm_db(db))
    got = None if t is None else tuple(t[:5])
    if hc in ('case', 'ipv6-case') and got is not None and got[2] is not None and got[2].lower() == host.lower():
        got = got[:2] + (host,) + got[3:]      # host names are case-insensitive; urlparse lower-cases them
    ok = got == want and t[5] == {}
    if ok:
        return 'ok-' + hc
    what = 'parse(build(%r)): reported URI %s parses to %s, expected %r' % (generic_desc(case), short(uri, 100), text if t is None else got, want)
    ctx.oracle_fail('C18:generic:%s' % json.dumps([case.get(k) for k in ('scheme', 'user', 'pw', 'host', 'port', 'db')]
                                                  + ([{'charset': case['charset']}] if case.get('charset') is not None else []),
                                                  ensure_ascii=True), what, case)
    return 'fail'


def port_text_ok(p):
    return p.isascii() and p.isdigit() and 0 <= int(p) <= 65535


# ---------------------------------------------------------------------------------------- scratch files
class Scratch(object):
    def __init__(self):
        self.dir = None

    def __enter__(self):
        self.dir = tempfile.mkdtemp(prefix='c18 %41?#\xe9-')
        return self

    def __exit__(self, *a):
        shutil.rmtree(self.dir, ignore_errors=True)


FILE_NAMES = ['plain.db', 'with space.db', 'pct%41.db', '100%.db', 'q?x=1.db', 'hash#frag.db', 'caf\xe9.db', '中文.db',
              '\U0001f600.db', 'a;b.db', 'a+b.db', 'a&b=c.db', ':memory:', 'tab\there.db', 'nl\nx.db', "quo'te\".db",
              'back\\slash.db', '~tilde.db', '[br].db', '@at.db', 'a:b.db', '%2F.db', ' lead.db', 'trail .db', '%', 'x%zz']


DIR_SPELLINGS = ['d0', 'real', 'real/.', './real', 'real//', '/real', 'real/sub dir/..', 'link/..', 'link', 'link/.', 'real/../real',
                 'link/../sub dir', 'real/sub dir/../../real', '.', 'real/./sub dir//', 'real/sub dir', './/./real/./', 'link//..//']


def scratch_layout(d):
    """<d>/real/sub dir/, <d>/link -> <d>/real/sub dir (so <d>/link/.. is <d>/real, not <d>), <d>/d0"""
    os.makedirs(os.path.join(d, 'real', 'sub dir'), exist_ok=True)
    os.makedirs(os.path.join(d, 'd0'), exist_ok=True)
    if not os.path.lexists(os.path.join(d, 'link')):
        os.symlink(os.path.join(d, 'real', 'sub dir'), os.path.join(d, 'link'))


def same_file_oracle(ctx, root, rel):
    """the file the operating system finds under the name <root>/<rel> gets a marker through the stdlib sqlite3 module;
    a SQLiteConnection made for that name must keep the name and read the marker, its URI must parse back to the name,
    and the connection opened from the URI (connectionForURI, twice) must have the name and read the marker too"""
    import sqlite3
    E = env()
    dbc = E['dbconnection']
    path = root + '/' + rel
    c1 = c2 = None
    uri = None
    case = {'sqlite_file_label': rel}
    try:
        raw = sqlite3.connect(path)
        raw.execute('CREATE TABLE c18_marker (v TEXT)')
        raw.execute("INSERT INTO c18_marker VALUES ('written-by-sqlite3')")
        raw.commit()
        raw.close()

        def marker(c):
            try:
                return [tuple(r) for r in c.queryAll('SELECT v FROM c18_marker')]
            except Exception as e:
                return '%s: %s' % (exc(e), e)
        problem = None
        c1 = E['SQLiteConnection'](path)
        uri = c1.uri()
        if c1.filename != path:
            problem = 'the connection made for this name has filename %s' % short(c1.filename[len(root):], 100)
        elif marker(c1) != [('written-by-sqlite3',)]:
            problem = 'the connection made for this name does not see the file the OS finds under it: %r' % (marker(c1),)
        else:
            text, t = real_parse(uri)
            if t is None or tuple(t[:5]) != (None, None, None, None, path) or t[5] != {}:
                problem = 'the reported URI parses to %s' % text
        if problem is None:
            c1.query('CREATE TABLE c18_probe (x TEXT)')
            c1.query("INSERT INTO c18_probe VALUES ('through-the-original')")
            c2 = dbc.connectionForURI(uri)
            again = dbc.connectionForURI(uri)
            if again is not c2:
                problem = 'connectionForURI returned two different connections for the same URI'
            elif c2.filename != path:
                problem = 'the connection opened from the reported URI has filename %s' % short(c2.filename[len(root):], 100)
            elif marker(c2) != [('written-by-sqlite3',)]:
                problem = 'the connection opened from the reported URI does not see the file: %r' % (marker(c2),)
            else:
                try:
                    rows = [tuple(r) for r in c2.queryAll('SELECT x FROM c18_probe')]
                except Exception as e:
                    rows = exc(e)
                if rows != [('through-the-original',)]:
                    problem = 'rows written through the original connection, seen through the reopened URI: %r' % (rows,)
                elif not os.path.samefile(c2.filename, path):
                    problem = 'os.path.samefile is False'
        if problem:
            ctx.oracle_fail('C18:sqlite:same-file:%s' % ascii(rel), 'sqlite file <scratch>/%s, reported URI %s: %s'
                            % (short(rel, 100), short(uri, 140), problem), case)
    except Exception as e:
        ctx.oracle_fail('C18:sqlite:same-file-error:%s' % ascii(rel), 'sqlite file <scratch>/%s (URI %s): %s: %s'
                        % (short(rel, 100), short(uri, 140), exc(e), e), case)
    finally:
        for c in (c1, c2):
            try:
                if c is not None:
                    c.close()
            except Exception:
                pass
        if uri is not None:
            dbc.TheURIOpener.cachedURIs.pop(uri, None)
    return path, uri


def constructor_oracle(ctx, fn):
    """an absolute file name given to the constructor / reached through connectionFromURI is the connection's file name"""
    E = env()
    cls = E['SQLiteConnection']
    made = []
    try:
        c = cls(fn)
        made.append(c)
        if c.filename != fn:
            ctx.oracle_fail('C18:sqlite:constructor:%s' % ascii(fn), 'SQLiteConnection(%s).filename is %s (its URI %s)'
                            % (short(fn, 100), short(c.filename, 100), short(c.uri(), 100)), {'sqlite_constructor': fn})
            return False
        uri = c.uri()
        c2 = cls.connectionFromURI(uri)
        made.append(c2)
        if c2.filename != fn:
            ctx.oracle_fail('C18:sqlite:constructor-from-uri:%s' % ascii(fn), 'SQLiteConnection(%s) reports %s; connectionFromURI of that '
                            'has filename %s' % (short(fn, 100), short(uri, 100), short(c2.filename, 100)), {'sqlite_constructor': fn})
            return False
        return True
    except Exception as e:
        ctx.oracle_fail('C18:sqlite:constructor-raises:%s:%s' % (exc(e), ascii(fn)), 'SQLiteConnection(%s): %s: %s' % (short(fn, 100), exc(e), e),
                        {'sqlite_constructor': fn})
        return False
    finally:
        for c in made:
            try:
                c.close()
            except Exception:
                pass


# ---------------------------------------------------------------------------------------- extra parameters
PARAM_NAMES = ['debug', 'cache', 'timeout', 'charset', 'driver', 'registry', 'a b', 'k&x', 'n=m', '%41', 'p+q', '\xe9', '#', '?x',
               'a%20b', '%', ';', 'x y+z', '', 'sslmode', 'a%2Bb', '%26', 'k%3Dv']
PARAM_VALUES = ['1', '0', '30', 'utf8', 'a+b', 'x&cache=0', '100%41', 'p%2Bq', 'a b', 'v=w', '%', '%zz', '\xe9中', '#f', '?q', ';', 'a%20b',
                '+', '&', '=', '%26', '%3D', '%2520', ' ', 'x y+z&w=1%41', '\U0001f600', "'\"", '/path/to', 'reg+1&cache=0']


def gen_params(rng, maxn=3):
    out = {}
    for _ in range(rng.choice([1, 1, 2, maxn])):
        k = rng.choice(PARAM_NAMES) if rng.random() < 0.7 else rstr(rng, 4, pct=0.3)
        v = rng.choice(PARAM_VALUES) if rng.random() < 0.7 else rstr(rng, 5, pct=0.3)
        if k in ('uri', 'oldUri') or v == '' or has_surrogate(k) or has_surrogate(v):
            continue
        out[k] = v
    return out


def recording_opener():
    """a private ConnectionURIOpener (the real class) whose schemes build a recorder instead of a driver
    connection: connectionForURI's parameter appending, cache, dispatch, connectionFromURI and _parseURI all run"""
    E = env()
    if 'opener' in E:
        return E['opener']
    dbc = E['dbconnection']

    class Rec(dbc.DBConnection):
        seen_uris = []

        def __init__(self, params):       # deliberately not DBConnection.__init__ (no registry, no atexit)
            self.params = params

        @classmethod
        def connectionFromURI(cls, uri):
            cls.seen_uris.append(uri)
            return dbc.DBConnection.connectionFromURI.__func__(cls, uri)

        @classmethod
        def _connectionFromParams(cls, user, password, host, port, path, args):
            return cls((user, password, host, port, path, dict(args)))

        def close(self):
            pass
    op = dbc.ConnectionURIOpener()
    op.registerConnection(list(E['classes']) + ['sqlite'], lambda: Rec)
    E['opener'] = (op, Rec)
    return E['opener']


def open_with_params(uri, inline, kwargs):
    """connectionForURI(uri [+ '?' + urlencode(inline)], **kwargs) on the private opener.
    returns (recorded params tuple | None, error text | None, connection, uri handed to connectionFromURI)"""
    op, Rec = recording_opener()
    dbc = env()['dbconnection']
    del Rec.seen_uris[:]
    try:
        u = uri
        if inline:
            u = uri + '?' + dbc.urlencode(inline)
        c = op.connectionForURI(u, **kwargs)
        return c.params, None, c, ((u, Rec.seen_uris[-1]) if Rec.seen_uris else None)
    except Exception as e:
        return None, exc(e), None, None


def check_params_oracle(ctx, base_case, uri, want5, inline, kwargs):
    """the extra parameters given to connectionForURI come back from _parseURI exactly, next to the components"""
    got, err, conn, final_uri = open_with_params(uri, inline, kwargs)
    want_args = dict(inline)
    want_args.update(kwargs)
    case = dict(base_case, opener_inline=inline, opener_kwargs=kwargs)
    label = json.dumps([sorted(inline.items()), sorted(kwargs.items())], ensure_ascii=True)
    if got is None:
        ctx.oracle_fail('C18:params:raises:%s:%s' % (err, label),
                        'connectionForURI(%s, inline %r, **%r) raises %s' % (short(uri, 100), inline, kwargs, err), case)
        return None
    if tuple(got[:5]) != tuple(want5) or got[5] != want_args:
        ctx.oracle_fail('C18:params:%s' % label,
                        'connectionForURI(%s + inline parameters %r, **%r): _parseURI gives components %r and parameters %r, '
                        'expected %r and %r' % (short(uri, 100), inline, kwargs, tuple(got[:5]), got[5], tuple(want5), want_args), case)
        return final_uri
    again, err2, conn2, _ = open_with_params(uri, inline, kwargs)
    if conn2 is not conn:
        ctx.oracle_fail('C18:params:cache:%s' % label, 'the same URI and parameters opened twice give two connections', case)
    return final_uri


def curi_lines(uri, inline, kwargs, uris):
    """model requests for the two URI extensions (hand-written '?'+urlencode, then connectionForURI's own)"""
    mid, final = uris
    out = []

    def kv(d):
        return ' '.join('%s %s' % (enc(k), enc(v)) for k, v in d.items())
    if inline:
        out.append(('curi %s %s' % (enc(uri), kv(inline)), 'ok ' + enc(mid)))
    if kwargs:
        out.append(('curi %s %s' % (enc(mid), kv(kwargs)), 'ok ' + enc(final)))
    return out


def clear_opener():
    op, Rec = recording_opener()
    op.cachedURIs.clear()


# ---------------------------------------------------------------------------------------- several databases, one process
SQLITE_PARAM_SETS = [{}, {}, {'timeout': '30'}, {'timeout': '5'}, {'cache': '0'}, {'timeout': '30', 'cache': '0'}, {'use_table_info': '0'}]
TWIN_SEPS = ['?', '#', '%3F', '%23', '%20', ' ', '%25', '+', '&', '%2520', '%253F', ';', '%', '=']
TWIN_TAILS = ['timeout=30', 'cache=0', 'timeout=30&cache=0', 'timeout=5', 'b', 'x', 'use_table_info=0', 'timeout%3D30']


def gen_multi_open(rng):
    """entries (file name, parameters, 'kwargs'|'inline'): names that differ only by quoting / by a tail that looks like
    a query or a fragment, each opened with and without parameters, in a random order with repeats"""
    from urllib.parse import quote as q, unquote as uq
    base = rng.choice(['data', 'a', 'my db', 'x.db', '\xe9', 'q%41', '100%'])
    names = [base]
    for _ in range(rng.choice([2, 3, 4])):
        names.append(base + rng.choice(TWIN_SEPS) + rng.choice(TWIN_TAILS))
    from urllib.parse import urlencode as ue
    twin_params = [dict(rng.choice(SQLITE_PARAM_SETS[2:])) for _ in range(2)]
    for tp in twin_params:      # a file whose NAME spells the base name's URI with these parameters
        names.append(base + rng.choice(['?', '?', '#', '&']) + ue(tp))
    if base.swapcase() != base:
        names.append(base.swapcase())
    for n in list(names):
        r = rng.random()
        if r < 0.3:
            names.append(uq(n))
        elif r < 0.6:
            names.append(q(n, safe=''))
    names = [n for n in dict.fromkeys(names) if n and '/' not in n and '\x00' not in n and n not in ('.', '..')
             and len(n.encode('utf-8')) < 150]
    entries = []
    for n in names:
        entries.append((n, {}, 'kwargs'))
        for _ in range(rng.choice([0, 1, 2])):
            entries.append((n, dict(rng.choice(SQLITE_PARAM_SETS)), rng.choice(['kwargs', 'inline'])))
    # parameters that make the base name's URI spell like a tailed name
    for tp in twin_params:
        entries.append((base, tp, rng.choice(['kwargs', 'inline'])))
    rng.shuffle(entries)
    entries += [entries[rng.randint(0, len(entries) - 1)] for _ in range(3)]      # repeated opens
    return [[n, p, h] for n, p, h in entries]


def run_multi_open(entries):
    """open the entries in order through the real connectionForURI in a fresh directory;
    returns a list of (index, problem text)"""
    import sqlite3
    E = env()
    dbc = E['dbconnection']
    problems = []
    opened = []
    before = set(dbc.TheURIOpener.cachedURIs)
    with Scratch() as sc:
        paths = {}
        for n, _, _ in entries:
            if n not in paths:
                paths[n] = os.path.join(sc.dir, n)
                raw = sqlite3.connect(paths[n])
                raw.execute('CREATE TABLE c18_marker (v TEXT)')
                raw.execute('INSERT INTO c18_marker VALUES (?)', (n,))
                raw.commit()
                raw.close()
        first = {}
        try:
            for i, (n, params, how) in enumerate(entries):
                uri, err = real_suri(paths[n])
                if uri is None:
                    problems.append((i, 'uri() raises %s' % err))
                    continue
                try:
                    if how == 'inline' and params:
                        conn = dbc.connectionForURI(uri + '?' + dbc.urlencode(params))
                    else:
                        conn = dbc.connectionForURI(uri, **params)
                except Exception as e:
                    problems.append((i, 'connectionForURI raises %s: %s' % (exc(e), e)))
                    continue
                opened.append(conn)
                ident = (n, tuple(sorted(params.items())))
                if conn.filename != paths[n]:
                    problems.append((i, 'the URI of file %s (parameters %r) gives a connection to file %s'
                                     % (short(n), params, short(os.path.basename(conn.filename)))))
                    continue
                try:
                    rows = [tuple(r) for r in conn.queryAll('SELECT v FROM c18_marker')]
                except Exception as e:
                    rows = exc(e)
                if rows != [(n,)]:
                    problems.append((i, 'the URI of file %s (parameters %r) gives a database holding %r' % (short(n), params, rows)))
                    continue
                if 'timeout' in params and conn._connOptions.get('timeout') != float(params['timeout']):
                    problems.append((i, 'file %s: parameter timeout=%s not in effect (%r)'
                                     % (short(n), params['timeout'], conn._connOptions.get('timeout'))))
                if ('cache' in params) != (not conn.doCache):
                    problems.append((i, 'file %s: parameters %r but doCache=%r' % (short(n), params, conn.doCache)))
                if ident in first and first[ident] is not conn:
                    problems.append((i, 'file %s with parameters %r opened twice gives two connections' % (short(n), params)))
                first.setdefault(ident, conn)
        finally:
            for c in opened:
                try:
                    c.close()
                except Exception:
                    pass
            for k in set(dbc.TheURIOpener.cachedURIs) - before:
                dbc.TheURIOpener.cachedURIs.pop(k, None)
    return problems


def multi_open_oracle(ctx, entries):
    problems = run_multi_open(entries)
    if not problems:
        return True
    i, what = problems[0]
    # minimise: the failing entry alone, then together with one earlier entry
    small = None
    if run_multi_open([entries[i]]):
        small = [entries[i]]
    else:
        for j in range(i):
            if run_multi_open([entries[j], entries[i]]):
                small = [entries[j], entries[i]]
                break
    if small is not None:
        what = run_multi_open(small)[0][1]
    else:
        small = entries[:i + 1]
    ctx.oracle_fail('C18:sqlite:multi-open:%s' % json.dumps(small, ensure_ascii=True, sort_keys=True),
                    'databases opened in this order through connectionForURI %s: %s'
                    % (json.dumps(small, ensure_ascii=True), what), {'multi_open': small})
    return False



# ---------------------------------------------------------------------------------------- histories of opens: the cache never forgets
def cache_opener():
    """a fresh private instance of the real ConnectionURIOpener: `sqlite` builds the real SQLiteConnection,
    the other schemes the recorder (cheap: thousands of distinct URIs)"""
    E = env()
    dbc = E['dbconnection']
    _, Rec = recording_opener()
    op = dbc.ConnectionURIOpener()
    op.registerConnection(list(E['classes']), lambda: Rec)
    op.registerConnection(['sqlite'], lambda: E['SQLiteConnection'])
    return op


def global_opener():
    """the process-wide opener, with one extra scheme that builds the recorder"""
    E = env()
    dbc = E['dbconnection']
    _, Rec = recording_opener()
    if 'global_builder' not in E:
        E['global_builder'] = lambda: Rec
        dbc.TheURIOpener.registerConnection(['c18probe'], E['global_builder'])
    return dbc.TheURIOpener


def other_uri(i, probe=False):
    scheme = 'c18probe' if probe else ('mysql', 'postgres', 'firebird', 'maxdb', 'mssql', 'sybase')[i % 6]
    return '%s://user%d@h%d.example:%d/db%%20%d%s' % (scheme, i % 7, i, 1 + i % 65535, i, '?charset=utf8' if i % 5 == 0 else '')


HISTORY_KINDS = ['memory', 'memory+timeout', 'file', 'file+timeout', 'recorder']


def history_problem(kind, n, use_global=False):
    """open a database by URI, put a marker in it, open `n` other distinct URIs, open the URI the connection
    reports again: the same database?  returns a problem text or None"""
    op = global_opener() if use_global else cache_opener()
    before = set(op.cachedURIs)
    real = []
    try:
        with Scratch() as sc:
            params = {'timeout': '30'} if kind.endswith('+timeout') else {}
            if kind.startswith('memory'):
                uri = 'sqlite:/:memory:'
            elif kind.startswith('file'):
                uri = real_suri(os.path.join(sc.dir, 'hist ?#%41.db'))[0]
            else:
                uri = 'mysql://u:p@target.example:3306/db'
            c0 = op.connectionForURI(uri, **params)
            if kind != 'recorder':
                real.append(c0)
                c0.query('CREATE TABLE c18_hist (v TEXT)')
                c0.query("INSERT INTO c18_hist VALUES ('marker')")
                reported = c0.uri()
                if reported != uri:
                    return 'the connection opened from %r reports %r' % (uri, reported)
            for i in range(n):
                op.connectionForURI(other_uri(i, probe=use_global))
            c1 = op.connectionForURI(uri, **params)
            if c1 is not c0 and kind != 'recorder':
                real.append(c1)
            if kind == 'recorder':
                return None if c1 is c0 else 'the URI gives another connection object than before'
            try:
                rows = [tuple(r) for r in c1.queryAll('SELECT v FROM c18_hist')]
            except Exception as e:
                rows = '%s: %s' % (exc(e), e)
            if rows != [('marker',)]:
                return ('the connection opened again from the reported URI %r does not hold the data written through the first one: %r%s'
                        % (uri, rows, '' if c1 is c0 else ' (a different connection object)'))
            if kind.startswith('memory') and c1 is not c0:
                return 'the in-memory URI gives a different connection object (a different, empty database)'
            return None
    finally:
        for c in real:
            try:
                c.close()
            except Exception:
                pass
        for k in set(op.cachedURIs) - before:
            op.cachedURIs.pop(k, None)


def cache_history_oracle(ctx, kind, schedule, use_global=False):
    prev = 0
    for n in schedule:
        what = history_problem(kind, n, use_global)
        if what is not None:
            lo, hi = prev, n            # no problem after `lo` others (or lo = 0 untested), problem after `hi`
            if lo == 0 and history_problem(kind, 0, use_global) is not None:
                hi = 0
            while hi - lo > 1:
                mid = (lo + hi) // 2
                if history_problem(kind, mid, use_global) is not None:
                    hi = mid
                else:
                    lo = mid
            what = history_problem(kind, hi, use_global) or what
            ctx.oracle_fail('C18:cache-history:%s%s:lost-after-%d-other-uris' % (kind, ':global' if use_global else '', hi),
                            'connectionForURI, %s opener: a %s database opened by URI, then %d other distinct URIs, then its own URI again: %s'
                            % ('process-wide' if use_global else 'private', kind, hi, what),
                            {'cache_history': {'kind': kind, 'n': hi, 'global': use_global}})
            return False
        prev = n
    return True


def random_history_oracle(ctx, rng, pool, length):
    """every URI always gives the connection it gave the first time, whatever is opened in between"""
    op = cache_opener()
    uris = [other_uri(i) for i in range(pool)]
    first = {}
    last_seen = {}
    for step in range(length):
        j = rng.randint(0, pool - 1) if rng.random() < 0.7 else rng.randint(0, min(pool - 1, 9))
        try:
            c = op.connectionForURI(uris[j])
        except Exception as e:
            ctx.oracle_fail('C18:cache-history:random:raises:%s' % exc(e), 'connectionForURI(%r) raises %s' % (uris[j], exc(e)),
                            {'cache_history': {'kind': 'recorder', 'n': 0, 'global': False}})
            return False
        if j in first and first[j] is not c:
            d = len(set(k for k, t in last_seen.items() if t > last_seen[j]))
            ctx.oracle_fail('C18:cache-history:random:other-connection-after-%d-distinct' % d,
                            'a URI opened again after %d other distinct URIs (pool %d, step %d) gives another connection object'
                            % (d, pool, step), {'cache_history': {'kind': 'recorder', 'n': d, 'global': False}})
            return False
        first.setdefault(j, c)
        last_seen[j] = step
    return True


# ---------------------------------------------------------------------------------------- run
def load_corpus():
    path = os.path.join(HERE, 'corpus', 'C18', 'cases.json')
    if not os.path.exists(path):
        return {'generic': [], 'sqlite': [], 'raw': [], 'ports': []}
    with open(path, encoding='utf-8') as f:
        return json.load(f)


def nontrivial_str(*xs):
    return any(x and any(c not in 'abcdefghijklmnopqrstuvwxyz0123456789' for c in x) for x in xs if isinstance(x, str))


class _Once(object):
    """report each recorded-finding key once per run (the framework keeps a bounded list of failures)"""
    def __init__(self, ctx):
        self._ctx = ctx
        self._seen = set()

    def __getattr__(self, name):
        return getattr(self._ctx, name)

    def oracle_fail(self, key, what, case):
        if key in (KEY_SLASHMEM,):
            if key in self._seen:
                self._ctx.count('finding-repeat:' + key)
                return
            self._seen.add(key)
        self._ctx.oracle_fail(key, what, case)


def run(ctx):
    env()
    ctx = _Once(ctx)
    rng = ctx.rng
    corpus = load_corpus()
    todo = []          # (stream, case description, request line, implementation answer, comparable)

    def flush():
        if not todo:
            return
        outs = ctx.model([t[2] for t in todo])
        if outs is not None:
            for (stream, desc, line, impl, comparable), m in zip(todo, outs):
                if not comparable:
                    ctx.count('model:skipped(non-ASCII netloc, NFKC/lower not identity)')
                    continue
                ctx.compare(stream, desc, m, impl)
        del todo[:]

    def add(stream, desc, line, impl, comparable=True):
        todo.append((stream, desc, line, impl, comparable))
        if len(todo) >= 40000:
            flush()

    def parse_and_compare(stream, uri, desc):
        text, t = real_parse(uri)
        add(stream, desc, 'parse ' + enc(uri), text, parse_comparable(uri))
        return text, t

    # ---- generic builder ---------------------------------------------------------------------
    n_generic = ctx.budget(15000, 300000)
    generic_cases = [dict(c) for c in corpus.get('generic', [])]
    for db in odd_everywhere('abc/de') + odd_everywhere('/ab'):
        generic_cases.append(dict(scheme=('mysql', 'postgres')[len(generic_cases) % 2], user=None, pw=None, host='host', port=None, db=db))
    for w in odd_everywhere('ab'):
        generic_cases.append(dict(scheme='mysql', user=w, pw=w[::-1], host='host', port=3306, db='db'))
    for cs in CHARSETS:
        for t in CHARSET_TEXTS[:6]:
            generic_cases.append(dict(scheme=('mysql', 'postgres')[len(generic_cases) % 2], user=t, pw=t + ' w/rd', host='dbhost', port=3306,
                                      db=t, charset=cs))
    generic_cases += [gen_generic(rng) for _ in range(n_generic)]
    built = []
    for case in generic_cases:
        uri, err = real_guri(case)
        desc = generic_desc(case)
        line = 'guri %s %s %s %s %s %s' % (enc(case['scheme']), enc(case['user']), enc(case['pw']), enc(case['host']),
                                           'N' if case['port'] is None else case['port'], enc(case['db']))
        add('generic uri(): model = DBConnection.uri', desc, line, err if uri is None else 'ok ' + enc(uri))
        kind = check_generic_oracle(ctx, case, uri, err)
        ctx.case(('g', tuple(sorted((k, repr(v)) for k, v in case.items()))),
                 nontrivial=nontrivial_str(case['user'], case['pw'], case['host'], case['db']) or case['port'] is not None,
                 sample={'case': desc, 'uri': short(uri, 120), 'error': err, 'oracle': kind}, kind='generic:' + kind)
        if uri is not None:
            built.append(uri)
            parse_and_compare('_parseURI on built URIs: model = DBConnection._parseURI', uri, {'uri': short(uri, 200)})
            if kind.startswith('ok-') and rng.random() < 0.3:
                # the same URI with extra parameters (connectionForURI(uri, **kw) / '?k=v' written by hand with urlencode)
                t0 = real_parse(uri)[1]
                pr = gen_params(rng)
                inline = {}
                if rng.random() < 0.35:
                    inline = {k: v for k, v in gen_params(rng, 2).items() if k not in pr}
                if pr or inline:
                    fu = check_params_oracle(ctx, case, uri, t0[:5], inline, pr)
                    ctx.case(('gp', uri, tuple(sorted(pr.items())), tuple(sorted(inline.items()))), nontrivial=True,
                             kind='generic:with-parameters')
                    if fu is not None:
                        parse_and_compare('_parseURI on built URIs: model = DBConnection._parseURI', fu[1], {'uri': short(fu[1], 200)})
                        for line, impl in curi_lines(uri, inline, pr, fu):
                            add('connectionForURI parameters: model URI = URI handed to connectionFromURI',
                                {'uri': short(uri, 120), 'inline': inline, 'kwargs': pr}, line, impl)
        for comp, safe in ((case['user'], ''), (case['pw'], ''), (case['db'], '/')):
            if comp and rng.random() < 0.25:
                add('quote: model = urllib quote', {'s': short(comp), 'safe': safe},
                    'quote %s %s' % (enc(safe), enc(comp)), real_quote(comp, safe))

    # ---- sqlite builder ----------------------------------------------------------------------
    n_sqlite = ctx.budget(6000, 100000)
    files = list(corpus.get('sqlite', [])) + odd_everywhere('/abc/de.db') + odd_everywhere('/a') \
        + [gen_filename(rng) for _ in range(n_sqlite)]
    for fn in files:
        uri, err = real_suri(fn)
        desc = {'filename': short(fn, 100)}
        add('sqlite uri(): model = SQLiteConnection.uri', desc, 'suri ' + enc(fn), err if uri is None else 'ok ' + enc(uri))
        in_domain = (fn == ':memory:' or fn.startswith('/')) and not has_surrogate(fn)
        kind = 'sqlite:' + ('memory' if fn == ':memory:' else 'absolute' if fn.startswith('/') else 'relative(outside)')
        if uri is not None:
            built.append(uri)
            text, t = parse_and_compare('_parseURI on built URIs: model = DBConnection._parseURI', uri, {'uri': short(uri, 200)})
            otext, ofile = real_sopen(uri)
            add('sqlite open: model file name = SQLiteConnection._connectionFromParams', {'uri': short(uri, 200)},
                'sopen ' + enc(uri), otext)
            if in_domain:
                want_path = '/:memory:' if fn == ':memory:' else fn
                if t is None or tuple(t[:5]) != (None, None, None, None, want_path) or t[5] != {}:
                    ctx.oracle_fail('C18:sqlite:parse:%s' % ascii(fn), 'sqlite file %s: reported URI %s parses to %s'
                                    % (short(fn, 100), short(uri, 100), text), {'sqlite_filename': fn})
                    kind += ':fail'
                elif ofile != fn:
                    what = ('sqlite file %s: the reported URI %s makes _connectionFromParams open %s'
                            % (short(fn, 100), short(uri, 100), short(ofile) if ofile is not None else otext))
                    if fn == '/:memory:':
                        ctx.oracle_fail(KEY_SLASHMEM, what, {'sqlite_filename': fn})
                    else:
                        ctx.oracle_fail('C18:sqlite:open:%s' % ascii(fn), what, {'sqlite_filename': fn})
                    kind += ':fail'
            if in_domain and not kind.endswith(':fail') and rng.random() < 0.3:
                pr = gen_params(rng)
                if pr:
                    fu = check_params_oracle(ctx, {'sqlite_filename': fn}, uri, t[:5], {}, pr)
                    ctx.case(('sp', fn, tuple(sorted(pr.items()))), nontrivial=True, kind='sqlite:with-parameters')
                    if fu is not None:
                        parse_and_compare('_parseURI on built URIs: model = DBConnection._parseURI', fu[1], {'uri': short(fu[1], 200)})
                        for line, impl in curi_lines(uri, {}, pr, fu):
                            add('connectionForURI parameters: model URI = URI handed to connectionFromURI',
                                {'uri': short(uri, 120), 'kwargs': pr}, line, impl)
        elif in_domain:
            ctx.oracle_fail('C18:sqlite:build-raises:%s' % ascii(fn), 'SQLiteConnection.uri() raises %s for %s' % (err, short(fn)),
                            {'sqlite_filename': fn})
        ctx.case(('s', fn), nontrivial=nontrivial_str(fn[1:]), sample={'case': desc, 'uri': short(uri, 120)}, kind=kind)

    # ---- real files: the connection made for a name, and the one opened from its URI, address that file ----
    with Scratch() as sc:
        scratch_layout(sc.dir)
        names = list(FILE_NAMES)
        for _ in range(ctx.budget(40, 1500)):
            nm = rstr(rng, 8).replace('/', '_').replace('\x00', '_')
            if nm and nm not in ('.', '..') and not has_surrogate(nm) and len(nm.encode('utf-8')) < 200:
                names.append(nm)
        rels = []
        for i, sp in enumerate(DIR_SPELLINGS):            # every spelling of a directory, with a plain and an awkward name
            rels.append(sp + '/' + 'n%d.db' % i)
            rels.append(sp + '/' + FILE_NAMES[(3 * i + 1) % len(FILE_NAMES)].replace(':memory:', 'm') + '.%d' % i)
        for i, nm in enumerate(dict.fromkeys(names)):
            rels.append(DIR_SPELLINGS[rng.randint(0, len(DIR_SPELLINGS) - 1) if rng.random() < 0.5 else 0] + '/' + nm + '.%d' % i)
        for rel in rels:
            path, uri = same_file_oracle(ctx, sc.dir, rel)
            ctx.case(('f', rel), nontrivial=True, kind='sqlite:real-file' + (':non-normal-name' if os.path.normpath(path) != path else ''))
            if uri is not None:
                add('sqlite uri(): model = SQLiteConnection.uri', {'file': short(rel)}, 'suri ' + enc(path), 'ok ' + enc(uri))

    # ---- the constructor keeps the file name (no file is touched) ----------------------------------
    cfiles = ['/a/./b', '/a//b', '/a/../b', '/a/b/', '/a/.', '/a/..', '//a', '/./a', '/../a', '/a/b/../../c d%41?#', '/', '/.', '/..',
              '/a/./', '/x/link/../y', '/\xe9/./\u4e2d//z', '/plain/name.db']
    for _ in range(ctx.budget(150, 3000)):
        fn = gen_filename(rng)
        if fn.startswith('/') and fn != '/:memory:' and not has_surrogate(fn) and '\x00' not in fn:
            if rng.random() < 0.6:
                parts = fn.split('/')
                parts.insert(rng.randint(1, len(parts)), rng.choice(['.', '..', '', '.', 'x/..', '. ', '...']))
                fn = '/'.join(parts)
            cfiles.append(fn)
    for fn in cfiles:
        ok = constructor_oracle(ctx, fn)
        ctx.case(('c', fn), nontrivial=True, kind='sqlite:constructor' + (':non-normal-name' if os.path.normpath(fn) != fn else '')
                 + ('' if ok else ':fail'))

    clear_opener()

    # ---- several databases in one process: each URI's connection addresses its own file -------
    groups = [g for g in corpus.get('multi_open', [])] + [gen_multi_open(rng) for _ in range(ctx.budget(25, 600))]
    for g in groups:
        ok = multi_open_oracle(ctx, g)
        ctx.case(('m', json.dumps(g, sort_keys=True)), nontrivial=True, kind='sqlite:multi-open' + ('' if ok else ':fail'))

    # ---- histories: a URI opened once gives the same database after any number of other URIs ----
    schedule = [1, 8, 70, 600, 3000] + ([20000, 100000] if (ctx.tier == 'thorough' or ctx.deep) else [])
    for kind in HISTORY_KINDS:
        ok = cache_history_oracle(ctx, kind, schedule if kind in ('memory', 'recorder') else schedule[:4])
        ctx.case(('h', kind), nontrivial=True, kind='cache-history:' + kind + ('' if ok else ':fail'))
    for kind in ('memory', 'file'):
        ok = cache_history_oracle(ctx, kind, [150, 2500], use_global=True)
        ctx.case(('hg', kind), nontrivial=True, kind='cache-history:global:' + kind + ('' if ok else ':fail'))
    for pool, length in [(5, 60), (40, 300), (300, 1500), (2500, ctx.budget(6000, 60000))]:
        ok = random_history_oracle(ctx, rng, pool, length)
        ctx.case(('hr', pool, length), nontrivial=True, kind='cache-history:random' + ('' if ok else ':fail'))

    # ---- ports: non-numeric / out of range must be rejected ------------------------------------
    port_cases = list(corpus.get('ports', [])) + PORT_TEXTS + [str(rng.randint(0, 140000)) for _ in range(ctx.budget(300, 5000))] \
        + [rstr(rng, 4, pct=0.05) for _ in range(ctx.budget(300, 5000))]
    for i, p in enumerate(port_cases):
        if any(c in '/?#@[]' for c in p):
            continue
        auth = ['', 'user@', 'u:p@'][i % 3]
        uri = 'mysql://%shost:%s/db' % (auth, p)
        text, t = parse_and_compare('_parseURI on raw URIs: model = DBConnection._parseURI', uri, {'uri': short(uri, 200)})
        stripped = p.replace('\t', '').replace('\r', '').replace('\n', '')   # urlsplit removes these three anywhere
        kind = 'port:ok'
        if stripped == '':
            kind = 'port:empty'
        elif port_text_ok(stripped):
            if t is None or t[3] != (int(stripped) or None):      # 0 = unspecified
                ctx.oracle_fail('C18:port-text:%s' % ascii(p), 'valid port %r: %s gives %s' % (p, uri, text), {'raw_uri': uri})
        elif text != 'err ValueError':
            kind = 'port:bad-accepted'
            ctx.oracle_fail('C18:bad-port-not-rejected:%s' % ascii(p),
                            'port text %r is not a number in 0-65535 but %s parses to %s' % (p, uri, text), {'raw_uri': uri})
        else:
            kind = 'port:rejected'
        ctx.case(('p', p, auth), nontrivial=True, kind=kind)

    # ---- hostile raw URIs ---------------------------------------------------------------------
    raws = list(corpus.get('raw', []))
    n_raw = ctx.budget(15000, 250000)
    for _ in range(n_raw):
        if built and rng.random() < 0.35:
            raws.append(mutate(rng, built[rng.randint(0, len(built) - 1)]))
        else:
            raws.append(gen_raw(rng))
    for u in raws:
        text, t = parse_and_compare('_parseURI on raw URIs: model = DBConnection._parseURI', u, {'uri': short(u, 200)})
        ctx.case(('r', u), nontrivial=True, kind='raw:' + (text.split(' ')[0] if t is not None else text))
        if rng.random() < 0.15:
            add('unquote: model = urllib unquote', {'s': short(u, 200)}, 'unquote ' + enc(u), real_unquote(u))
        if rng.random() < 0.1:
            otext, _ = real_sopen(u)
            add('sqlite open: model file name = SQLiteConnection._connectionFromParams', {'uri': short(u, 200)},
                'sopen ' + enc(u), otext, parse_comparable(u))

    # ---- quote / unquote on their own ---------------------------------------------------------
    for _ in range(ctx.budget(4000, 60000)):
        s = rstr(rng, 10, pct=0.3)
        safe = rng.choice(['', '/', '/', ':/', "~!$&'()*+,;=:@", '\xe9/', 'a%', ' '])
        q = real_quote(s, safe)
        add('quote: model = urllib quote', {'s': short(s), 'safe': safe}, 'quote %s %s' % (enc(safe), enc(s)), q)
        add('unquote: model = urllib unquote', {'s': short(s)}, 'unquote ' + enc(s), real_unquote(s))
        if q.startswith('ok '):
            qs = env()['dbconnection'].quote(s, safe=safe)
            back = env()['dbconnection'].unquote(qs)
            if '%' not in safe and back != s:
                ctx.oracle_fail('C18:unquote-quote:%s' % ascii(s), 'unquote(quote(%s, safe=%r)) = %s' % (short(s), safe, short(back)),
                                {'string': s, 'safe': safe})
        ctx.case(('q', s, safe), nontrivial=nontrivial_str(s), kind='quote')

    # ---- model answers for what is left ------------------------------------------------------
    flush()


def replay(case):
    env()

    class C(object):
        fails = []

        def oracle_fail(self, key, what, case):
            self.fails.append((key, what))
    c = C()
    C.fails = []
    if 'cache_history' in case:
        h = case['cache_history']
        what = history_problem(h['kind'], h['n'], h.get('global', False))
        return what is None, ('a %s database opened by URI, %d other distinct URIs, its URI again (%s opener): %s'
                              % (h['kind'], h['n'], 'process-wide' if h.get('global') else 'private', what or 'the same database'))
    if 'multi_open' in case:
        pr = run_multi_open(case['multi_open'])
        return not pr, 'opened in this order: %s\n%s' % (json.dumps(case['multi_open'], ensure_ascii=True),
                                                          '\n'.join(w for _, w in pr) or 'every URI addressed its own file')
    if 'opener_kwargs' in case:
        if 'sqlite_filename' in case:
            uri, err = real_suri(case['sqlite_filename'])
        else:
            gc = {k: case[k] for k in ('scheme', 'user', 'pw', 'host', 'port', 'db')}
            uri, err = real_guri(gc)
        t0 = real_parse(uri)[1]
        clear_opener()
        check_params_oracle(c, {}, uri, t0[:5], case['opener_inline'], case['opener_kwargs'])
        return not c.fails, 'reported URI: %r\ninline parameters %r, keyword parameters %r\n%s' % (
            uri, case['opener_inline'], case['opener_kwargs'], '\n'.join(w for _, w in c.fails) or 'parameters came back exactly')
    if 'sqlite_filename' in case:
        fn = case['sqlite_filename']
        uri, err = real_suri(fn)
        text, t = real_parse(uri) if uri is not None else (err, None)
        otext, ofile = real_sopen(uri) if uri is not None else (err, None)
        ok = t is not None and ofile == fn
        return ok, 'file name   : %r\nreported URI: %r\n_parseURI   : %s\nopened file : %r' % (fn, uri, text, ofile)
    if 'raw_uri' in case:
        text, t = real_parse(case['raw_uri'])
        return text == 'err ValueError', 'URI      : %r\n_parseURI: %s   (expected ValueError)' % (case['raw_uri'], text)
    if 'sqlite_constructor' in case:
        constructor_oracle(c, case['sqlite_constructor'])
        return not c.fails, '\n'.join(w for _, w in c.fails) or 'SQLiteConnection(%r) keeps the name, also through its URI' % case['sqlite_constructor']
    if 'sqlite_file_label' in case:
        with Scratch() as sc:
            scratch_layout(sc.dir)
            path, uri = same_file_oracle(c, sc.dir, case['sqlite_file_label'])
        return not c.fails, 'file <scratch>/%s\nreported URI: %r\n%s' % (case['sqlite_file_label'], uri,
                                                                         '\n'.join(w for _, w in c.fails) or 'same file')
    if 'string' in case:
        q = env()['dbconnection'].quote(case['string'], safe=case['safe'])
        b = env()['dbconnection'].unquote(q)
        return b == case['string'], 'quote: %r\nunquote: %r' % (q, b)
    gc = {k: case[k] for k in ('scheme', 'user', 'pw', 'host', 'port', 'db')}
    if case.get('no_user_attr'):
        gc['no_user_attr'] = True
    if case.get('charset') is not None:
        gc['charset'] = case['charset']
    uri, err = real_guri(gc)
    check_generic_oracle(c, gc, uri, err)
    text = real_parse(uri)[0] if uri is not None else err
    return not c.fails, 'components  : %r\nreported URI: %r\n_parseURI   : %s\n%s' % (gc, uri, text, '\n'.join(w for _, w in c.fails))
