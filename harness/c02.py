"""C02 — SQL literals are injection-proof: each value renders as exactly one literal.

correspondence: Lean `renderString`/`render`/`insertSQL`/`updateSQL`/`columnClause` = the text the real
`sqlrepr` / `DBAPI._insertSQL` / `_SO_update` / `_SO_columnClause` produce (7 dialects); Lean reference
lexer for SQLite = what the real SQLite returns for `SELECT <literal>`.
oracle (no model involved): the rendered literal, decoded with the dialect's lexical rules (python
transcription of the documented rules; real SQLite for sqlite), gives back exactly the value — in several
trailing contexts — or the statement is refused; assembled statements tokenise to the expected skeleton with
one literal per value; INSERT + SELECT on the real SQLite returns the value and leaves one row.
"""
import datetime
import decimal
import itertools
import math
import struct
import re
import sqlite3

from vlib import sqlo

PROP = 'C02'
META = {
    'extractors': ['lex', 'pylex'],
    'technique': 'Lean 4 proof (induction over the string / value list) over extracted escape tables + reference lexers + differential correspondence + TRANSLATOR tie (pylex.py: the Python AST of the converters / sqlrepr / statement assemblers is translated into the PyLex deep embedding on every run and proved equal to the hand model by symbolic execution, C02_translated_*)',
    'level_text': ('Theorems C02_*: for all 7 dialects and every string (any code points), the literal StringLikeConverter renders '
                   '(extracted replacement table, dialect tuples and E-prefix rule) is lexed by the dialect\'s reference lexer as ONE '
                   'token that decodes to exactly the string, whatever follows (not a quote); NUL is refused where the backend cannot '
                   'hold it; int/bool/None/date/time/number/sequence renderings are single well-delimited token groups; INSERT / '
                   'UPDATE / WHERE statements assembled from the extracted formats tokenise to a skeleton independent of the data '
                   '(induction over the value list). Counter-theorem: on postgres a NUL followed by an octal digit is decoded as an '
                   'octal escape (silently altered).'),
    'level_note': ('Trusted: Lean kernel; extractor vlib/extractors/lex.py; the reference lexers for MySQL (default sql_mode), '
                   'PostgreSQL (standard_conforming_strings=on, E\'\' strings), Firebird/Sybase/MaxDB/MSSQL (ANSI quote doubling) '
                   'written from documentation, not executable here; SQLite lexer cross-checked by execution.'),
    'rule': ('cases = (dialect, value) and (dialect, statement kind, names, values); exhaustive strings of length <= 3 over a '
             '17-character metacharacter alphabet (thorough: length 4 over 12 of them) x 7 dialects, seeded random full-range unicode strings, typed values, statements; '
             'LIKE clauses (one expression object rendered for all dialects in varying order, executed on SQLite after a foreign rendering); '
             'RelatedJoin add/remove/accessor, FK / id comparisons, get / selectBy / update / destroySelf on classes with STRING primary keys '
             '(each op also on a benign-id twin; statements compared by token skeleton, link rows by raw SELECT); '
             'distinct = distinct (dialect, value/statement); non-trivial = the value contains a metacharacter or is not a plain string'),
    'trusted': ['reference string lexers mysql / postgres E\'\' / ANSI (Model/Lex.lean lexBody, python transcription in harness/c02.py)',
                'reference statement tokenizer (Model/Lex.lean tokens): words, punctuation, string literals; comments and '
                'quoted identifiers outside literals are refused, not modelled'],
    'modelled': ['SQLite lexer and sqlite3 driver NUL rejection (executed, not verified)',
                 'repr(float), Decimal.to_eng_string: text produced by CPython; the oracle checks that the rendered literal reads back (correctly rounded float() / Decimal()) as exactly the value; the Lean model uses only its token shape',
                 'SQLite 3.40.1 decimal->double parsing is within 1 ulp, not correctly rounded (about 1e-4 of random doubles come back 1 ulp off on the unchanged tree)',
                 'non-finite floats render as the bare words inf / -inf / nan (baseline): not numeric literals, refused by SQLite (no such column)',
                 'raw NUL inside a firebird/sybase/maxdb/mssql/postgres statement is modelled as refused (C-string client APIs)'],
    'assumptions': ['TRANSLATED source (vlib/extractors/pylex.py -> Extracted/PyLex.lean, semantics Model/PyLex.lean, interface Model/LexX.lean): StringLikeConverter, '
                    'quote_str, unquote_str, Int/Bool/None/Float/Sequence/Date/Time/DateTime converters, sqlrepr, SQLObject.__sqlrepr__, DBAPI.sqlrepr/_insertSQL/_SO_update are '
                    'translated from the AST on every run and proved equal to the hand model for all inputs (C02_translated_*; DecimalConverter with Decimal.to_eng_string() as an opaque interface call, TimedeltaConverter as its format text — the model has no timedelta kind; StructTimeConverter not translated: time.strftime); DBAPI._SO_columnClause is NOT translated in PyLex (C11 proves it in the PyQuery embedding for None / int / instance values only) (its final '
                    'join is extracted as data by lex.py; kw/dict handling hand-modelled + statement streams); assumed interface: exact-class converter registry (extracted '
                    'registerConverter table, Python 3 branch, optional third-party types absent), which classes have __sqlrepr__, repr(float) is opaque text; the CPython '
                    'semantics of str.replace / in / % (%s %d %0Nd) / join / repr(int) are built into the embedding and cross-checked only through the text-equality streams',
                    'PostgreSQL runs with standard_conforming_strings=on (default since 9.1), MySQL without NO_BACKSLASH_ESCAPES and ANSI_QUOTES',
                    'ENUM/CHECK DDL: the literal list is the sequence rendering (theorem C02_enum_literal_list); the surrounding column type text is checked by tokenising the real EnumCol type methods and by createTable + inserts on SQLite (its grammar is C14)'],
    'exhaustive': False,
}

_NUM = re.compile(r'^(-?)([0-9A-Za-z.]+)(?:([+-])([0-9A-Za-z.]+))?$')
DIALECTS = ['sqlite', 'mysql', 'postgres', 'firebird', 'sybase', 'maxdb', 'mssql']
META_ALPHABET = ["'", '\\', '\x00', '\n', '\r', '\t', '\b', '\x1a', '%', '_', ';', '-', '/', '*', '1', '"', 'E']
KEY_INST = 'C02:sqlobject-instance-with-str-id-renders-bare-unquoted-id'
KEY_PG_OCTAL = 'C02:postgres:NUL-followed-by-octal-digit-decodes-as-octal-escape'



_seen_keys = {}


def class_fail(ctx, key, what, case, limit=4):
    """report a failure of a recorded CLASS key at most `limit` times per run (the framework keeps 200 failures per run;
    a class that fires on hundreds of generated cases must not crowd out the sections that run later)"""
    n = _seen_keys.get((id(ctx), ctx.deep, key), 0)
    _seen_keys[(id(ctx), ctx.deep, key)] = n + 1
    if n < limit:
        ctx.oracle_fail(key, what, case)
    else:
        ctx.count('repeat of ' + key)


# ------------------------------------------------------------------ encoding for the driver
def enc(s):
    return '.'.join('%x' % ord(c) for c in s) if s else '-'


def dec(h):
    return '' if h == '-' else ''.join(chr(int(x, 16)) for x in h.split('.'))


# ------------------------------------------------------------------ reference lexers (python transcription of the spec)
def _is_oct(c):
    return '0' <= c <= '7'


_MYSQL = {'0': '\x00', 'b': '\b', 'n': '\n', 'r': '\r', 't': '\t', 'Z': '\x1a', '%': '\\%', '_': '\\_'}
_PG = {'b': '\b', 'f': '\f', 'n': '\n', 'r': '\r', 't': '\t'}


def ref_lex_body(mode, t, i):
    """t[i:] is the text after the opening quote -> (decoded, index after the closing quote) or None"""
    out = []
    n = len(t)
    while True:
        if i >= n:
            return None
        c = t[i]
        if c == "'":
            if i + 1 < n and t[i + 1] == "'":
                out.append("'")
                i += 2
                continue
            return ''.join(out), i + 1
        if c == '\x00':
            return None
        if c == '\\' and mode != 'ansi':
            if i + 1 >= n:
                return None
            e = t[i + 1]
            if mode == 'mysql':
                out.append(_MYSQL.get(e, e))
                i += 2
                continue
            if _is_oct(e):
                j = i + 2
                v = int(e)
                while j < n and j < i + 4 and _is_oct(t[j]):
                    v = v * 8 + int(t[j])
                    j += 1
                if v % 256 == 0 or v >= 128:
                    return None
                out.append(chr(v))
                i = j
                continue
            if e in _PG:
                out.append(_PG[e])
            elif e in "xuU'":
                return None
            else:
                out.append(e)
            i += 2
            continue
        out.append(c)
        i += 1


def ref_lex(d, t):
    """reference lexer for one literal at the head of t -> (decoded, rest) | None"""
    if t[:1] == "'":
        r = ref_lex_body('mysql' if d == 'mysql' else 'ansi', t, 1)
    elif d == 'postgres' and t[:1] in 'Ee' and t[1:2] == "'":
        r = ref_lex_body('pgE', t, 2)
    else:
        return None
    if r is None:
        return None
    return r[0], t[r[1]:]


def _is_word(c):
    return c.isascii() and (c.isalnum() or c in '_.') or ord(c) >= 128


def ref_tokens(d, t):
    """reference statement tokenizer -> list of ('S', text) / ('W', text) / ('P', char) | None"""
    out = []
    i = 0
    n = len(t)
    while i < n:
        c = t[i]
        if c in ' \t\n\r\f':
            i += 1
        elif c == "'" or (d == 'postgres' and c in 'Ee' and t[i + 1:i + 2] == "'"):
            r = ref_lex(d, t[i:])
            if r is None:
                return None
            out.append(('S', r[0]))
            i = n - len(r[1])
        elif _is_word(c):
            j = i
            while j < n and _is_word(t[j]):
                j += 1
            if t[j:j + 1] == "'":
                return None
            out.append(('W', t[i:j]))
            i = j
        elif c in '\x00"`#$\\':
            return None
        elif t[i:i + 2] in ('--', '/*'):
            return None
        else:
            out.append(('P', c))
            i += 1
    return out


def show_toks(ts):
    if ts is None:
        return 'none'
    if not ts:
        return 'empty'
    return ' '.join(k + (enc(v) if k != 'P' else '%x' % ord(v)) for k, v in ts)


# ------------------------------------------------------------------ real code
_env = {}


def env():
    if _env:
        return _env
    sqlo.setup()
    from sqlobject import SQLObject, StringCol, IntCol
    from sqlobject.dbconnection import DBAPI
    from sqlobject import sqlbuilder
    conn = sqlo.mem_conn()

    class Stub(object):
        def __init__(self, dbName):
            self.dbName = dbName
            self.sent = []

        def sqlrepr(self, v):
            return DBAPI.sqlrepr(self, v)

        def query(self, s):
            self.sent.append(s)

    cls = type(sqlo.uniq('C02T'), (SQLObject,), {'_connection': conn, 'sa': StringCol(default=None),
                                                 'sb': StringCol(default=None), 'n': IntCol(default=None)})
    cls.createTable()
    raw = sqlite3.connect(':memory:')
    raw.execute('CREATE TABLE t (a TEXT, b TEXT)')
    _env.update(conn=conn, Stub=Stub, DBAPI=DBAPI, cls=cls, raw=raw, sqlbuilder=sqlbuilder)
    return _env


def impl_sqlrepr(v, d):
    from sqlobject.converters import sqlrepr
    try:
        return sqlrepr(v, d)
    except Exception as e:
        return 'error:%s' % type(e).__name__


def sqlite_select(lit):
    try:
        row = env()['raw'].execute('SELECT ' + lit).fetchone()
        return row[0]
    except (sqlite3.Error, ValueError) as e:
        return None


# ------------------------------------------------------------------ values
class V(object):
    """a generated value: python object + driver spec + expected tokens (oracle side)"""
    def __init__(self, py, spec, toks, plain=False):
        self.py, self.spec, self.toks, self.plain = py, spec, toks, plain


def v_str(s):
    return V(s, 'S:' + enc(s), lambda d: None if ('\x00' in s and d != 'mysql') else [('S', s)],
             plain=s.isalnum())


def v_int(i):
    return V(i, 'I:%d' % i, lambda d: ([('P', '-')] if i < 0 else []) + [('W', str(abs(i)))])


def v_bool(b):
    return V(b, 'B:%d' % b, lambda d: [('S', 't' if b else 'f')] if d == 'postgres' else [('W', '1' if b else '0')])


def v_none():
    return V(None, 'N', lambda d: [('W', 'NULL')])


def v_date(x):
    return V(x, 'D:%d-%d-%d' % (x.year, x.month, x.day), lambda d: [('S', '%04d-%02d-%02d' % (x.year, x.month, x.day))])


def v_time(x):
    return V(x, 'T:%d-%d-%d-%d' % (x.hour, x.minute, x.second, x.microsecond),
             lambda d: [('S', '%02d:%02d:%02d.%06d' % (x.hour, x.minute, x.second, x.microsecond))])


def v_datetime(x):
    return V(x, 'DT:%d-%d-%d-%d-%d-%d-%d' % (x.year, x.month, x.day, x.hour, x.minute, x.second, x.microsecond),
             lambda d: [('S', '%04d-%02d-%02d %02d:%02d:%02d.%06d'
                         % (x.year, x.month, x.day, x.hour, x.minute, x.second, x.microsecond))])


def v_num(x):
    text = repr(x) if isinstance(x, float) else x.to_eng_string()
    m = _NUM.match(text)
    if not m:      # a shape the model has no constructor for: the oracle reports it, the model gets the nearest thing
        return V(x, 'F:0:%s:-:-' % enc(text), lambda d: 'numeric')
    return V(x, 'F:%d:%s:%s:%s' % (bool(m.group(1)), enc(m.group(2)), enc(m.group(3) or ''), enc(m.group(4) or '')),
             lambda d: 'numeric')


def v_seq(items, as_list):
    def toks(d):
        out = [('P', '(')]
        for k, it in enumerate(items):
            t = it.toks(d)
            if t is None:
                return None
            if t == 'numeric':
                t = ref_tokens(d, impl_sqlrepr(it.py, d))
            if k:
                out.append(('P', ','))
            out += t
        return out + [('P', ')')]
    py = [it.py for it in items]
    return V(py if as_list else tuple(py), 'L( ' + ''.join(it.spec + ' ' for it in items) + ')', toks)


def rand_string(rng, maxlen=8):
    n = rng.randint(0, maxlen)
    kind = rng.random()
    out = []
    for _ in range(n):
        r = rng.random()
        if kind < 0.35 or r < 0.3:
            out.append(rng.choice(META_ALPHABET))
        elif r < 0.55:
            out.append(chr(rng.randint(32, 126)))
        elif r < 0.65:
            out.append(chr(rng.randint(0, 31)))
        else:
            while True:
                cp = rng.choice([rng.randint(128, 0x7ff), rng.randint(0x800, 0xffff), rng.randint(0x10000, 0x10ffff)])
                if not 0xd800 <= cp <= 0xdfff:
                    break
            out.append(chr(cp))
    return ''.join(out)


def rand_value(rng, depth=0):
    r = rng.random()
    if r < 0.35:
        return v_str(rand_string(rng, 5))
    if r < 0.5:
        return v_int(rng.choice([0, 1, -1, 7, -42, 10 ** 18, -2 ** 63, 2 ** 64, rng.randint(-10 ** 6, 10 ** 6)]))
    if r < 0.56:
        return v_bool(rng.random() < 0.5)
    if r < 0.62:
        return v_none()
    if r < 0.68:
        return v_date(datetime.date(rng.choice([1, 999, 1970, 2024, 9999]), rng.randint(1, 12), rng.randint(1, 28)))
    if r < 0.74:
        return v_time(datetime.time(rng.randint(0, 23), rng.randint(0, 59), rng.randint(0, 59),
                                    rng.choice([0, 1, 999999, rng.randint(0, 999999)])))
    if r < 0.80:
        return v_datetime(datetime.datetime(rng.choice([1, 999, 1970, 2024, 9999]), rng.randint(1, 12), rng.randint(1, 28),
                                            rng.randint(0, 23), rng.randint(0, 59), rng.randint(0, 59),
                                            rng.choice([0, 1, 999999, rng.randint(0, 999999)])))
    if r < 0.88 or depth >= 2:
        if rng.random() < 0.5:
            return v_num(rng.choice([0.0, -0.0, 1.5, -2.25e-7, 1e16, 1e22, float('inf'), float('-inf'), float('nan'),
                                     rng.random() * 10 ** rng.randint(-9, 9)]))
        return v_num(decimal.Decimal(rng.choice(['0', '-0', '1.50', '1E+3', '-1.2E-9', 'NaN', 'Infinity', '-Infinity',
                                                 '123456789.000000001', '0E-7'])))
    return v_seq([rand_value(rng, depth + 1) for _ in range(rng.randint(0, 4))], rng.random() < 0.5)


IDENTS = ['t', 'person', 'a', 'b', 'first_name', 'id', 'tbl.col', 'x1', 'E', 'e', 'N', 'T_9']
TRAILERS = ['', ')', ', 1)', " AND b = 'z'", ' -- x', "\n'", ' ;', "E'"]


# ------------------------------------------------------------------ the run
def check_string(ctx, d, s, model_line):
    """one (dialect, string): correspondence + oracle"""
    lit = impl_sqlrepr(s, d)
    desc = {'dialect': d, 'string': enc(s)}
    nontrivial = not s.isalnum()
    ctx.case((d, s), nontrivial=nontrivial, sample={'case': desc, 'literal': lit},
             kind='str:%s' % ('meta' if nontrivial else 'plain'))
    if model_line is not None:
        mlit, mlex = model_line.split(' ') if ' ' in model_line else (model_line, '')
        ctx.compare('sqlrepr(str, %s): model = code' % d, desc, mlit, enc(lit))
    # ---- oracle: decode with the dialect's rules in several trailing contexts
    nul = '\x00' in s
    verdicts = set()
    for tr in TRAILERS:
        r = ref_lex(d, lit + tr)
        if r is None:
            verdicts.add('refused')
        elif r == (s, tr):
            verdicts.add('ok')
        else:
            verdicts.add('altered')
            report_string_failure(ctx, d, s, lit, tr, r)
            break
    if 'refused' in verdicts and not (nul and d != 'mysql'):
        ctx.oracle_fail('C02:%s:refused:%s' % (d, enc(minimise(s, lambda x: ref_lex(d, impl_sqlrepr(x, d)) is None))),
                        'the %s literal %r for a representable string is refused by the reference lexer' % (d, lit), desc)
    if d == 'sqlite':
        got = sqlite_select(lit)
        want = None if nul else s
        if model_line is not None:
            m = mlex.split('/')[0] if mlex != 'none' else 'none'
            ctx.compare('SELECT <literal> on SQLite: reference lexer = engine', desc, m,
                        'none' if got is None else enc(got))
        if got != want:
            ctx.oracle_fail('C02:sqlite:select:%s' % enc(minimise(s, lambda x: sqlite_select(impl_sqlrepr(x, 'sqlite')) != (None if '\x00' in x else x))),
                            'SELECT %r on SQLite returns %r, expected %r' % (lit, got, want), desc)


def minimise(s, failing):
    """greedy character deletion keeping `failing(s)` true"""
    changed = True
    while changed:
        changed = False
        for i in range(len(s)):
            t = s[:i] + s[i + 1:]
            try:
                if failing(t):
                    s = t
                    changed = True
                    break
            except Exception:
                pass
    return s


def altered(d, s):
    lit = impl_sqlrepr(s, d)
    r = ref_lex(d, lit)
    return r is not None and r != (s, '')


def contains_altered(d, py):
    """some string inside the value is hit by a string-level defect (reported under its own key)"""
    if isinstance(py, str):
        return altered(d, py)
    if isinstance(py, (list, tuple)):
        return any(contains_altered(d, x) for x in py)
    return False


def report_string_failure(ctx, d, s, lit, tr, r):
    m = minimise(s, lambda x: altered(d, x)) if altered(d, s) else s
    if d == 'postgres' and len(m) == 2 and m[0] == '\x00' and _is_oct(m[1]):
        key = KEY_PG_OCTAL
        what = ("sqlrepr(%r, 'postgres') = %r: PostgreSQL reads \\0 followed by an octal digit as one octal escape, "
                "so the stored text differs from the value (silently altered instead of refused)" % (m, impl_sqlrepr(m, d)))
    else:
        key = 'C02:%s:altered:%s' % (d, enc(m))
        what = 'the %s literal %r followed by %r decodes to %r, not to the value %r' % (d, lit, tr, r, s)
    (class_fail if key == KEY_PG_OCTAL else ctx.oracle_fail)(*((ctx, key, what, {'dialect': d, 'string': enc(s), 'minimal': enc(m)}) if key == KEY_PG_OCTAL else (key, what, {'dialect': d, 'string': enc(s), 'minimal': enc(m)})))


def gen_strings(ctx):
    rng = ctx.rng
    out = ['', "'", "''", '\\', "\\'", "'\\", '\x00', '\x001', 'a\x007', '\x00\x00', "E'", "x' OR '1'='1", "'; DROP TABLE t; --",
           '\\\x00', "\\''", 'a\nb', '€', '\U0001f600', "\U0001f600'\\", '%_', '\x1a', '/*', '--', "'--", '\\n', '\\0']
    try:
        import os
        cdir = os.path.join(os.path.dirname(os.path.dirname(os.path.abspath(__file__))), 'corpus', 'C02')
        for f in sorted(os.listdir(cdir)):
            for line in open(os.path.join(cdir, f), encoding='utf-8'):
                line = line.split('#')[0].strip()
                if line:
                    out.append(dec(line))
    except OSError:
        pass
    for n in range(1, 4):
        for tup in itertools.product(META_ALPHABET, repeat=n):
            out.append(''.join(tup))
    if ctx.tier == 'thorough' or ctx.deep:
        core = ["'", '\\', '\x00', '\n', '\r', '1', 'E', '%', '_', '-', ';', '\x1a']
        for tup in itertools.product(core, repeat=4):
            out.append(''.join(tup))
    for _ in range(ctx.budget(2500, 120000)):
        out.append(rand_string(rng, rng.choice([4, 8, 8, 20])))
    return out


def run(ctx):
    e = env()
    rng = ctx.rng
    strings = gen_strings(ctx)
    # ------------------------------------------------ strings
    lines = ['s %s %s' % (d, enc(s)) for s in strings for d in DIALECTS]
    outs = ctx.model(lines)
    k = 0
    for s in strings:
        for d in DIALECTS:
            check_string(ctx, d, s, None if outs is None else outs[k])
            k += 1
    # the recorded finding's witness, replayed on the implementation every run
    if altered('postgres', '\x001'):
        report_string_failure(ctx, 'postgres', '\x001', impl_sqlrepr('\x001', 'postgres'), '', ref_lex('postgres', impl_sqlrepr('\x001', 'postgres')))
    # ------------------------------------------------ quote_str
    from sqlobject.converters import quote_str
    qs = [rand_string(rng, 5) for _ in range(300)] + ['', '\\', 'a', "E'"]
    lines = ['q %s %s' % (d, enc(s)) for s in qs for d in DIALECTS]
    outs = ctx.model(lines)
    if outs is not None:
        k = 0
        for s in qs:
            for d in DIALECTS:
                ctx.compare('quote_str: model = code', {'dialect': d, 'string': enc(s)}, outs[k], enc(quote_str(s, d)))
                k += 1
    # ------------------------------------------------ values
    vals = [v_int(0), v_int(-1), v_bool(True), v_bool(False), v_none(), v_seq([], False),
            v_seq([v_str("a'"), v_int(-3), v_none()], True), v_date(datetime.date(1, 1, 1)),
            v_datetime(datetime.datetime(9999, 12, 31, 23, 59, 59, 999999)), v_time(datetime.time(0, 0, 0, 0)),
            v_num(decimal.Decimal('1E+3')), v_num(float('inf')), v_num(-1e-7)]
    vals += [rand_value(rng) for _ in range(ctx.budget(1200, 40000))]
    lines = ['v %s %s' % (d, v.spec) for v in vals for d in DIALECTS]
    outs = ctx.model(lines)
    k = 0
    for v in vals:
        for d in DIALECTS:
            text = impl_sqlrepr(v.py, d)
            desc = {'dialect': d, 'value': v.spec}
            ctx.case((d, v.spec), nontrivial=not v.plain, kind='value:' + v.spec.split(':')[0].split('(')[0])
            got = ref_tokens(d, text + ' )')
            want = v.toks(d)
            if want == 'numeric':
                bad = [c for c in text if not (c.isascii() and (c.isalnum() or c in '.+-'))] or ('--' in text)
                if bad or got is None or any(t[0] == 'S' for t in got):
                    ctx.oracle_fail('C02:%s:numeric-text:%s' % (d, enc(text)),
                                    'numeric text %r is not a plain number token group' % text, desc)
                want = None if got is None else got[:-1]
            elif contains_altered(d, v.py):
                ctx.count('value:skipped (contains a string with the string-level defect)')
            else:
                if want is None:
                    bad = got is not None
                else:
                    bad = got is None or got[:-1] != want or got[-1] != ('P', ')')
                if bad:
                    ctx.oracle_fail('C02:%s:value-tokens:%s' % (d, v.spec),
                                    'sqlrepr gives %r whose tokens are %s, expected %s' % (text, show_toks(got), show_toks(want)), desc)
            if outs is not None:
                mtext, mtoks = outs[k].split(' | ')
                ctx.compare('sqlrepr(value, %s): model = code' % d, desc, mtext, enc(text))
                ctx.compare('tokens of a rendered value: model lexer = python transcription', desc, mtoks,
                            show_toks(ref_tokens(d, text)))
            k += 1
    # ------------------------------------------------ statements
    run_statements(ctx)
    run_sqlite_roundtrip(ctx, strings)
    run_like(ctx)
    run_strids(ctx)
    run_enum(ctx)
    run_floats(ctx)
    run_binaryish(ctx)
    run_windowed(ctx)
    run_decimal_cols(ctx)


def scalar_value(rng):
    while True:
        v = rand_value(rng, depth=2)
        if not isinstance(v.py, (list, tuple)):
            return v


def run_statements(ctx):
    e = env()
    rng = ctx.rng
    DBAPI, Stub, cls = e['DBAPI'], e['Stub'], e['cls']
    sb = e['sqlbuilder']

    class SoStub(object):
        pass
    cases = []
    for _ in range(ctx.budget(500, 20000)):
        kind = rng.choice(['ins', 'upd', 'whr', 'sb'])
        n = rng.randint(1, 4)
        names = [rng.choice(IDENTS) for _ in range(n)]
        vs = [scalar_value(rng) if rng.random() < 0.8 else v_str(rand_string(rng, 4)) for _ in range(n)]
        cases.append((kind, rng.choice(IDENTS), names, vs, rng.choice(IDENTS), v_int(rng.randint(1, 99))))
    lines = []
    for kind, table, names, vs, idn, idv in cases:
        for d in DIALECTS:
            if kind == 'ins':
                lines.append('ins %s %s %s %s' % (d, enc(table), ','.join(enc(n) for n in names), ' '.join(v.spec for v in vs)))
            elif kind == 'upd':
                lines.append('upd %s %s %s %s %s' % (d, enc(table), enc(idn), idv.spec,
                                                    ' '.join('%s %s' % (enc(n), v.spec) for n, v in zip(names, vs))))
            elif kind == 'whr':
                lines.append('whr %s %s' % (d, ' '.join('%s %s' % (enc(n), v.spec) for n, v in zip(['sa', 'sb', 'n'], wh_vals(vs)))))
            else:
                lines.append('t %s -' % d)
    outs = ctx.model(lines)
    k = 0
    sbobj = {}
    for kind, table, names, vs, idn, idv in cases:
        for d in DIALECTS:
            stub = Stub(d)
            desc = {'dialect': d, 'kind': kind, 'table': table, 'names': names, 'values': [v.spec for v in vs]}

            def lit_toks(v):
                t = v.toks(d)
                if t == 'numeric':
                    t = ref_tokens(d, impl_sqlrepr(v.py, d))
                return t
            try:
                if kind == 'ins':
                    sql = DBAPI._insertSQL(stub, table, names, [v.py for v in vs])
                    lt = [lit_toks(v) for v in vs]
                    want = None if any(t is None for t in lt) else (
                        [('W', 'INSERT'), ('W', 'INTO'), ('W', table), ('P', '(')]
                        + sum([[('P', ',')] * (i > 0) + [('W', n)] for i, n in enumerate(names)], [])
                        + [('P', ')'), ('W', 'VALUES'), ('P', '(')]
                        + sum([[('P', ',')] * (i > 0) + t for i, t in enumerate(lt)], []) + [('P', ')')])
                elif kind == 'upd':
                    so = SoStub()
                    so.sqlmeta = SoStub()
                    so.sqlmeta.table, so.sqlmeta.idName, so.id = table, idn, idv.py
                    DBAPI._SO_update(stub, so, list(zip(names, [v.py for v in vs])))
                    sql = stub.sent[-1]
                    lt = [lit_toks(v) for v in vs]
                    want = None if any(t is None for t in lt) else (
                        [('W', 'UPDATE'), ('W', table), ('W', 'SET')]
                        + sum([[('P', ',')] * (i > 0) + [('W', n), ('P', '='), ('P', '(')] + t + [('P', ')')]
                               for i, (n, t) in enumerate(zip(names, lt))], [])
                        + [('W', 'WHERE'), ('W', idn), ('P', '='), ('P', '(')] + idv.toks(d) + [('P', ')')])
                elif kind == 'whr':
                    wv = wh_vals(vs)
                    kw = dict(zip(['sa', 'sb', 'n'], [v.py for v in wv]))
                    sql = DBAPI._SO_columnClause(stub, cls, dict(kw))
                    lt = [lit_toks(v) for v in wv]
                    want = None if any(t is None for t in lt) else sum(
                        [[('W', 'AND')] * (i > 0) + [('W', n), ('W', 'IS') if v.py is None else ('P', '=')] + t
                         for i, (n, v, t) in enumerate(zip(['sa', 'sb', 'n'], wv, lt))], [])
                else:
                    # sqlbuilder Insert / Update / IN through sqlrepr: oracle only
                    vals = dict(zip(names, vs))
                    nm = sorted(vals)
                    ck = (id(names), id(vs))
                    if ck not in sbobj:      # ONE expression object per case, rendered for all 7 dialects (and twice)
                        sbobj.clear()
                        sbobj[ck] = sb.Update(table, values={n: vals[n].py for n in nm},
                                              where=sb.IN(sb.SQLConstant(idn), [v.py for v in vs]))
                    sql = impl_sqlrepr(sbobj[ck], d)
                    if impl_sqlrepr(sbobj[ck], d) != sql:
                        sql = 'error:rendering-not-repeatable'
                    lt = {n: lit_toks(vals[n]) for n in nm}
                    lv = [lit_toks(v) for v in vs]
                    want = None if any(t is None for t in list(lt.values()) + lv) else (
                        [('W', 'UPDATE'), ('W', table), ('W', 'SET')]
                        + sum([[('P', ',')] * (i > 0) + [('W', n), ('P', '=')] + lt[n] for i, n in enumerate(nm)], [])
                        + [('W', 'WHERE'), ('P', '('), ('P', '('), ('W', idn), ('P', ')'), ('W', 'IN'), ('P', '(')]
                        + sum([[('P', ',')] * (i > 0) + t for i, t in enumerate(lv)], []) + [('P', ')'), ('P', ')')])
            except Exception as ex:
                sql = 'error:%s' % type(ex).__name__
                want = 'error'
            ctx.case((d, kind, table, tuple(names), tuple(v.spec for v in vs)), kind='stmt:' + kind)
            got = ref_tokens(d, sql)
            if any(contains_altered(d, v.py) for v in vs):
                ctx.count('stmt:skipped (contains a string with the string-level defect)')
            elif want == 'error' or got != want:
                ctx.oracle_fail('C02:%s:statement-skeleton:%s' % (d, kind),
                                'the %s statement %r tokenises to %s, expected %s' % (kind, sql, show_toks(got),
                                                                                       want if want == 'error' else show_toks(want)), desc)
            if outs is not None and kind != 'sb':
                msql, mtoks = outs[k].split(' | ')
                ctx.compare('%s statement text (%s): model = code' % ({'ins': '_insertSQL', 'upd': '_SO_update', 'whr': '_SO_columnClause'}[kind], d),
                            desc, msql, enc(sql))
                ctx.compare('statement tokens: model lexer = python transcription', desc, mtoks, show_toks(got))
            k += 1


def wh_vals(vs):
    """values for the (sa, sb, n) columns of the real class: two strings/None and an int/None"""
    out = []
    for i in range(3):
        v = vs[i] if i < len(vs) else v_none()
        if i < 2:
            out.append(v if isinstance(v.py, str) or v.py is None else v_str(repr(v.py)[:6]))
        else:
            out.append(v if (isinstance(v.py, int) and not isinstance(v.py, bool) and abs(v.py) < 2 ** 62) or v.py is None else v_int(7))
    return out


def run_sqlite_roundtrip(ctx, strings):
    """INSERT through the real _insertSQL on the real SQLite; the row must hold the values and be alone"""
    e = env()
    raw = e['raw']
    stub = e['Stub']('sqlite')
    rng = ctx.rng
    sample = strings[:40] + [rng.choice(strings) for _ in range(ctx.budget(600, 20000))]
    for i in range(0, len(sample) - 1, 2):
        a, b = sample[i], sample[i + 1]
        sql = e['DBAPI']._insertSQL(stub, 't', ['a', 'b'], [a, b])
        raw.execute('DELETE FROM t')
        try:
            raw.execute(sql)
            rows = raw.execute('SELECT a, b FROM t').fetchall()
        except (sqlite3.Error, ValueError):
            rows = None
        want = None if ('\x00' in a or '\x00' in b) else [(a, b)]
        ctx.case(('rt', a, b), kind='sqlite-insert')
        if rows != want:
            ctx.oracle_fail('C02:sqlite:insert-roundtrip:%s,%s' % (enc(a), enc(b)),
                            'INSERT of (%r, %r) on SQLite leaves %r' % (a, b, rows), {'a': enc(a), 'b': enc(b)})



# ------------------------------------------------------------------ LIKE patterns as a statement position
LIKE_OPS = ['startswith', 'endswith', 'contains']
LIKE_CTRL = '\x00\x08\n\r\t'      # the C17 finding's class on mysql/postgres (reported there, skipped here)
Q = "'"


def fold(s):
    return ''.join(chr(ord(c) + 32) if 'A' <= c <= 'Z' else c for c in s)


def like_pred(op, a, s):
    a, s = fold(a), fold(s)
    return s.startswith(a) if op == 'startswith' else s.endswith(a) if op == 'endswith' else a in s


def like_q(a):
    return ''.join('\\' + c if c in '\\%_' else c for c in a)


def like_expr(op, a, col='t.c'):
    sb = env()['sqlbuilder']
    f = {'startswith': sb.STARTSWITH, 'endswith': sb.ENDSWITH, 'contains': sb.CONTAINSSTRING}[op]
    return f(sb.SQLConstant(col), a)


def like_want(op, a):
    pre = '' if op == 'startswith' else '%'
    post = '' if op == 'endswith' else '%'
    return [('P', '('), ('W', 't.c'), ('W', 'LIKE'), ('P', '('), ('S', pre + like_q(a) + post), ('P', ')'),
            ('W', 'ESCAPE'), ('S', '\\'), ('P', ')')]


def run_like(ctx):
    e = env()
    rng = ctx.rng
    raw = e['raw']
    from sqlobject.converters import sqlrepr
    args = [Q, Q * 2, Q * 3, Q + 'a', 'a' + Q, Q + 'a' + Q, Q * 2 + 'a' + Q * 2, 'a' + Q * 2 + 'b', Q + '%' + Q, '%' + Q, Q + '_',
            '\\' + Q, Q + '\\', Q + '\\' + Q, 'E' + Q, 'E' + Q * 2, 'e' + Q + 'x' + Q,
            '{', '}', '{{', '}}', '{}', '{0}', '{escape}', '{{name}}', '{"a": 1', 'x{{', '%(x)s', '%s', '%%',
            '', 'a', '%', '_', '\\', 'ab', "x' OR '1'='1", "' --", "');--", 'A', '"', "'\n'", '\n']
    quote_heavy = [Q, Q, 'a', 'b', '%', '_', '\\', 'E', '"', ' ']
    for _ in range(ctx.budget(250, 6000)):
        n = rng.choice([1, 2, 2, 3, 3, 4, 5])
        if rng.random() < 0.7:
            args.append(''.join(rng.choice(quote_heavy) for _ in range(n)))
        else:
            args.append(rand_string(rng, n))
    # stored rows (bound parameters, no SQL text involved)
    rows = set(['', Q, Q * 2, Q * 3, 'a', 'a' + Q, Q + 'a', "a'b", '%', '_', '\\', 'x', 'ab', Q * 2 + 'a' + Q * 2, 'A', 'B', 'x' + Q,
                Q + 'x', '"'])
    for a in args:
        if '\x00' not in a:
            rows.update([a, a + 'x', 'x' + a, 'x' + a + 'y'])
    rows = sorted(rows)
    raw.execute('CREATE TABLE IF NOT EXISTS lk (c TEXT)')
    raw.execute('DELETE FROM lk')
    raw.executemany('INSERT INTO lk VALUES (?)', [(r,) for r in rows])
    lines = ['like %s %s %s' % (d, op, enc(a)) for a in args for op in LIKE_OPS for d in DIALECTS]
    outs = ctx.model(lines)
    k = 0
    for i, a in enumerate(args):
        for j, op in enumerate(LIKE_OPS):
            # ONE expression object rendered for every dialect, in an order that varies, twice
            obj = like_expr(op, a)
            order = DIALECTS[(i + j) % 7:] + DIALECTS[:(i + j) % 7]
            if (i + j) % 2:
                order.reverse()
            first = {}
            for d in order + order:
                try:
                    t = sqlrepr(obj, d)
                except Exception as ex:
                    t = 'error:%s' % type(ex).__name__
                if d in first and first[d] != t:
                    ctx.oracle_fail('C02:like:%s:rendering-not-repeatable' % op,
                                    'the same %s(%r) expression object renders %r and then %r for %s (order %s)'
                                    % (op, a, first[d], t, d, order), {'op': op, 'arg': enc(a), 'dialect': d})
                first.setdefault(d, t)
            for d in DIALECTS:
                clause = first[d]
                desc = {'dialect': d, 'op': op, 'arg': enc(a), 'render_order': order}
                ctx.case(('like', d, op, a), nontrivial=any(c in a for c in "'\\%_"), kind='like:' + op)
                try:
                    fresh = sqlrepr(like_expr(op, a), d)
                except Exception as ex:
                    fresh = 'error:%s' % type(ex).__name__
                if fresh != clause:
                    ctx.oracle_fail('C02:like:%s:depends-on-earlier-rendering' % op,
                                    '%s(%r) rendered for %s after %s gives %r, a fresh expression gives %r'
                                    % (op, a, d, order[:order.index(d)], clause, fresh), desc)
                toks = ref_tokens(d, clause)
                if outs is not None:
                    mtext, mtoks = outs[k].split(' | ')
                    ctx.compare('LIKE clause text (%s): model = code' % d, desc, mtext, enc(fresh))
                    ctx.compare('LIKE clause tokens: model lexer = python transcription', desc, mtoks,
                                show_toks(ref_tokens(d, fresh)))
                k += 1
                want = like_want(op, a)
                if '\x00' in a and d not in ('mysql', 'postgres'):
                    ok = toks is None          # refused
                elif d in ('mysql', 'postgres') and any(c in LIKE_CTRL for c in a):
                    # C17's recorded finding (pattern content wrong); here only: still ONE literal in the right skeleton
                    ok = toks is not None and [t if t[0] != 'S' else 'S' for t in toks] == [t if t[0] != 'S' else 'S' for t in want]
                else:
                    ok = toks == want
                if not ok:
                    def bad(x):
                        if '\x00' in x or any(c in LIKE_CTRL for c in x):
                            return False
                        return ref_tokens(d, sqlrepr(like_expr(op, x), d)) != like_want(op, x)
                    m = minimise(a, bad) if bad(a) else a
                    ctx.oracle_fail('C02:%s:like-pattern:%s:arg=%s' % (d, op, enc(m)),
                                    'the clause %r of %s(%r) tokenises to %s, expected ( t.c LIKE ( <%r> ) ESCAPE <\\> )'
                                    % (clause, op, a, show_toks(toks), want[4][1]), desc)
            # ---- executed on the real SQLite, with an object that was rendered for another dialect before
            if '\x00' in a:
                continue
            eobj = like_expr(op, a, 'lk.c')
            try:
                sqlrepr(eobj, ['mysql', 'postgres', 'mssql'][(i + j) % 3])
                got = set(r[0] for r in raw.execute('SELECT c FROM lk WHERE ' + sqlrepr(eobj, 'sqlite')).fetchall())
            except (sqlite3.Error, ValueError) as ex:
                got = 'error:%s' % type(ex).__name__
            want_rows = set(r for r in rows if like_pred(op, a, r))
            ctx.case(('like-exec', op, a), kind='like-exec')
            if got != want_rows:
                def badx(x):
                    try:
                        o = like_expr(op, x, 'lk.c')
                        sqlrepr(o, ['mysql', 'postgres', 'mssql'][(i + j) % 3])
                        g = set(r[0] for r in raw.execute('SELECT c FROM lk WHERE ' + sqlrepr(o, 'sqlite')).fetchall())
                    except (sqlite3.Error, ValueError):
                        return '\x00' not in x
                    return g != set(r for r in rows if like_pred(op, x, r))
                m = minimise(a, badx) if badx(a) else a
                diff = got if isinstance(got, str) else sorted(got ^ want_rows)[:4]
                ctx.oracle_fail('C02:sqlite:like-rows:%s:arg=%s' % (op, enc(m)),
                                '%s(%r) executed on SQLite (expression rendered for another dialect first): rows differ from '
                                'the literal predicate: %r' % (op, a, diff), {'dialect': 'sqlite', 'op': op, 'arg': enc(a)})


# ------------------------------------------------------------------ string primary keys: link tables, FK / id comparisons
_sid = {}


def strid_env():
    if _sid:
        return _sid
    sqlo.setup()
    from sqlobject import SQLObject, StringCol, IntCol, ForeignKey, RelatedJoin, MultipleJoin
    from sqlobject.sqlite.sqliteconnection import SQLiteConnection
    log = []

    class LogConn(SQLiteConnection):
        def _executeRetry(self, conn, cursor, query):
            log.append(query)
            return SQLiteConnection._executeRetry(self, conn, cursor, query)
    conn = LogConn(':memory:')
    conn.cache.kw['cullFrequency'] = 10 ** 9      # no culling: which SELECTs are sent must not depend on a get counter
    dn, tn, nn, im, pn = (sqlo.uniq('C02Doc'), sqlo.uniq('C02Tag'), sqlo.uniq('C02Note'), sqlo.uniq('C02Item'),
                          sqlo.uniq('C02Plain'))

    def meta():
        return type('sqlmeta', (), {'idType': str})
    from sqlobject import SQLRelatedJoin, SQLMultipleJoin
    from sqlobject.joins import ManyToMany, OneToMany
    from sqlobject.styles import MixedCaseUnderscoreStyle
    st = MixedCaseUnderscoreStyle()
    dt, tt = st.pythonClassToDBTable(dn), st.pythonClassToDBTable(tn)
    lk = '_'.join(sorted([dt, tt]))
    # every flavour of join shares ONE link table / ONE foreign key, so that one expectation serves all accessors
    Doc = type(dn, (SQLObject,), {'_connection': conn, 'sqlmeta': meta(), 'title': StringCol(default=None),
                                  'tags': RelatedJoin(tn), 'notes': MultipleJoin(nn, joinColumn='doc_id'),
                                  'stags': SQLRelatedJoin(tn, createRelatedTable=False, addRemoveName='Stag'),
                                  'snotes': SQLMultipleJoin(nn, joinColumn='doc_id'),
                                  'mtags': ManyToMany(tn, intermediateTable=lk, joinColumn=dt + '_id', otherColumn=tt + '_id',
                                                      createJoinTable=False),
                                  'onotes': OneToMany(nn, joinColumn='doc_id')})
    Tag = type(tn, (SQLObject,), {'_connection': conn, 'sqlmeta': meta(), 'name': StringCol(default=None),
                                  'docs': RelatedJoin(dn),
                                  'sdocs': SQLRelatedJoin(dn, createRelatedTable=False, addRemoveName='Sdoc'),
                                  'mdocs': ManyToMany(dn, intermediateTable=lk, joinColumn=tt + '_id', otherColumn=dt + '_id',
                                                      createJoinTable=False)})
    Note = type(nn, (SQLObject,), {'_connection': conn, 'doc': ForeignKey(dn, default=None), 'body': StringCol(default=None)})
    Item = type(im, (SQLObject,), {'_connection': conn, 'sqlmeta': meta(), 'name': StringCol(default=None)})
    Plain = type(pn, (SQLObject,), {'_connection': conn, 'n': IntCol(default=None)})
    for c in (Doc, Tag, Note, Item, Plain):
        c.createTable()
    join = [j for j in Doc.sqlmeta.joins if j.joinMethodName == 'tags'][0]
    assert (join.intermediateTable, join.joinColumn, join.otherColumn) == (lk, dt + '_id', tt + '_id')
    _sid.update(conn=conn, log=log, Doc=Doc, Tag=Tag, Note=Note, Item=Item, Plain=Plain, link=join.intermediateTable,
                lcols=(join.joinColumn, join.otherColumn))
    return _sid


ID_PIECES = [Q, Q * 2, ')', '(', ' ', '--', ';', '"', '\\', '%', '_', 'x', 'OR', '1=1', '0', 'a', 'E', ',', '=', '/*', '*/',
             '\xe9', '\U0001f600', '\n', 'NULL', '-']
ID_CORPUS = ["0) OR (1=1", "x' OR '1'='1", "a'); DELETE FROM t; --", Q, Q * 2, "a b", "--", ";", "1=1", "x)", "(y", 'E' + Q + 'q',
             "\\", "%"]


def looks_numeric(s):
    try:
        float(s.strip())
        return True
    except ValueError:
        return s.strip() == ''


ID_NUMERIC = ['007', '1e3', '+5', ' 12', '1.0', '-0', '12 ', '.5', '5.', '1e-2', '00', '9007199254740993', '-7', '0.10']
LINK_KINDS = ('add', 'radd', 'remove', 'rremove', 'tags', 'docs', 'sqlrelatedjoin-accessor', 'manytomany-accessor', 'manytomany-add',
              'manytomany-remove')
KEY_LINK_INT = 'C02:sqlite:str-id:link-table-columns-declared-INT-alter-numeric-looking-keys'


def rand_id(rng, numeric_ok=False):
    if numeric_ok and rng.random() < 0.5:
        return rng.choice(ID_NUMERIC)
    s = rng.choice(ID_CORPUS) if rng.random() < 0.3 else ''.join(rng.choice(ID_PIECES) for _ in range(rng.randint(1, 4)))
    return s + 'q' if looks_numeric(s) else s


def skeleton(d, sql, idmap):
    """tokens with every string literal mapped through idmap (twin id -> real id)"""
    ts = ref_tokens(d, sql)
    if ts is None:
        return None
    return [(k, idmap.get(v, v)) if k == 'S' else (k, '#') if k == 'W' and v.isdigit() else (k, v) for k, v in ts]   # '#': autoincrement ids


STRID_OPS = ('sqlrelatedjoin-accessor', 'sqlrelatedjoin-accessor-other-side', 'manytomany-accessor', 'sqlmultiplejoin-accessor',
             'onetomany-accessor', 'note', 'notes', 'selfk', 'selfkobj', 'selby', 'get', 'selid', 'upd', 'selbyid', 'infk', 'selobj', 'inobj', 'destroy')


def run_strids(ctx):
    e = strid_env()
    rng = ctx.rng
    conn, log, Doc, Tag, Note, Item, Plain = e['conn'], e['log'], e['Doc'], e['Tag'], e['Note'], e['Item'], e['Plain']
    link, (c1, c2) = e['link'], e['lcols']
    from sqlobject.converters import sqlrepr
    from sqlobject import sqlbuilder as sb

    def raw(q):
        return conn.queryAll(q)

    def lkey(r):
        return tuple((type(x).__name__, str(x)) for x in r)

    def links():
        return sorted(raw('SELECT %s, %s FROM %s' % (c1, c2, link)), key=lkey)
    insts = []
    for rnd in range(ctx.budget(40, 1500)):
        for t in (link, Doc.sqlmeta.table, Tag.sqlmeta.table, Note.sqlmeta.table, Item.sqlmeta.table):
            conn.query('DELETE FROM %s' % t)
        conn.cache.clear()
        nd, nt = rng.randint(1, 3), rng.randint(1, 3)
        ids = []
        while len(ids) < nd + nt + 1:
            # string keys that LOOK like numbers in a non-canonical form ('007', '1e3', '+5'): a key column that is not declared
            # TEXT silently turns them into other values.  Round 1 always has them, later rounds sometimes.
            numeric_round = rnd == 1 or (rnd > 6 and rnd % 4 == 0)
            x = ID_CORPUS[(rnd * 3 + len(ids)) % len(ID_CORPUS)] if rnd < 6 and rnd != 1 and len(ids) < 3 else rand_id(rng, numeric_round)
            if x not in ids and not x.startswith('tw'):
                ids.append(x)
        pairs = {}        # role -> (twin obj, real obj)
        idmap = {}
        try:
            for i in range(nd):
                pairs['d%d' % i] = (Doc(id='twd%d' % i, title='t'), Doc(id=ids[i], title='t'))
                idmap['twd%d' % i] = ids[i]
            for j in range(nt):
                pairs['t%d' % j] = (Tag(id='twt%d' % j, name='n'), Tag(id=ids[nd + j], name='n'))
                idmap['twt%d' % j] = ids[nd + j]
            pairs['i'] = (Item(id='twi', name='n'), Item(id=ids[-1], name='n'))
            idmap['twi'] = ids[-1]
        except Exception as ex:
            ctx.oracle_fail('C02:sqlite:str-id:create', 'creating rows with string ids %r raises %s: %s' % (ids, type(ex).__name__, ex),
                            {'ids': [enc(x) for x in ids]})
            continue
        insts += [p[1] for p in list(pairs.values())[:2]]
        expect = {0: [], 1: []}      # link rows (twin world, real world)
        ops = []
        for _ in range(rng.randint(3, 8)):
            ops.append((rng.choice(['add', 'add', 'remove', 'tags', 'docs', 'radd', 'rremove', 'sqlrelatedjoin-accessor', 'sqlrelatedjoin-accessor-other-side',
                                    'manytomany-accessor', 'manytomany-accessor-other-side', 'manytomany-add', 'manytomany-remove',
                                    'manytomany-add-other-side', 'manytomany-remove-other-side']), rng.randrange(nd), rng.randrange(nt)))
        ops += [(k, rng.randrange(nd), rng.randrange(nt)) for k in STRID_OPS]
        for kind, i, j in ops:
            res = {}
            for w in (0, 1):                      # the benign-id twin first, then the real ids
                d, t, it = pairs['d%d' % i][w], pairs['t%d' % j][w], pairs['i'][w]
                del log[:]
                try:
                    if kind == 'add':
                        getattr(d, 'add' + Tag.__name__)(t)
                        expect[w].append((d.id, t.id))
                        out = None
                    elif kind == 'radd':
                        getattr(t, 'add' + Doc.__name__)(d)
                        expect[w].append((d.id, t.id))
                        out = None
                    elif kind == 'remove':
                        getattr(d, 'remove' + Tag.__name__)(t)
                        expect[w] = [x for x in expect[w] if x != (d.id, t.id)]
                        out = None
                    elif kind == 'rremove':
                        getattr(t, 'remove' + Doc.__name__)(d)
                        expect[w] = [x for x in expect[w] if x != (d.id, t.id)]
                        out = None
                    elif kind == 'sqlrelatedjoin-accessor':
                        out = sorted(x.id for x in d.stags) == sorted(b for a, b in expect[w] if a == d.id)
                    elif kind == 'sqlrelatedjoin-accessor-other-side':
                        out = sorted(x.id for x in t.sdocs) == sorted(a for a, b in expect[w] if b == t.id)
                    elif kind == 'manytomany-accessor':
                        out = sorted(x.id for x in d.mtags) == sorted(b for a, b in expect[w] if a == d.id)
                    elif kind == 'manytomany-accessor-other-side':
                        out = sorted(x.id for x in t.mdocs) == sorted(a for a, b in expect[w] if b == t.id)
                    elif kind == 'manytomany-add':
                        d.mtags.add(t)
                        expect[w].append((d.id, t.id))
                        out = None
                    elif kind == 'manytomany-add-other-side':
                        t.mdocs.add(d)
                        expect[w].append((d.id, t.id))
                        out = None
                    elif kind == 'manytomany-remove':
                        d.mtags.remove(t)
                        expect[w] = [x for x in expect[w] if x != (d.id, t.id)]
                        out = None
                    elif kind == 'manytomany-remove-other-side':
                        t.mdocs.remove(d)
                        expect[w] = [x for x in expect[w] if x != (d.id, t.id)]
                        out = None
                    elif kind == 'sqlmultiplejoin-accessor':
                        n0 = Note(doc=d, body='s')
                        got = [n.id for n in d.snotes]
                        out = n0.id in got and all(n.docID == d.id for n in d.snotes) and d.snotes.count() == len(got)
                    elif kind == 'onetomany-accessor':
                        n0 = Note(doc=d, body='1')
                        got = [n.id for n in d.onotes]
                        out = n0.id in got and all(n.docID == d.id for n in d.onotes)
                    elif kind == 'tags':
                        out = sorted(x.id for x in d.tags) == sorted(b for a, b in expect[w] if a == d.id)
                    elif kind == 'docs':
                        out = sorted(x.id for x in t.docs) == sorted(a for a, b in expect[w] if b == t.id)
                    elif kind == 'note':
                        out = Note(doc=d, body="b'").docID == d.id
                    elif kind == 'notes':
                        Note(doc=d, body='c')
                        out = all(n.docID == d.id for n in d.notes) and len(list(d.notes)) >= 1
                    elif kind == 'selfk':
                        out = all(n.docID == d.id for n in Note.select(Note.q.docID == d.id))
                    elif kind == 'selfkobj':
                        n0 = Note(doc=d, body='o')
                        out = n0.id in [n.id for n in Note.select(Note.q.docID == d)] and \
                            all(n.docID == d.id for n in Note.select(Note.q.doc == d))
                    elif kind == 'selby':
                        out = all(n.docID == d.id for n in Note.selectBy(doc=d))
                    elif kind == 'infk':
                        n0 = Note(doc=d, body='i')
                        out = [n.id for n in Note.select(sb.IN(Note.q.docID, [d.id, 'none-such']))].count(n0.id) == 1
                    elif kind == 'get':
                        conn.cache.clear()
                        out = Doc.get(d.id).id == d.id
                        conn.cache.clear()      # keep the twin world and the real world symmetric
                    elif kind == 'selid':
                        out = [x.id for x in Doc.select(Doc.q.id == d.id)] == [d.id]
                    elif kind == 'selbyid':
                        out = [x.id for x in Tag.selectBy(id=t.id)] == [t.id]
                    elif kind == 'upd':
                        it.name = "z'"
                        out = raw('SELECT name FROM %s WHERE id = %s' % (Item.sqlmeta.table, sqlrepr(it.id, 'sqlite'))) == [("z'",)]
                    elif kind == 'selobj':
                        out = [x.id for x in Tag.select(Tag.q.id == t)] == [t.id]
                    elif kind == 'inobj':
                        out = sorted(x.id for x in Tag.select(sb.IN(Tag.q.id, [t]))) == [t.id]
                    elif kind == 'destroy':
                        n_before = raw('SELECT COUNT(*) FROM %s' % Item.sqlmeta.table)[0][0]
                        it.destroySelf()
                        out = raw('SELECT COUNT(*) FROM %s' % Item.sqlmeta.table)[0][0] == n_before - 1
                except Exception as ex:
                    out = 'error:%s' % type(ex).__name__
                res[w] = (out, list(log))
            (tout, tsql), (rout, rsql) = res[0], res[1]
            desc = {'op': kind, 'ids': {k: enc(v) for k, v in idmap.items()}, 'statements': rsql[:4]}
            ctx.case(('strid', kind, tuple(sorted(idmap.values())), i, j), kind='str-id:' + kind)
            tsk = [skeleton('sqlite', q, idmap) for q in tsql]
            rsk = [skeleton('sqlite', q, {}) for q in rsql]
            state_ok = links() == sorted(expect[0] + expect[1], key=lkey)
            if rout != tout or rsk != tsk or rout not in (None, True) or not state_ok:
                what = ('%s with string ids: result %r (benign-id twin: %r); statements %r; compared with the twin\'s statements '
                        '(its ids replaced) they tokenise %s; link rows as intended: %r'
                        % (kind, rout, tout, rsql[:3], 'identically' if rsk == tsk else 'DIFFERENTLY', state_ok))
                if kind in ('selobj', 'inobj') and state_ok:
                    class_fail(ctx, KEY_INST, 'an SQLObject instance with a string id used as a query value (T.q.id == obj, '
                                    'IN(col, [obj])) is not rendered as the literal of its id (fixed in 56fe495): ' + what, desc)
                elif kind.replace('-other-side', '') in LINK_KINDS and any(looks_numeric(x) for x in idmap.values()):
                    class_fail(ctx, KEY_LINK_INT, 'the link table of a RelatedJoin / ManyToMany between string-keyed classes is created with INT '
                                    'columns (DBAPI._SO_createJoinTableSQL): SQLite stores the key literal \'007\' as 7, \'1e3\' as 1000 — the '
                                    'accessor then raises NotFound or returns another object: ' + what, desc)
                else:
                    ctx.oracle_fail('C02:sqlite:str-id:%s' % kind.replace('-other-side', ''), what, desc)
                # resynchronise the expectation with the table so that one failure is reported once
                cur = links()
                expect[0] = [x for x in cur if str(x[0]).startswith('tw')]
                expect[1] = [x for x in cur if not str(x[0]).startswith('tw')]
    # ---- instances as values, all dialects: model = code, and one literal of the id
    plain = [Plain(n=1), Plain(n=2)]
    vals = [(o, 'OI:%d' % o.id) for o in plain] + [(o, 'OS:' + enc(o.id)) for o in insts[:60] if '\x00' not in o.id]
    outs = ctx.model(['v %s %s' % (d, spec) for o, spec in vals for d in DIALECTS])
    k = 0
    for o, spec in vals:
        for d in DIALECTS:
            text = impl_sqlrepr(o, d)
            desc = {'dialect': d, 'value': spec}
            ctx.case(('inst', d, spec), kind='value:instance')
            if outs is not None:
                ctx.compare('sqlrepr(SQLObject instance, %s): model = code' % d, desc, outs[k].split(' | ')[0], enc(text))
            k += 1
            want = v_int(o.id).toks(d) if isinstance(o.id, int) else [('S', o.id)]
            got = ref_tokens(d, text + ' )')
            if got is None or got[:-1] != want:
                if isinstance(o.id, str):
                    class_fail(ctx, KEY_INST, 'sqlrepr(<instance with id %r>, %r) = %r: the bare id text, not a literal' % (o.id, d, text), desc)
                else:
                    ctx.oracle_fail('C02:%s:instance-value:%s' % (d, spec), 'sqlrepr(instance) = %r' % text, desc)



# ------------------------------------------------------------------ ENUM / CHECK DDL position
ENUM_TYPES = {'mysql': '_mysqlType', 'postgres': '_postgresType', 'sqlite': '_sqliteType', 'sybase': '_sybaseType',
              'mssql': '_mssqlType', 'firebird': '_firebirdType'}      # maxdb: EnumCol raises TypeError by design
ENUM_PIECES = ["'", '\\', '\n', '\t', '\r', '\x08', '%', '_', 'a', 'b', 'n', 't', ' ', ')', '(', ',', '--', ';', '"', 'E', '\xe9']


def enum_fragment(col, d):
    t = getattr(col, ENUM_TYPES[d])()
    return ' '.join(t) if isinstance(t, tuple) else t


def enum_want(d, name, values):
    """expected tokens of the column type text: each declared value ONE literal of dialect d, in order"""
    lits = []
    for i, v in enumerate([v for v in values if not (d == 'mysql' and v is None)]):
        lits += [('P', ',')] * (i > 0) + [('W', 'NULL') if v is None else ('S', v)]
    if d == 'mysql':
        return [('W', 'ENUM'), ('P', '(')] + lits + [('P', ')')]
    n = max(len(v) if v is not None else 0 for v in values)
    return [('W', 'VARCHAR'), ('P', '('), ('W', str(n)), ('P', ')'), ('W', 'CHECK'), ('P', '('), ('W', name), ('W', 'in'),
            ('P', '(')] + lits + [('P', ')'), ('P', ')')]


def near_misses(v):
    """strings a wrongly escaped literal of v would admit instead of v"""
    out = set([v.replace('\\', '\\\\'), v.replace('\n', '\\n').replace('\t', '\\t').replace('\r', '\\r').replace('\x08', '\\b'),
               v.replace('\\', '\\\\').replace('\n', '\\n').replace('\t', '\\t'), v.replace("'", "''"), v.replace("'", ''),
               v.replace('\\', ''), v + "'", 'E' + v])
    out.discard(v)
    return out


def run_enum(ctx):
    sqlo.setup()
    from sqlobject import SQLObject, EnumCol
    rng = ctx.rng
    conn = env()['conn']
    cases = [['plain', "it's", 'back\\slash', 'two\nlines', 'tab\there', '100%_'], ["'"], ['\\'], ["a'", "'a", "''"], ['\\n', '\n'],
             ['x', None], ["E'", 'e'], ['a\\', '\\a'], ['\r\x08'], ['a,b', 'a', 'b'], [') OR (1=1', "'); DROP TABLE t; --"]]
    for _ in range(ctx.budget(60, 3000)):
        vals = []
        for _ in range(rng.randint(1, 4)):
            v = ''.join(rng.choice(ENUM_PIECES) for _ in range(rng.randint(1, 4))) if rng.random() < 0.8 else rand_string(rng, 4)
            if v not in vals:
                vals.append(v)
        if rng.random() < 0.15:
            vals.append(None)
        cases.append(vals)
    specs = []
    for vals in cases:
        for d in DIALECTS:
            vs = [v for v in vals if not (d == 'mysql' and v is None)]
            specs.append('v %s L( %s)' % (d, ''.join(('N ' if v is None else 'S:%s ' % enc(v)) for v in vs)))
    outs = ctx.model(specs)
    k = -1
    for vals in cases:
        cls = type(sqlo.uniq('C02Enum'), (SQLObject,), {'_connection': conn, 'kind': EnumCol(enumValues=list(vals), default=None)})
        col = cls.sqlmeta.columns['kind']
        strs = [v for v in vals if v is not None]
        nul = any('\x00' in v for v in strs)
        for d in DIALECTS:
            k += 1
            desc = {'dialect': d, 'enumValues': [None if v is None else enc(v) for v in vals]}
            ctx.case(('enum', d, tuple(vals)), kind='enum-ddl')
            if d not in ENUM_TYPES:
                continue
            try:
                frag = enum_fragment(col, d)
            except Exception as ex:
                frag = 'error:%s' % type(ex).__name__
            toks = ref_tokens(d, frag)
            want = enum_want(d, 'kind', vals)
            if outs is not None and not frag.startswith('error:'):
                lst = frag[4:] if d == 'mysql' else frag[frag.index(' in ') + 4:-1]
                ctx.compare('ENUM/CHECK literal list (%s): model sequence rendering = code' % d, desc, outs[k].split(' | ')[0], enc(lst))
            refused_ok = nul and d != 'mysql'
            if any(altered(d, v) for v in strs):
                ctx.count('enum:skipped (contains a string with the string-level defect)')
            elif (toks is None and not refused_ok) or (toks is not None and toks != want):
                def bad(vs):
                    c2 = type(sqlo.uniq('C02Enum'), (SQLObject,), {'_connection': conn, 'kind': EnumCol(enumValues=vs)})
                    return ref_tokens(d, enum_fragment(c2.sqlmeta.columns['kind'], d)) != enum_want(d, 'kind', vs)
                m = strs[:]
                try:      # one value, then its characters
                    for v in strs:
                        if '\x00' not in v and bad([v]):
                            m = [minimise(v, lambda x: bool(x) and bad([x]))]
                            break
                except Exception:
                    pass
                ctx.oracle_fail('C02:%s:enum-ddl:values=%s' % (d, ','.join(enc(v) for v in m)),
                                'the %s column type %r of EnumCol(enumValues=%r) tokenises to %s: the declared values are not '
                                'rendered as one literal each of that dialect' % (d, frag, vals, show_toks(toks)), desc)
        # ---- executed: createTable through the library on the real SQLite; the CHECK admits exactly the declared values
        if nul:
            continue
        ctx.case(('enum-exec', tuple(vals)), kind='enum-exec')
        desc = {'dialect': 'sqlite', 'enumValues': [None if v is None else enc(v) for v in vals]}
        try:
            cls.createTable()
        except Exception as ex:
            ctx.oracle_fail('C02:sqlite:enum-create:%s' % ','.join(enc(v) for v in strs),
                            'createTable of EnumCol(enumValues=%r) raises %s: %s' % (vals, type(ex).__name__, ex), desc)
            continue
        tbl = cls.sqlmeta.table
        for v in strs:
            try:
                row = cls(kind=v)
                got = conn.queryOne('SELECT kind FROM %s WHERE id = %d' % (tbl, row.id))[0]
            except Exception as ex:
                got = 'error:%s' % type(ex).__name__
            if got != v:
                ctx.oracle_fail('C02:sqlite:enum-declared-value-refused-or-altered:%s' % enc(minimise_enum(v)),
                                'EnumCol(enumValues=%r): storing the declared value %r gives %r' % (vals, v, got), desc)
                break
        # with None declared the list contains NULL and `x in (.., NULL)` is never false: the CHECK admits anything (SQL semantics, C14)
        for v in (strs if None not in vals else []):
            for u in sorted(near_misses(v)):
                if u in strs or '\x00' in u:
                    continue
                try:
                    env()['conn'].query('INSERT INTO %s (kind) VALUES (%s)' % (tbl, "'%s'" % u.replace("'", "''")))
                    admitted = True
                except Exception:
                    admitted = False
                if admitted:
                    ctx.oracle_fail('C02:sqlite:enum-undeclared-value-admitted:%s' % enc(minimise_enum(v)),
                                    'EnumCol(enumValues=%r): the CHECK admits the undeclared value %r' % (vals, u), desc)
                    break
        try:
            cls.dropTable()
        except Exception:
            pass


def minimise_enum(v):
    """smallest part of v that alone makes an enum column misbehave on the real SQLite"""
    from sqlobject import SQLObject, EnumCol
    conn = env()['conn']

    def bad(x):
        if not x or '\x00' in x:
            return False
        c = type(sqlo.uniq('C02Enum'), (SQLObject,), {'_connection': conn, 'kind': EnumCol(enumValues=[x], default=None)})
        try:
            c.createTable()
        except Exception:
            return True
        try:
            try:
                r = c(kind=x)
                if conn.queryOne('SELECT kind FROM %s WHERE id = %d' % (c.sqlmeta.table, r.id))[0] != x:
                    return True
            except Exception:
                return True
            for u in near_misses(x):
                try:
                    conn.query('INSERT INTO %s (kind) VALUES (%s)' % (c.sqlmeta.table, "'%s'" % u.replace("'", "''")))
                    return True
                except Exception:
                    pass
            return False
        finally:
            try:
                c.dropTable()
            except Exception:
                pass
    try:
        return minimise(v, bad) if bad(v) else v
    except Exception:
        return v



# ------------------------------------------------------------------ float / Decimal literals decode to exactly the value
def ulp_close(a, b):
    return a == b or a == math.nextafter(b, math.inf) or a == math.nextafter(b, -math.inf)


def run_floats(ctx):
    """every float renders as a numeric literal whose correctly rounded decimal->double reading (Python float())
    is EXACTLY the value, for all dialects; on SQLite `SELECT <literal>` is compared with == up to the engine's
    own 1-ulp parsing error (SQLite 3.40 is not correctly rounded: ~1e-4 of random doubles come back 1 ulp off
    on the unchanged tree — measured, modelled, not the library's doing).
    Baseline for non-finite values (what the code does today): inf / -inf / nan render as the bare words
    `inf`, `-inf`, `nan`, which are not numeric literals — SQLite refuses them ("no such column"), i.e. they
    are rejected, never stored as another number."""
    rng = ctx.rng
    raw = env()['raw']
    xs = [0.1 + 0.2, 1 / 3, math.pi, float(2 ** 53 - 1), float(2 ** 53 + 1), float(2 ** 53), 1.7976931348623157e308,
          -1.7976931348623157e308, 5e-324, -5e-324, 2.2250738585072014e-308, -0.0, 0.0, 1.0, -1.0, 5.0, 1e15, 1e16, 1e17, 1e22,
          1e23, 123456789.0, 0.1, 0.7, 1e-7, -2.25e-7, 9007199254740993.0, 0.30000000000000004, 2.675, 1.1, 1e-5, 1e-4,
          float('inf'), float('-inf'), float('nan')]
    for _ in range(ctx.budget(1500, 60000)):
        r = rng.random()
        if r < 0.4:
            x = struct.unpack('<d', struct.pack('<Q', rng.getrandbits(64)))[0]
        elif r < 0.6:
            x = float(rng.randint(-10 ** 18, 10 ** 18))
        elif r < 0.8:
            x = rng.random() * 10 ** rng.randint(-12, 12) * rng.choice([1, -1])
        else:
            x = rng.randint(-10 ** 6, 10 ** 6) / rng.choice([3, 7, 10, 100, 1000, 4096])
        xs.append(x)
    for x in xs:
        finite = not (math.isnan(x) or math.isinf(x))
        for d in DIALECTS:
            text = impl_sqlrepr(x, d)
            desc = {'dialect': d, 'float': x.hex() if finite else repr(x), 'repr': repr(x), 'literal': text}
            ctx.case(('float', d, repr(x)), kind='float:' + ('finite' if finite else 'non-finite'))
            m = _NUM.match(text)
            try:
                back = float(text) if m else None
            except ValueError:
                back = None
            if finite:
                ok = back is not None and back == x and math.copysign(1.0, back) == math.copysign(1.0, x)
                if not ok:
                    ctx.oracle_fail('C02:%s:float-literal-is-not-the-value:%s' % (d, x.hex()),
                                    'sqlrepr(%r, %r) = %r, which reads as %r: a different number (stored, compared in WHERE / IN as another value)'
                                    % (x, d, text, back), desc)
            else:
                # baseline: a bare word, not a number; what must never happen is a literal of some finite number
                if back is not None and not (math.isnan(back) and math.isnan(x)) and back != x:
                    ctx.oracle_fail('C02:%s:non-finite-float-rendered-as-a-number:%r' % (d, x),
                                    'sqlrepr(%r, %r) = %r reads as the number %r' % (x, d, text, back), desc)
        # ---- the real SQLite
        text = impl_sqlrepr(x, 'sqlite')
        desc = {'dialect': 'sqlite', 'float': x.hex() if finite else repr(x), 'repr': repr(x), 'literal': text}
        try:
            got = raw.execute('SELECT ' + text).fetchone()[0]
        except (sqlite3.Error, ValueError) as ex:
            got = 'error:%s' % type(ex).__name__
        if finite:
            if not (isinstance(got, (float, int)) and not isinstance(got, bool) and ulp_close(float(got), x)):
                ctx.oracle_fail('C02:sqlite:float-select-differs:%s' % x.hex(),
                                'SELECT %s on SQLite returns %r, the value is %r' % (text, got, x), desc)
            else:
                ctx.count('float:sqlite exact' if float(got) == x else 'float:sqlite 1 ulp off (engine parsing)')
        elif not isinstance(got, str):
            same = isinstance(got, float) and (got == x or (math.isnan(got) and math.isnan(x)))
            if not same:
                ctx.oracle_fail('C02:sqlite:non-finite-float-stored-as:%r' % x,
                                'SELECT %s on SQLite returns %r for the value %r' % (text, got, x), desc)
    # ---- Decimal: the text is an exact decimal numeral of the value
    for s in ['0', '-0', '1.50', '1E+3', '-1.2E-9', '123456789.000000001', '0E-7', '0.1', '1e-30', '9' * 30, '-1.000000000000000000001',
              'NaN', 'Infinity', '-Infinity'] + [str(rng.randint(-10 ** 25, 10 ** 25)) + 'E%d' % rng.randint(-30, 10) for _ in range(100)]:
        x = decimal.Decimal(s)
        for d in DIALECTS:
            text = impl_sqlrepr(x, d)
            ctx.case(('decimal', d, s), kind='decimal')
            try:
                back = decimal.Decimal(text) if _NUM.match(text) else None
            except decimal.InvalidOperation:
                back = None
            if x.is_finite() and not (back is not None and back == x):
                ctx.oracle_fail('C02:%s:decimal-literal-is-not-the-value:%s' % (d, s),
                                'sqlrepr(Decimal(%r), %r) = %r reads as %r' % (s, d, text, back), {'dialect': d, 'decimal': s})



# ------------------------------------------------------------------ binary-ish values: refused, or a literal of their content
KEY_MEMORYVIEW = 'C02:memoryview-rendered-as-its-repr-text'


def run_binaryish(ctx):
    """bytes / bytearray / memoryview / array given where a string literal is rendered: sqlrepr must refuse them or render
    a literal that decodes to their content — never to some other text"""
    from array import array
    contents = [b'', b'xy', b"a'b", b'\\', b'\x00\x01', b'%_', bytes(range(32, 127))]
    for raw_b in contents:
        for make in (bytes, bytearray, memoryview, lambda b: array('b', [x - 256 if x > 127 else x for x in b]),
                     lambda b: array('B', list(b))):
            v = make(raw_b)
            tname = type(v).__name__ + ('(%s)' % v.typecode if isinstance(v, array) else '')
            for d in DIALECTS:
                ctx.case(('bin', tname, raw_b, d), kind='binaryish:' + tname)
                text = impl_sqlrepr(v, d)
                if text.startswith('error:'):
                    continue                  # refused: fine
                r = ref_lex(d, text)
                want = (raw_b.decode('latin-1'), raw_b.decode('utf-8', 'replace'))
                desc = {'dialect': d, 'type': tname, 'content': raw_b.hex(), 'literal': text}
                if r is None:
                    if not (b'\x00' in raw_b and d != 'mysql'):
                        ctx.oracle_fail('C02:%s:binaryish-not-a-literal:%s' % (d, tname), 'sqlrepr(%s, %r) = %r is not one literal' % (tname, d, text), desc)
                elif r[1] != '' or r[0] not in want:
                    if isinstance(v, memoryview) and r[0].startswith('<memory at '):
                        class_fail(ctx, KEY_MEMORYVIEW, 'sqlrepr(memoryview(%r), %r) = %r: the text of the object\'s repr() is stored / compared '
                                        'instead of its content (StringLikeConverter does str(value) on a memoryview)' % (raw_b, d, text), desc)
                    else:
                        ctx.oracle_fail('C02:%s:binaryish-altered:%s:%s' % (d, tname, raw_b.hex()),
                                        'sqlrepr(%s of %r, %r) = %r decodes to %r, not to the content' % (tname, raw_b, d, text, r[0]), desc)



# ------------------------------------------------------------------ windowed selects (slices, limit, index): the glue behind the literals
_win = {}
KEY_WINDOW_NL = 'C02:firebird+mssql:windowed-select-cut-at-newline-in-data'
WIN_DATA = ['%', '%%', '%i', '%s', '%d %d', '%(x)s', '100%', 'a%%b', 'a%b', '%%%', "'%'", '%\\', 'x', "it's", 'a;b', '-- %s', '{0}', '{}', '$1',
            '?', ':x', '%%s', '\\%', 'a_b']


def win_env():
    if _win:
        return _win
    sqlo.setup()
    from sqlobject import SQLObject, StringCol
    conn = sqlo.mem_conn()
    cls = type(sqlo.uniq('C02Win'), (SQLObject,), {'_connection': conn, 's': StringCol(default=None)})
    cls.createTable()
    rows = {}
    for v in WIN_DATA + WIN_DATA[:8] + WIN_DATA[:3]:      # duplicates, so that a window has something to cut
        rows[cls(s=v).id] = v
    _win.update(conn=conn, cls=cls, rows=rows)
    return _win


def subsequence(small, big):
    it = iter(big)
    return all(any(x == y for y in it) for x in small)


def run_windowed(ctx):
    """WHERE / IN / LIKE data inside selects that are sliced, indexed or limited: the window clause is added to the already
    rendered statement by per-connection glue (`_queryAddLimitOffset`); the literals must come through it untouched"""
    e = win_env()
    rng = ctx.rng
    cls, rows = e['cls'], e['rows']
    from sqlobject.converters import sqlrepr
    from sqlobject import sqlbuilder as sb
    ids = sorted(rows)
    cases = []
    for v in WIN_DATA + ['a\nb']:
        cases.append(('eq', [v]))
    for _ in range(ctx.budget(120, 5000)):
        k = rng.choice(['eq', 'in', 'in', 'contains', 'startswith', 'ne'])
        vs = [rng.choice(WIN_DATA) if rng.random() < 0.8 else rand_string(rng, 4).replace('\x00', '') for _ in range(1 if k != 'in' else rng.randint(1, 3))]
        cases.append((k, vs))
    windows = [(None, 1), (None, 2), (1, None), (1, 3), (0, 5), (2, 2), 'i0', 'i1', 'limit2', (None, 0)]
    for ci, (kind, vs) in enumerate(cases):
        if kind == 'eq':
            mk, pred = (lambda: cls.q.s == vs[0]), (lambda r: r == vs[0])
        elif kind == 'ne':
            mk, pred = (lambda: cls.q.s != vs[0]), (lambda r: r != vs[0])
        elif kind == 'in':
            mk, pred = (lambda: sb.IN(cls.q.s, vs)), (lambda r: r in vs)
        elif kind == 'contains':
            mk, pred = (lambda: cls.q.s.contains(vs[0])), (lambda r: fold(vs[0]) in fold(r))
        else:
            mk, pred = (lambda: cls.q.s.startswith(vs[0])), (lambda r: fold(r).startswith(fold(vs[0])))
        full = [i for i in ids if pred(rows[i])]
        for w in [windows[(ci + j) % len(windows)] for j in range(3)]:
            base = cls.select(mk(), orderBy='id')
            desc = {'kind': kind, 'values': [enc(v) for v in vs], 'window': w}
            ctx.case(('win', kind, tuple(vs), w), kind='windowed:' + kind)
            sel = None
            if w in ('i0', 'i1'):
                k = int(w[1])
                want = full[k:k + 1] if k < len(full) else 'IndexError'
            elif w == 'limit2':
                want = full[:2]
            else:
                want = full[w[0]:w[1]]
            try:
                if w in ('i0', 'i1'):
                    try:
                        got = [base[k].id]
                    except IndexError:
                        got = 'IndexError'
                elif w == 'limit2':
                    sel = base.limit(2)
                    got = [o.id for o in sel]
                else:
                    sel = base[w[0]:w[1]]
                    got = [o.id for o in sel]
            except Exception as ex:
                got = 'error:%s: %s' % (type(ex).__name__, str(ex)[:60])
            if got != want:
                def bad(x):
                    try:
                        return [o.id for o in cls.select(cls.q.s == x, orderBy='id')[:1]] != [i for i in ids if rows[i] == x][:1]
                    except Exception:
                        return True
                m = [minimise(v, bad) for v in vs if bad(v)][:1] or vs[:1]
                ctx.oracle_fail('C02:sqlite:windowed-select:data=%s' % enc(m[0]),
                                'select(%s %r)%s on SQLite gives ids %r, expected %r: the data inside the statement is touched by the code that adds the window clause'
                                % (kind, vs, '[%s]' % (w,), got, want), desc)
            # ---- rendered text, every dialect: same literals, in order, as the statement without the window
            if sel is None:
                continue
            for d in DIALECTS:
                try:
                    plain = sqlrepr(cls.select(mk(), orderBy='id').queryForSelect(), d)
                    text = sqlrepr(sel.queryForSelect(), d)
                except Exception:
                    ctx.count('windowed: not rendered for %s' % d)
                    continue
                tp, tw = ref_tokens(d, plain), ref_tokens(d, text)
                if tp is None or any(contains_altered(d, v) for v in vs) or (d in ('mysql', 'postgres') and kind in ('contains', 'startswith')
                                                                             and any(c in LIKE_CTRL for v in vs for c in v)):
                    continue
                ok = tw is not None and [t for t in tw if t[0] == 'S'] == [t for t in tp if t[0] == 'S'] and subsequence(tp, tw)
                if not ok and d in ('firebird', 'mssql') and '\n' in plain and '\n' not in text:
                    class_fail(ctx, KEY_WINDOW_NL, 'firebird / mssql: `limit_re` (no re.DOTALL) cuts the rendered statement at the first newline '
                                    'inside the data when a window clause is added: %r -> %r (unterminated literal, the select is refused)'
                                    % (plain, text), dict(desc, dialect=d))
                elif not ok:
                    ctx.oracle_fail('C02:%s:windowed-select-text:%s' % (d, kind),
                                    'the %s statement with a window, %r, does not carry the literals of the statement without it, %r'
                                    % (d, text, plain), dict(desc, dialect=d))



# ------------------------------------------------------------------ Decimal values through the Decimal columns' converters
_dec = {}
_NUMERAL = re.compile(r"[-+]?(?:\d+\.?\d*|\.\d+)(?:[eE][-+]?\d+)?")


def dec_env():
    if _dec:
        return _dec
    sqlo.setup()
    from sqlobject import SQLObject, DecimalCol, DecimalStringCol, CurrencyCol
    from sqlobject.sqlite.sqliteconnection import SQLiteConnection
    log = []

    class LogConn(SQLiteConnection):
        def _executeRetry(self, conn, cursor, query):
            log.append(query)
            return SQLiteConnection._executeRetry(self, conn, cursor, query)
    conn = LogConn(':memory:')
    cls = type(sqlo.uniq('C02Dec'), (SQLObject,), {'_connection': conn,
                                                   'd': DecimalCol(size=80, precision=40, default=None),
                                                   'ds': DecimalStringCol(size=80, precision=40, default=None),
                                                   'cur': CurrencyCol(default=None)})
    cls.createTable()
    _dec.update(conn=conn, log=log, cls=cls)
    return _dec


def numerals_in(sql):
    """every decimal numeral in the statement text (inside or outside quotes), as exact Decimals"""
    out = []
    for m in _NUMERAL.finditer(sql):
        try:
            out.append(decimal.Decimal(m.group(0)))
        except decimal.InvalidOperation:
            pass
    return out


def run_decimal_cols(ctx):
    """a Decimal (or numeric string) given to a DecimalCol / DecimalStringCol / CurrencyCol reaches INSERT, UPDATE,
    `q.col == v` and selectBy as a literal of EXACTLY that number, whatever its number of digits (the column's converters
    sit between the value and sqlrepr); a DecimalStringCol also stores and finds it exactly on the real SQLite"""
    e = dec_env()
    rng = ctx.rng
    conn, log, cls = e['conn'], e['log'], e['cls']
    vals = ['123456789012345678901.234567890123456789', '0.1', '-0.000000000000000000000000000000000001', '1' + '0' * 40,
            '9' * 29, '9' * 28 + '.9', '1.' + '0' * 30 + '1', '-' + '7' * 35 + '.5', '12345678901234567890123456789', '1E+30', '1.5',
            '79228162514264337593543950336', '0.' + '3' * 33]
    for _ in range(ctx.budget(40, 2000)):
        nd = rng.choice([5, 20, 27, 28, 29, 30, 34, 45])
        digits = ''.join(rng.choice('0123456789') for _ in range(nd)).lstrip('0') or '1'
        p = rng.randint(0, len(digits))
        vals.append(('-' if rng.random() < 0.3 else '') + (digits[:p] or '0') + ('.' + digits[p:] if p < len(digits) else ''))
    for i, s in enumerate(vals):
        v = decimal.Decimal(s)
        for col in ('d', 'ds', 'cur'):
            for given in (v, s):
                ctx.case(('deccol', col, s, type(given).__name__), kind='decimal-column:' + col)
                stmts = []
                try:
                    del log[:]
                    row = cls(**{col: given})
                    stmts.append(('INSERT', log[0]))
                    del log[:]
                    setattr(row, col, given)
                    stmts.append(('UPDATE', log[0]))
                    del log[:]
                    found = [o.id for o in cls.select(getattr(cls.q, col) == given)]
                    stmts.append(('WHERE q.col == v', log[0]))
                    del log[:]
                    found2 = [o.id for o in cls.selectBy(**{col: given})]
                    stmts.append(('selectBy', log[0]))
                except Exception as ex:
                    ctx.count('decimal-column: refused (%s)' % type(ex).__name__)
                    continue
                desc = {'column': col, 'value': s, 'given_as': type(given).__name__}
                for what, sql in stmts:
                    if v not in numerals_in(sql):
                        ctx.oracle_fail('C02:sqlite:decimal-column-%s:digits=%d' % (col, len(v.as_tuple().digits)),
                                        '%s of the %s value %s (given as %s) through a %s column: the statement %r does not contain that number'
                                        % (what, 'Decimal', s, type(given).__name__, {'d': 'DecimalCol', 'ds': 'DecimalStringCol', 'cur': 'CurrencyCol'}[col], sql),
                                        dict(desc, statement=sql))
                        break
                if col == 'ds':
                    raw_v = conn.queryAll('SELECT ds FROM %s WHERE id = %d' % (cls.sqlmeta.table, row.id))[0][0]
                    if decimal.Decimal(raw_v) != v or row.id not in found or row.id not in found2:
                        ctx.oracle_fail('C02:sqlite:decimal-string-column-roundtrip:digits=%d' % len(v.as_tuple().digits),
                                        'DecimalStringCol: %s is stored as %r; found by ==: %r, by selectBy: %r'
                                        % (s, raw_v, row.id in found, row.id in found2), desc)


def replay(case):
    env()
    d = case['dialect']
    s = dec(case.get('minimal', case['string']))
    lit = impl_sqlrepr(s, d)
    r = ref_lex(d, lit)
    ok = (r == (s, '')) or (r is None and '\x00' in s and d != 'mysql')
    return ok, 'value %r\nliteral (%s) %r\ndecodes to %r' % (s, d, lit, r)
