"""C01 — stored values read back unchanged for every column type and write path.

correspondence: the Lean model `Codec` (driver `drv_c01`) against the real validators, `sqlrepr`, the cell
SQLite really holds, the value a fresh reader gets, the value the writer caches, and `selectBy`.
oracle (independent of the model): for a value of the column's domain every read path gives a value `==`
the written one and of the same Python type, the raw cell is the reference encoding, and both query forms
find the row; for any other value the column accepts, every read path works and they agree with each other.
"""
import base64
import copy
import datetime
import decimal
import json
import pickle
import struct
import uuid

from vlib import sqlo

PROP = 'C01'
META = {
    'extractors': ['codec', 'pycodec', 'pymainv'],
    'technique': ('Lean 4 proofs over an executable model of validator pairs + sqlite literal rendering + SQLite literal '
                  'evaluation/affinity + driver fetch; format strings, literals, column types extracted from /repo; '
                  'differential correspondence and an independent read-back oracle on in-memory SQLite; '
                  'TRANSLATOR tie: the Python AST of ALL validator methods of col.py that C01 uses (Int/Bool/String/Unicode/Enum/'
                  'ForeignKey/DateTime/Date/Time/Decimal/Binary/Float/DecimalString/Pickle/Uuid/JSON), of the createValidators '
                  'lists and of SQLObject._SO_selectInit is translated on every run into a deep embedding (Model/PyCodec.lean) and '
                  'proved equal to the model functions for ALL values of the universe (all column lists / rows for the read loop); '
                  'the class / hasattr tables the translated code is run with are compared with real Python objects (streams iface-*)'),
    'level_text': ('Theorems C01_roundtrip_<T>: for ALL values of the domain (all NUL-free code point lists, all int64, '
                   'all valid y/m/d/H/M/S/us, every declared enum value, all byte lists) toPy(fetch(store(aff T, lit(toDb v)))) = v, '
                   'about the extracted format strings / literals / column types; C01_eq_query_finds; '
                   'C01_accepted_readable (_partial proved, _full_FALSE from the FloatCol<-2**53+1 witness); glue theorems '
                   'for Float/Decimal/DecimalString/Pickle/JSON/Uuid.  C01_translated_<Validator>_<method>_eq_model: the translated '
                   'source of 24 validator methods = the model function on every universe value; '
                   'C01_translated_createValidators_chain_eq_model: col.from_python / col.to_python = toDb / toPy for EVERY column kind; '
                   'C01_translated_selectInit_eq_model: the to_python loop of _SO_selectInit = the model read path for every column '
                   'list and row; C01_translated_roundtrip_* and C01_translated_accepted_readable_partial restate the '
                   'round trips about the translated source; C01_translated_setValue_roundtrip / _set_roundtrip / _create_roundtrip: '
                   'the write paths setattr / set / lazy+syncUpdate / create through the translated plumbing AND the translated '
                   'validator chains, read back by the translated _SO_getValue, = toPy(fetch(store(lit(toDb v)))) for every class '
                   'shape, column, kind and value (C01_translated_write_read_* : = v on the proved domains).'),
    'level_note': ('partial for Float, Decimal, Currency, DecimalString, Pickle, JSON, Uuid: repr(float), Decimal, pickle, json, '
                   'UUID are uninterpreted tokens; only the glue is proved, end-to-end behaviour is covered by the '
                   'differential run and the oracle (sampling).'),
    'rule': ('case = (column type incl. ForeignKey across int/str idType, value, write path create/setattr/set/lazy+syncUpdate/'
             'expire-assign-read-other-column-read (lazy and eager)/expire-sync-assign (expire, sync, assign[, syncUpdate on a lazy '
             'class]; all three variants)/lazy-failflush (lazy class: deferred assignment whose first syncUpdate is refused by a '
             'UNIQUE conflict on a second column, conflict removed, syncUpdate retried), class variant eager/lazy/'
             'cacheValues=False, connection cache on/off); distinct = distinct (type, canonical value token, path); '
             'non-trivial = value is not None'),
    'trusted': ['SQLite literal evaluation + column affinity rules as modelled in Model/Codec.lean (evalLit, applyAff, affinityOf; '
                'cross-checked against the real engine on every case: stream "cell")',
                'strptime model strp (ASCII digits, exact literal match, greedy fields; cross-checked on the read stream)',
                'Python == on the value universe (pyEq) and the coercion table `coerces` (specification side)'],
    'modelled': ['repr(float) / SQLite double parsing, Decimal and to_eng_string, NUMERIC affinity text<->double, pickle, json, uuid: '
                 'uninterpreted tokens (inverse pairs assumed, not proved)',
                 'sqlite3 driver (text_factory=str), SQLite engine',
                 'mysql/postgres/other backends: not covered (no server); sqlite only',
                 'write paths / cacheValues / lazy plumbing of main.py: exercised by the oracle only (OrmCore is another property)'],
    'assumptions': ['translated validators: the interface listed in the header of Model/CodecX.lean (validator/state/connection '
                    'attributes, class and hasattr tables of the universe tags, int()/str()/bool()/Decimal() on the interpreted '
                    'values, strptime = the model parser on the parsed format text, base64 = the model functions, float and Decimal '
                    'arithmetic uninterpreted, json/pickle/UUID/Decimal-text codecs abstract: a value is identified with its encoding) '
                    'and formencode compound.All order (Model/CodecXChain.lean); raise / assert messages are not evaluated; '
                    'setattr(self, computed name, v) is observed as a write log; write paths (Model/CodecW.lean header): the plumbing '
                    '_SO_setValue / set (one keyword) / syncUpdate / _SO_getValue is the pymain.py translation re-targeted at '
                    'Model/PyMainV.lean (C01 universe, raising validators), the row is lit/evalLit/applyAff/fetch of the model, signals '
                    'have no listener, the property setter passes the column validators; _create / _SO_finishCreate glue (INSERT of '
                    '_SO_createValues) is HAND-MODELLED (finishCreateM); '
                    'JsonbValidator (postgres only, no model kind) is not translated',
                    'a float token denotes one double: SQLite parses repr(f) back to f', 'Decimal(d.to_eng_string()) == d, UUID(str(u)) == u, '
                    'json.loads(json.dumps(v)) == v, pickle.loads(pickle.dumps(v)) == v on the generated values',
                    'strings are NUL-free and have no lone surrogates (the driver refuses both)'],
    'exhaustive': False,
}

D = datetime
Dec = decimal.Decimal
INT64_MAX = 2 ** 63 - 1
INT64_MIN = -2 ** 63

# ----------------------------------------------------------------------------------------------- environment
_env = {}

TYPES = ['string', 'unicode', 'int', 'tinyInt', 'smallInt', 'mediumInt', 'bigInt', 'bool', 'float', 'dateTime',
         'date', 'time', 'timestamp', 'decimal', 'currency', 'decimalString', 'enum', 'blob', 'pickle', 'uuid',
         'json', 'fkInt', 'fkStr', 'fkIntS']
STR_IDS = ['007', '1e3', ' 5', 'x', '12', "o'k", '-0', '0x10']
ENUM_VALUES = ['a', "b'c", 'x y', '', 'é', 'ü"%_\\', "''", 'NULL']
COLNAME = {'string': 'StringCol', 'unicode': 'UnicodeCol', 'int': 'IntCol', 'tinyInt': 'IntCol', 'smallInt': 'IntCol',
           'mediumInt': 'IntCol', 'bigInt': 'IntCol', 'bool': 'BoolCol', 'float': 'FloatCol', 'dateTime': 'DateTimeCol',
           'date': 'DateCol', 'time': 'TimeCol', 'timestamp': 'DateTimeCol', 'decimal': 'DecimalCol',
           'currency': 'DecimalCol', 'decimalString': 'DecimalStringCol', 'enum': 'EnumCol', 'blob': 'BLOBCol',
           'pickle': 'PickleCol', 'uuid': 'UuidCol', 'json': 'JSONCol', 'fkInt': 'ForeignKey',
           'fkStr': 'ForeignKey', 'fkIntS': 'ForeignKey'}
VARIANTS = ['eager', 'lazy', 'nocachevalues']
PATHS = ['create', 'setattr', 'set', 'lazy', 'expire-lazy', 'expire-eager', 'expire-sync-assign', 'lazy-failflush', 'loaded', 'listener', 'listener-raises']
FK_TYPES = ('fkInt', 'fkStr', 'fkIntS')


def cps(s):
    return '-' if len(s) == 0 else '.'.join('%x' % (ord(c) if isinstance(c, str) else c) for c in s)


def uncps(t):
    return [] if t == '-' else [int(x, 16) for x in t.split('.')]


def type_token(T):
    if T == 'enum':
        return 'enum:' + ';'.join(cps(v) for v in ENUM_VALUES)
    return T


def env():
    if _env:
        return _env
    sqlo.setup()
    import sqlobject
    from sqlobject import SQLObject, col
    conns = {True: sqlo.mem_conn(), False: sqlo.mem_conn(cache=False)}
    mk = {
        'string': lambda: col.StringCol(default=None), 'unicode': lambda: col.UnicodeCol(default=None),
        'int': lambda: col.IntCol(default=None), 'tinyInt': lambda: col.TinyIntCol(default=None),
        'smallInt': lambda: col.SmallIntCol(default=None), 'mediumInt': lambda: col.MediumIntCol(default=None),
        'bigInt': lambda: col.BigIntCol(default=None), 'bool': lambda: col.BoolCol(default=None),
        'float': lambda: col.FloatCol(default=None), 'dateTime': lambda: col.DateTimeCol(default=None),
        'date': lambda: col.DateCol(default=None), 'time': lambda: col.TimeCol(default=None),
        'timestamp': lambda: col.TimestampCol(default=None),
        'decimal': lambda: col.DecimalCol(size=10, precision=3, default=None),
        'currency': lambda: col.CurrencyCol(default=None),
        'decimalString': lambda: col.DecimalStringCol(size=10, precision=3, default=None),
        'enum': lambda: col.EnumCol(enumValues=list(ENUM_VALUES), default=None),
        'blob': lambda: col.BLOBCol(default=None), 'pickle': lambda: col.PickleCol(default=None),
        'uuid': lambda: col.UuidCol(default=None), 'json': lambda: col.JSONCol(default=None),
    }
    classes = {}
    others = {}
    for cache, conn in conns.items():
        oname = sqlo.uniq('C01Other')
        other = type(oname, (SQLObject,), {'_connection': conn, 'n': col.IntCol(default=0)})
        other.createTable()
        others[cache] = (other, [other(n=i) for i in range(3)])
        sname = sqlo.uniq('C01OtherS')

        class smeta:
            idType = str
        others_s = type(sname, (SQLObject,), {'_connection': conn, 'sqlmeta': smeta, 'n': col.IntCol(default=0)})
        others_s.createTable()
        others[('s', cache)] = (others_s, [others_s(id=i, n=k) for k, i in enumerate(STR_IDS)])
        for T in TYPES:
            for variant in VARIANTS:
                name = sqlo.uniq('C01%s%s' % (T.capitalize(), variant.capitalize()))

                class sqlmeta:
                    lazyUpdate = (variant == 'lazy')
                    cacheValues = (variant != 'nocachevalues')
                if T == 'fkIntS':
                    sqlmeta.idType = str
                attrs = {'_connection': conn, 'sqlmeta': sqlmeta}
                if T in ('fkInt', 'fkIntS'):
                    attrs['v'] = col.ForeignKey(oname, default=None)
                elif T == 'fkStr':
                    attrs['v'] = col.ForeignKey(sname, default=None)
                else:
                    attrs['v'] = mk[T]()
                attrs['w'] = col.IntCol(default=7)      # a second column: reading it reloads an expired object
                # a third one (declared after v: attr_db takes columnList[0]) that can make an UPDATE fail: NULLs never
                # conflict under UNIQUE, so every path but 'lazy-failflush' is unaffected by it
                attrs['u'] = col.IntCol(default=None, unique=True)
                cls = type(name, (SQLObject,), attrs)
                try:
                    cls.createTable()
                except Exception:
                    if T != 'enum':
                        raise
                    # the DDL of the declared values is C14's business: fall back to plain values so that the
                    # other column types are still checked (the strings with quotes go through StringCol)
                    ENUM_VALUES[:] = ['a', 'x y', '']
                    name = sqlo.uniq('C01EnumPlain%s' % variant.capitalize())
                    attrs = {'_connection': conn, 'sqlmeta': sqlmeta, 'v': col.EnumCol(enumValues=list(ENUM_VALUES), default=None),
                             'w': col.IntCol(default=7), 'u': col.IntCol(default=None, unique=True)}
                    cls = type(name, (SQLObject,), attrs)
                    cls.createTable()
                classes[(T, variant, cache)] = cls
    _env.update(conns=conns, classes=classes, others=others)
    return _env


def attr(T):
    return 'vID' if T in FK_TYPES else 'v'


# ----------------------------------------------------------------------------------------------- canonical tokens
def fbits(f):
    if f != f:
        return 'nan'
    return struct.pack('>d', f + 0.0).hex()   # -0.0 and 0.0 are the same value


def tok(v, T=None):
    """canonical token of a Python value (the driver's value syntax); floats by value"""
    from sqlobject import SQLObject
    if v is None:
        return 'N'
    if T == 'json':
        try:
            return 'j' + cps(json.dumps(v))
        except Exception:
            return 'x'
    if T == 'pickle':
        try:
            return 'P' + repr(v)
        except Exception:
            return 'x'
    t = type(v)
    if t is bool:
        return 'b1' if v else 'b0'
    if t is int:
        return 'i%d' % v
    if t is float:
        return 'F' + fbits(v)
    if t is str:
        try:
            v.encode('utf-8')
        except UnicodeEncodeError:
            return 'x'
        return 's' + cps(v)
    if t is bytes:
        return 'y' + cps(v)
    if t is D.datetime:
        return 'x' if v.tzinfo else 'D%d,%d,%d,%d,%d,%d,%d' % (v.year, v.month, v.day, v.hour, v.minute, v.second, v.microsecond)
    if t is D.date:
        return 'd%d,%d,%d' % (v.year, v.month, v.day)
    if t is D.time:
        return 'x' if v.tzinfo else 't%d,%d,%d,%d' % (v.hour, v.minute, v.second, v.microsecond)
    if t is Dec:
        return 'c' + cps(v.to_eng_string())
    if t is uuid.UUID:
        return 'u' + cps(str(v))
    if isinstance(v, SQLObject):
        return 'o%d' % v.id if type(v.id) is int else 'O' + cps(v.id)
    return 'x'


def model_in(v, T):
    """token sent to the driver for an input value"""
    if v is None:
        return 'N'
    if T == 'pickle':
        try:
            return 'p' + cps(pickle.dumps(v, pickle.HIGHEST_PROTOCOL))
        except Exception:
            return 'x'
    if T == 'json':
        if type(v) in (dict, list, str, int, float, bool):
            try:
                return 'j' + cps(json.dumps(v))
            except Exception:
                return 'x'
        return tok(v) if type(v) in (bytes, D.datetime, D.date, D.time, Dec, uuid.UUID) else 'x'
    if type(v) is float:
        if v != v or v in (float('inf'), float('-inf')):
            return 'f' + cps(repr(v))
        return 'f' + cps(repr(v))
    return tok(v)


_raw = []


def engine_float(s):
    """the double SQLite's own text->double conversion gives for a numeric literal (the model's uninterpreted
    `FTok.lit`, once the text went through the engine); SQLite 3.40 is not always correctly rounded"""
    import sqlite3
    if not s or any(c not in '0123456789eE+-.' for c in s):
        return None
    if not _raw:
        _raw.append(sqlite3.connect(':memory:'))
    try:
        v = _raw[0].execute('SELECT ' + s).fetchone()[0]
    except sqlite3.Error:
        return None
    return float(v) if isinstance(v, (int, float)) else None


def canon_model(t, T, engine=False):
    """interpret the uninterpreted symbols of a model value token on the harness side (stdlib only)"""
    if t is None or t in ('Invalid', 'Reject', '?', 'N', 'x'):
        return t
    k = t[0]
    if k == 'f':
        s = ''.join(chr(c) for c in uncps(t[1:]))
        if engine:
            v = engine_float(s)
            return '?' if v is None else 'F' + fbits(v)
        try:
            return 'F' + fbits(float(s))
        except ValueError:
            return '?'
    if k == 'g':
        try:
            return 'F' + fbits(float(int(t[1:])))
        except OverflowError:
            return '?'
    if k == 'p' and T == 'pickle':
        try:
            return 'P' + repr(pickle.loads(bytes(uncps(t[1:]))))
        except Exception:
            return '?'
    if k == 'j' and T == 'json':
        try:
            s = ''.join(chr(c) for c in uncps(t[1:]))
            return 'j' + cps(json.dumps(json.loads(s)))
        except Exception:
            return '?'
    if k == 'c':
        try:
            s = ''.join(chr(c) for c in uncps(t[1:]))
            return 'c' + cps(Dec(s).to_eng_string())
        except Exception:
            return '?'
    return t


def canon_cell(t):
    if t.startswith('real:'):
        return 'real:' + canon_model(t[5:], None, engine=True)
    return t


def exc_kind(e):
    from formencode import Invalid
    return 'Invalid' if isinstance(e, Invalid) else 'Reject'


# ----------------------------------------------------------------------------------------------- generators
META_CHARS = ["'", '"', '\\', '%', '_', ';', '-', '/', '*', '(', ')', ',', '`', '[', ']', '\n', '\r', '\t', '\x01',
              '\x1a', '\x7f', ' ', '?', ':', '@', '$', '#', '|', '&', '=', '<', '>', '!', '~', '^', '{', '}', '.', '+']


def gen_text(rng):
    r = rng.random()
    n = rng.choice([0, 1, 1, 2, 3, 5, 8, 20])
    out = []
    for _ in range(n):
        q = rng.random()
        if q < 0.35:
            out.append(rng.choice(META_CHARS))
        elif q < 0.6:
            out.append(chr(rng.randint(32, 126)))
        elif q < 0.7:
            out.append(chr(rng.randint(48, 57)))
        elif q < 0.85:
            c = rng.randint(0x80, 0xFFFF)
            if 0xD800 <= c <= 0xDFFF:
                c = 0xE9
            out.append(chr(c))
        else:
            out.append(chr(rng.randint(0x10000, 0x10FFFF)))
    return ''.join(out)


TEXT_CORPUS = ['', "'", "''", "'''", '"', '\\', "\\'", '%', '_', ';', '--', '/*', '*/', '\n', '\r\n', '\t', '\x01', '\x7f',
               'é', ' ', '﻿', '\U0001F600', '\U0010FFFF', ' 12 ', '123', '1e5', '-5', '0x10', '1.50', 'NULL',
               "a'b''c", "x'; DROP TABLE t; --", 'a' * 1000, ''.join(META_CHARS), '  ', '0', '007', 'inf', '+1', '1.', '.5', '9' * 30,
               'À', '퟿', '2020-01-02', 'E\'x\'']


def gen_int64(rng):
    r = rng.random()
    if r < 0.3:
        return rng.randint(-1000, 1000)
    if r < 0.6:
        b = rng.randint(1, 63)
        return rng.choice([1, -1]) * rng.getrandbits(b)
    if r < 0.8:
        return rng.choice([INT64_MAX, INT64_MIN]) + rng.choice([0, 1, -1, 2, -2]) * (1 if rng.random() < 0.5 else 0)
    return rng.randint(INT64_MIN, INT64_MAX)


INT_CORPUS = [0, 1, -1, 9, 10, 99, 100, -10, 2 ** 31 - 1, 2 ** 31, -2 ** 31, 2 ** 32, 2 ** 53, 2 ** 53 + 1, -2 ** 53 - 1,
              INT64_MAX, INT64_MAX - 1, INT64_MIN, INT64_MIN + 1, 10 ** 18, -10 ** 18]
BIGINT_CORPUS = [2 ** 63, 2 ** 63 + 1, -2 ** 63 - 1, 2 ** 64, 10 ** 30, -10 ** 25, 2 ** 100]


def clamp64(i):
    return max(INT64_MIN, min(INT64_MAX, i))


def gen_float(rng):
    """finite doubles; only those whose repr text SQLite's own text->double conversion (asked through the
    stdlib sqlite3 module, not through the code under test) parses back exactly: SQLite 3.40 misrounds about
    1 in 10^4 17-digit literals by one ulp (and most beyond 1e+-275); that engine defect has its own corpus
    witness and must not make seeds flake"""
    while True:
        f = gen_float_raw(rng)
        if engine_float(repr(f)) == f:
            return f


def gen_float_raw(rng):
    r = rng.random()
    if r < 0.3:
        return rng.randint(-10 ** 6, 10 ** 6) / rng.choice([1, 2, 4, 8, 10, 100, 1000, 3, 7])
    if r < 0.8:
        while True:
            f = struct.unpack('>d', struct.pack('>Q', rng.getrandbits(64)))[0]
            if f == f and f not in (float('inf'), float('-inf')):
                return f
    return rng.random() * 10 ** rng.randint(-300, 300)


FLOAT_CORPUS = [0.0, -0.0, 1.5, -1.5, 0.1, 1 / 3, 1e16, 1e15, 123456789012345680.0, 1e300, 1.7976931348623157e308, 5e-324,
                2.2250738585072014e-308, 1e-5, 1e22, 1e23, 5.0, 100.0, -7.0, 9007199254740992.0, 9007199254740993.0]


def gen_date(rng):
    r = rng.random()
    y = rng.choice([1, 2, 99, 100, 999, 1000, 1899, 1900, 1970, 2000, 2020, 2024, 9998, 9999]) if r < 0.4 else rng.randint(1, 9999)
    m = rng.randint(1, 12)
    dmax = [31, 29 if (y % 4 == 0 and (y % 100 != 0 or y % 400 == 0)) else 28, 31, 30, 31, 30, 31, 31, 30, 31, 30, 31][m - 1]
    d = rng.choice([1, dmax, rng.randint(1, dmax)])
    return D.date(y, m, d)


def gen_time(rng):
    us = rng.choice([0, 1, 9, 10, 99999, 100000, 500000, 999999, rng.randint(0, 999999), rng.randint(0, 999999)])
    return D.time(rng.choice([0, 23, rng.randint(0, 23)]), rng.choice([0, 59, rng.randint(0, 59)]),
                  rng.choice([0, 59, rng.randint(0, 59)]), us)


def gen_datetime(rng):
    return D.datetime.combine(gen_date(rng), gen_time(rng))


DT_CORPUS = [D.datetime(1, 1, 1), D.datetime(1, 1, 1, 0, 0, 0, 1), D.datetime(9999, 12, 31, 23, 59, 59, 999999),
             D.datetime(2020, 2, 29, 12, 0, 0, 500000), D.datetime(1900, 1, 1), D.datetime(2000, 10, 10, 10, 10, 10, 100000),
             D.datetime(999, 9, 9, 9, 9, 9, 9), D.datetime(2021, 12, 1, 0, 0, 0, 10)]
DATE_CORPUS = [D.date(1, 1, 1), D.date(9999, 12, 31), D.date(2020, 2, 29), D.date(1900, 1, 1), D.date(100, 10, 1), D.date(2000, 1, 31)]
TIME_CORPUS = [D.time(0, 0, 0), D.time(0, 0, 0, 1), D.time(23, 59, 59, 999999), D.time(12, 0, 0, 500000), D.time(1, 2, 3, 10),
               D.time(9, 9, 9, 99999)]


def gen_decimal(rng, places):
    ip = rng.choice([0, 1, 5, 12, 999, 1234567, 10 ** (10 - places) - 1, rng.randint(0, 10 ** (10 - places) - 1)])
    k = rng.randint(0, places)
    fp = rng.randint(0, 10 ** k - 1) if k else 0
    s = '%s%d' % (rng.choice(['', '-']), ip)
    if k:
        s += '.' + ('%%0%dd' % k) % fp
    return Dec(s)


DEC_CORPUS = ['0', '1.500', '-1.5', '9999999.999', '0.001', '5', '5.000', '-0.5', '0.10', '100', '1.1', '2.50', '1234567.125', '-0', '0.000']


def gen_bytes(rng):
    n = rng.choice([0, 1, 2, 3, 4, 5, 6, 7, 16, 33, 100])
    return bytes(rng.getrandbits(8) for _ in range(n))


BYTES_CORPUS = [b'', b'\x00', b'\xff', b'ab', b'abc', b'abcd', b'\x00\x00\x00', b'\xff\xff\xff', b'\xfb\xef\xbe', b'\xfb\xff',
                bytes(range(256)), bytes(range(255, -1, -1)), b"'", b"it's"]


def gen_json(rng, depth=0):
    r = rng.random()
    if depth > 2 or r < 0.45:
        return rng.choice([0, 1, -5, 2 ** 40, True, False, None, 1.5, 0.1, '', 'x', "it's", 'é\U0001F600', 'a"b\\c', '\n'])
    if r < 0.75:
        return [gen_json(rng, depth + 1) for _ in range(rng.randint(0, 3))]
    return {gen_text(rng)[:5] or 'k': gen_json(rng, depth + 1) for _ in range(rng.randint(0, 3))}


JSON_CORPUS = [{}, [], {'a': [1, 2.5, None, 'x']}, 'str', 5, True, False, 0, 1.5, [1], '', {'k': {'k': {'k': []}}}, "'", 'null']
PICKLE_CORPUS = [{'a': [1, 2]}, 'x', b'bytes', 0, 1.5, (1, 2), [], {}, True, ('a', ('b',)), D.date(2020, 1, 2), "it's", '\U0001F600']


def cross_pool(e, cache):
    other, objs = e['others'][cache]
    return [None, True, False, 0, 1, 2, -1, 5, 2.5, 0.0, 'abc', '12', '-7', '', ' 3', b'ab', b'12', D.datetime(2020, 1, 2, 3, 4, 5, 6),
            D.date(2020, 1, 2), D.time(3, 4, 5, 6), D.time(0, 0), Dec('1.5'), Dec('5'), objs[0], objs[1], uuid.UUID(int=5), [1], (1, 2),
            D.timedelta(seconds=3700, microseconds=5), {'a': 1}, '2020-01-02', '2021-02-30', '03:04:05', '03:04:05.5', '3:4:5.1234567',
            '2020-01-02 03:04:05', '2020-1-2', 2 ** 63, 2 ** 53 + 1, 2 ** 54, -2 ** 63 - 1, 10 ** 25, float('inf'), float('nan'), 'a\x00b',
            Dec('12345678901234567890.123'), Dec('NaN'), Dec('1E+3'), bytearray(b'ab'), 3.0,
            0.1, 21.12, -1234.56, 1e-7, 0.3, 2.675, Dec('0.1'), Dec('-21.12'), '21.12', '0.1'] + list(e['others'][('s', cache)][1][:2])


def gen_foreign(rng):
    """a plain value of SOME Python type, to be given to a column of another type (cross-feeding): moderate
    magnitudes, decimal (non-dyadic) fractions, digit strings — what an application would plausibly pass"""
    k = rng.randint(0, 9)
    if k == 0:
        return rng.randint(-10 ** 6, 10 ** 6)
    if k == 1:
        return rng.randint(-10 ** 7, 10 ** 7) / rng.choice([10, 100, 1000])          # float, mostly non-dyadic
    if k == 2:
        return Dec(rng.randint(-10 ** 7, 10 ** 7)) / rng.choice([1, 10, 100, 1000])
    if k == 3:
        return str(rng.randint(-10 ** 4, 10 ** 4) / rng.choice([1, 10, 100]))
    if k == 4:
        return str(rng.randint(-10 ** 6, 10 ** 6))
    if k == 5:
        return gen_datetime(rng)
    if k == 6:
        return gen_date(rng)
    if k == 7:
        return gen_time(rng)
    if k == 8:
        return rng.random() < 0.5
    return gen_bytes(rng)


def in_domain(T, v):
    """is v in the documented domain of column type T (None always is)"""
    if v is None:
        return True
    t = type(v)
    if T in ('string', 'unicode'):
        return t is str and '\x00' not in v and tok(v) != 'x'
    if T in ('int', 'tinyInt', 'smallInt', 'mediumInt', 'bigInt'):
        return t is int and INT64_MIN <= v <= INT64_MAX
    if T == 'bool':
        return t is bool
    if T == 'float':
        return t is float and v == v and v not in (float('inf'), float('-inf'))
    if T in ('dateTime', 'timestamp'):
        return t is D.datetime
    if T == 'date':
        return t is D.date
    if T == 'time':
        return t is D.time
    if T in ('decimal', 'currency', 'decimalString'):
        if t is not Dec or not v.is_finite():
            return False
        places = 2 if T == 'currency' else 3
        sign, digits, exp = v.as_tuple()
        if T == 'decimalString':
            return -places <= exp <= 0 and len(digits) + min(exp, 0) <= 10 - places and len(v.to_eng_string()) <= 13 and \
                'E' not in v.to_eng_string()
        return exp >= -places and exp <= 0 and len(digits) + exp <= 10 - places
    if T == 'enum':
        return t is str and v in ENUM_VALUES
    if T == 'blob':
        return t is bytes
    if T == 'pickle':
        try:
            return same(pickle.loads(pickle.dumps(v, pickle.HIGHEST_PROTOCOL)), v)
        except Exception:
            return False
    if T == 'uuid':
        return t is uuid.UUID
    if T == 'json':
        return t in (dict, list, str, int, float, bool)
    if T in ('fkInt', 'fkIntS'):
        return t is int and 1 <= v <= 3
    if T == 'fkStr':
        return t is str and v in STR_IDS
    return False


def vclass(T, v):
    """stable classification of a value for finding keys (one key per root cause, not per value)"""
    from sqlobject import SQLObject
    t = type(v)
    if isinstance(v, SQLObject):
        return 'SQLObject'
    num = None
    if t in (int, float, Dec) and t is not bool:
        try:
            num = int(v)
        except (ValueError, OverflowError, decimal.InvalidOperation):
            num = None
    if T == 'float':
        if t is int:
            try:
                return 'int' if float(v) == v else 'int not exactly representable as double'
            except OverflowError:
                return 'int not exactly representable as double'
        return t.__name__
    if num is not None and not (INT64_MIN <= num <= INT64_MAX) and \
            (t is int or T in ('int', 'tinyInt', 'smallInt', 'mediumInt', 'bigInt', 'fkInt', 'fkIntS')):
        return 'integer beyond int64'
    if t is Dec:
        if not v.is_finite():
            return 'Decimal non-finite'
        if T in ('decimal', 'currency'):
            if len(v.as_tuple().digits) > 15:
                return 'Decimal beyond 15 digits'
            if v == v.to_integral_value():
                return 'integral Decimal'
        return 'Decimal'
    return t.__name__


def domain_values(T, ctx, n):
    rng = ctx.rng
    if T in ('string', 'unicode'):
        return TEXT_CORPUS + [gen_text(rng) for _ in range(n)]
    if T in ('int', 'tinyInt', 'smallInt', 'mediumInt', 'bigInt'):
        k = n if T == 'int' else max(4, n // 4)
        return (INT_CORPUS if T in ('int', 'bigInt') else INT_CORPUS[:8] + [INT64_MAX, INT64_MIN]) + [clamp64(gen_int64(rng)) for _ in range(k)]
    if T == 'bool':
        return [True, False]
    if T == 'float':
        return FLOAT_CORPUS + [gen_float(rng) for _ in range(n)]
    if T in ('dateTime', 'timestamp'):
        return DT_CORPUS + [gen_datetime(rng) for _ in range(n if T == 'dateTime' else n // 3)]
    if T == 'date':
        return DATE_CORPUS + [gen_date(rng) for _ in range(n)]
    if T == 'time':
        return TIME_CORPUS + [gen_time(rng) for _ in range(n)]
    if T in ('decimal', 'currency', 'decimalString'):
        places = 2 if T == 'currency' else 3
        return [Dec(s) for s in DEC_CORPUS if in_domain(T, Dec(s))] + [gen_decimal(rng, places) for _ in range(n // 2)]
    if T == 'enum':
        return list(ENUM_VALUES)
    if T == 'blob':
        return BYTES_CORPUS + [gen_bytes(rng) for _ in range(n)]
    if T == 'pickle':
        return PICKLE_CORPUS + [gen_json(rng) for _ in range(n // 4)]
    if T == 'uuid':
        return [uuid.UUID(int=0), uuid.UUID(int=2 ** 128 - 1), uuid.UUID(int=5)] + [uuid.UUID(int=rng.getrandbits(128)) for _ in range(n // 4)]
    if T == 'json':
        return JSON_CORPUS + [gen_json(rng) for _ in range(n // 2)]
    if T in ('fkInt', 'fkIntS'):
        return [1, 2, 3]
    if T == 'fkStr':
        return list(STR_IDS)
    return []


# ----------------------------------------------------------------------------------------------- reference encodings (oracle)
def ref_cell(T, v):
    """what the raw cell must hold for a domain value: (typeof, value) — written from the documented storage
    format of each column on SQLite, not from the code under test"""
    if v is None:
        return ('null', None)
    if T in ('string', 'unicode', 'enum'):
        return ('text', v)
    if T in ('int', 'tinyInt', 'smallInt', 'mediumInt', 'bigInt', 'fkInt', 'fkIntS'):
        return ('integer', v)
    if T == 'fkStr':
        return ('text', v)
    if T == 'bool':
        return ('integer', 1 if v else 0)
    if T == 'float':
        return ('real', v)
    if T in ('dateTime', 'timestamp'):
        return ('text', '%04d-%02d-%02d %02d:%02d:%02d.%06d' % (v.year, v.month, v.day, v.hour, v.minute, v.second, v.microsecond))
    if T == 'date':
        return ('text', '%04d-%02d-%02d' % (v.year, v.month, v.day))
    if T == 'time':
        return ('text', '%02d:%02d:%02d.%06d' % (v.hour, v.minute, v.second, v.microsecond))
    if T == 'blob':
        return ('text', base64.b64encode(v).decode('ascii'))
    if T == 'uuid':
        return ('text', str(v))
    if T == 'decimalString':
        return ('text', v.to_eng_string())
    return None


# ----------------------------------------------------------------------------------------------- running one case on the real code
def raw_cell(cls, rid):
    conn = cls._connection
    row = conn.queryOne('SELECT v, typeof(v) FROM %s WHERE id = %d' % (cls.sqlmeta.table, rid)) if attr_db(cls) == 'v' else \
        conn.queryOne('SELECT v_id, typeof(v_id) FROM %s WHERE id = %d' % (cls.sqlmeta.table, rid))
    return row


def attr_db(cls):
    return cls.sqlmeta.columnList[0].dbName


def raw_row(cls, rid):
    conn = cls._connection
    c = attr_db(cls)
    return conn.queryOne('SELECT %s, typeof(%s) FROM %s WHERE id = %d' % (c, c, cls.sqlmeta.table, rid))


def wipe(cls):
    conn = cls._connection
    conn.query('DELETE FROM %s' % cls.sqlmeta.table)
    conn.cache.clear()


_rowid = [0]


def bystander_value(T):
    """a plain domain value held by the OTHER row of the same table in the 'loaded' path"""
    return {'string': 'by', 'unicode': 'by', 'int': 41, 'tinyInt': 41, 'smallInt': 41, 'mediumInt': 41, 'bigInt': 41,
            'bool': True, 'float': 1.5, 'dateTime': D.datetime(2001, 2, 3, 4, 5, 6, 7), 'timestamp': D.datetime(2001, 2, 3, 4, 5, 6, 7),
            'date': D.date(2001, 2, 3), 'time': D.time(4, 5, 6, 7), 'decimal': Dec('1.5'), 'currency': Dec('1.5'),
            'decimalString': Dec('1.500'), 'enum': 'a', 'blob': b'by', 'pickle': {'k': 1}, 'uuid': uuid.UUID(int=9),
            'json': {'k': [1]}, 'fkInt': 2, 'fkStr': 'x', 'fkIntS': 2}[T]


def raw_of(cls, rid):
    conn = cls._connection
    c = attr_db(cls)
    return conn.queryOne('SELECT %s, typeof(%s), w FROM %s WHERE id = %s' % (c, c, cls.sqlmeta.table, conn.sqlrepr(rid)))


def hit_same_row(cls, obj):
    """select / selectBy / get that return the row of `obj` (the cache hands back the held instance)"""
    rid = obj.id
    got = list(cls.select(cls.q.id == rid)) + list(cls.selectBy(w=7)) + [cls.get(rid)] + list(cls.select())
    return got


class ListenerBoom(Exception):
    """raised by the harness's own RowUpdatedSignal listener in the 'listener-raises' path"""


def mutate_in_place(x):
    """change a mutable value after it was handed to the column (what was stored must not follow)"""
    if isinstance(x, list):
        x.append('MUTATED-AFTER-WRITE')
    elif isinstance(x, dict):
        x['MUTATED-AFTER-WRITE'] = 1
    elif isinstance(x, bytearray):
        x.extend(b'!')


def run_case(e, T, v, path, variant, cache, after_write=None):
    """returns dict with outcome of the write and of every read path on the real code"""
    cls = e['classes'][(T, variant, cache)]
    conn = cls._connection
    a = attr(T)
    out = {'write': 'ok', 'reads': {}, 'rid': None}
    obj = None
    blocker = None
    bystand = None
    wipe(cls)
    _rowid[0] += 1
    idkw = {'id': 'r%d' % _rowid[0]} if T == 'fkIntS' else {}

    def view(name):
        # the value the writing instance shows at this point of the sequence (a failing read is an outcome)
        try:
            out['reads'][name] = ('ok', getattr(obj, a))
        except Exception as ex:
            out['reads'][name] = (exc_kind(ex), '%s: %s' % (type(ex).__name__, str(ex)[:100]))
    try:
        if path == 'create':
            obj = cls(**dict(idkw, **{a: v}))
        else:
            obj = cls(**dict(idkw, **{a: None}))
            out['rid'] = obj.id
            if path in ('expire-lazy', 'expire-eager'):
                # expire, assign, read a DIFFERENT column (reloads the row), read the assigned one; then flush
                obj.expire()
                setattr(obj, a, v)
                views = []
                obj.w
                views.append(('after-expire-assign-reload', getattr(obj, a)))
                # queries that return the SAME row while the assignment is (on a lazy class) still pending
                hit_same_row(cls, obj)
                views.append(('after-assign-then-select-of-the-row', getattr(obj, a)))
                if cls.sqlmeta.lazyUpdate:
                    obj.syncUpdate()
                    views.append(('after-syncUpdate', getattr(obj, a)))
                    obj.w
                    views.append(('after-syncUpdate-other-column', getattr(obj, a)))
                for n, val in views:
                    out['reads'][n] = ('ok', val)
            elif path == 'expire-sync-assign':
                # expire, refresh the whole row with sync(), then assign (and flush on a lazy class)
                obj.expire()
                obj.sync()
                setattr(obj, a, v)
                view('writer-right-after-expire-sync-assign')
                if cls.sqlmeta.lazyUpdate:
                    obj.syncUpdate()
                    view('writer-right-after-syncUpdate')
            elif path == 'loaded':
                # every instance involved is LOADED from the database (nothing was created by this "process"):
                # the writer, another row of the same table and a row of another class on the same connection;
                # the others flush / refresh (nothing of theirs is pending) around the writer's assignment
                peer_cls = e['classes'][('string' if T == 'int' else 'int', 'lazy', cache)]
                wipe(peer_cls)
                b0 = bystander_value(T)
                brow = cls(**dict({'id': 'y%d' % _rowid[0]} if T == 'fkIntS' else {}, **{a: b0}))
                prow = peer_cls(v=None)
                rid, bid, pid = obj.id, brow.id, prow.id
                bystand = {'expected': b0, 'before': raw_of(cls, bid), 'peer_before': raw_of(peer_cls, pid),
                           'cls': cls, 'bid': bid, 'peer_cls': peer_cls, 'pid': pid, 'events': []}
                obj = brow = prow = None
                conn.cache.clear()
                others = [cls.get(bid), peer_cls.get(pid)]
                obj = cls.get(rid)

                def others_flush(tag):
                    for o in others:
                        for meth in ('syncUpdate', 'sync'):
                            try:
                                getattr(o, meth)()
                            except Exception as ex:
                                bystand['events'].append('%s: %s.%s() raises %s' % (tag, type(o).__name__, meth, type(ex).__name__))
                bystand['others'] = others
                setattr(obj, a, v)
                view('writer-right-after-assign')
                others_flush('after the assignment')
                view('writer-after-other-instances-synced')
                if cls.sqlmeta.lazyUpdate:
                    obj.syncUpdate()
                    view('writer-right-after-syncUpdate')
                    others_flush('after the flush')
            elif path in ('listener', 'listener-raises'):
                # a RowUpdatedSignal listener (and a post function it registers) reads the writing instance while
                # the write is being announced; in 'listener-raises' it then fails: the statement was executed, so
                # afterwards the instance must show what the row holds
                from sqlobject import events
                from pydispatch import dispatcher
                seen = []

                def on_updated(inst, post_funcs):
                    try:
                        seen.append(('listener', ('ok', getattr(inst, a))))
                    except Exception as ex:
                        seen.append(('listener', (exc_kind(ex), type(ex).__name__)))
                    post_funcs.append(lambda i: seen.append(('post function', ('ok', getattr(i, a)))))
                    if path == 'listener-raises':
                        raise ListenerBoom()
                events.listen(on_updated, cls, events.RowUpdatedSignal, weak=False)
                try:
                    try:
                        if ((_rowid[0] * 2654435761) >> 9) & 3:       # attribute assignment 3 times in 4, set() otherwise
                            setattr(obj, a, v)
                        else:
                            obj.set(**{a: v})
                        if cls.sqlmeta.lazyUpdate:
                            obj.syncUpdate()
                    except ListenerBoom:
                        out['listener_raised'] = True
                finally:
                    dispatcher.disconnect(on_updated, signal=events.RowUpdatedSignal, sender=cls, weak=False)
                for k, (n, r) in enumerate(seen):
                    out['reads']['seen by the RowUpdatedSignal %s (%d)' % (n, k)] = r
                view('writer-right-after-the-announced-write')
            elif path == 'lazy-failflush' and variant == 'lazy':
                # a deferred assignment whose first flush the database refuses (UNIQUE conflict on u with the
                # blocker row); the conflict is removed and the flush retried: the value must reach the row
                blocker = cls(**dict({'id': 'b%d' % _rowid[0]} if T == 'fkIntS' else {}, **{a: None, 'u': 1}))
                obj.u = 1
                setattr(obj, a, v)
                view('pending')
                try:
                    obj.syncUpdate()
                    out['first_flush'] = 'went through'      # not this property's business
                except Exception as ex:
                    out['first_flush'] = 'refused: %s' % type(ex).__name__
                view('writer-after-refused-syncUpdate')
                obj.u = 2
                obj.syncUpdate()
                view('writer-right-after-retried-syncUpdate')
            elif path == 'lazy-failflush':
                # not a lazy class: nothing is deferred, a plain assignment
                setattr(obj, a, v)
            elif path == 'setattr':
                setattr(obj, a, v)
            elif path == 'set':
                obj.set(**{a: v})
            else:  # lazy: deferred update, then flush
                if variant == 'lazy':
                    setattr(obj, a, v)
                    out['pending_view'] = ('ok', getattr(obj, a))
                    out['reads']['pending'] = ('ok', getattr(obj, a))
                    hit_same_row(cls, obj)
                    out['reads']['pending-after-select-of-the-row'] = ('ok', getattr(obj, a))
                    obj.syncUpdate()
                    out['reads']['writer-right-after-syncUpdate'] = ('ok', getattr(obj, a))
                else:
                    obj.set(**{a: v})
                    obj.sync()
        out['rid'] = obj.id
        if after_write is not None:
            after_write()
    except Exception as ex:
        out['write'] = exc_kind(ex)
        out['write_exc'] = '%s: %s' % (type(ex).__name__, str(ex)[:120])
    if bystand is not None:
        # what the rows nobody wrote to hold now, and what their (loaded) instances show; then remove them
        try:
            bystand['after'] = raw_of(bystand['cls'], bystand['bid'])
            bystand['peer_after'] = raw_of(bystand['peer_cls'], bystand['pid'])
            if 'others' in bystand:
                try:
                    bystand['shown'] = ('ok', getattr(bystand['others'][0], a))
                except Exception as ex:
                    bystand['shown'] = (exc_kind(ex), type(ex).__name__)
            conn.query('DELETE FROM %s WHERE id = %s' % (cls.sqlmeta.table, conn.sqlrepr(bystand['bid'])))
            conn.cache.expire(bystand['bid'], cls)
        except Exception as ex:
            bystand['error'] = 'error %s' % type(ex).__name__
        bystand.pop('others', None)
        out['bystand'] = bystand
    if blocker is not None:
        # the blocker row is scaffolding: remove it (raw SQL) before the snapshot of the table and the queries
        try:
            conn.query('DELETE FROM %s WHERE id = %s' % (cls.sqlmeta.table, conn.sqlrepr(blocker.id)))
            conn.cache.expire(blocker.id, cls)
        except Exception as ex:
            out['blocker_delete'] = 'error %s' % type(ex).__name__
    # what is in the table now
    try:
        rows = conn.queryAll('SELECT id, %s, typeof(%s) FROM %s' % (attr_db(cls), attr_db(cls), cls.sqlmeta.table))
    except Exception as ex:
        rows = 'error %s' % type(ex).__name__
    out['rows'] = rows
    if out['write'] != 'ok':
        return out, cls, obj

    def rd(name, f):
        try:
            out['reads'][name] = ('ok', f())
        except Exception as ex:
            out['reads'][name] = (exc_kind(ex), '%s: %s' % (type(ex).__name__, str(ex)[:100]))
    rid = obj.id
    rd('writer', lambda: getattr(obj, a))

    def fresh():
        conn.cache.clear()
        return getattr(cls.get(rid), a)
    rd('fresh', fresh)

    def selrow():
        conn.cache.clear()
        return getattr(list(cls.select(cls.q.id == rid))[0], a)
    rd('select', selrow)

    def selrow_cached():
        return getattr(list(cls.select(cls.q.id == rid))[0], a)
    rd('select-cached', selrow_cached)
    # the writing instance again, after the queries above handed the same row to the cache
    rd('writer-after-selects', lambda: getattr(obj, a))
    return out, cls, obj


def queries(cls, T, v):
    a = attr(T)
    res = {}
    try:
        res['selectBy'] = cls.selectBy(**{a: v}).count()
    except Exception as ex:
        res['selectBy'] = exc_kind(ex)
    try:
        res['q=='] = cls.select(getattr(cls.q, a) == v).count()
    except Exception as ex:
        res['q=='] = exc_kind(ex)
    return res


def same(a, b):
    """Python equality, NaN-safe, no type requirement"""
    try:
        if a != a and b != b and type(a) is type(b):   # NaN (float or Decimal) read back as NaN
            return True
        return bool(a == b)
    except Exception:
        return False


def float_alter_key(v, reads):
    """narrow classes for an altered FloatCol value: the SQLite text->double misrounding (exactly one ulp, all
    read paths agreeing, decimal exponent magnitude >= 250) has its own key; anything else says how far off and where"""
    import math

    def bits(f):
        b = struct.unpack('>q', struct.pack('>d', f))[0]
        return b if b >= 0 else -(b & 0x7FFFFFFFFFFFFFFF)
    off = [r for r in reads if not (type(r) is float and r == v)]      # the reads that do not show the written value
    agree = all(type(r) is float and r == off[0] for r in off)          # (the writer's cache legitimately still does)
    r = off[0]
    try:
        ulps = abs(bits(r) - bits(v)) if (type(r) is float and r == r) else None
    except Exception:
        ulps = None
    e10 = abs(int(math.floor(math.log10(abs(v))))) if v != 0 else 0
    if agree and ulps == 1 and e10 >= 250:
        return 'C01:FloatCol:sqlite-atof-1ulp-at-extreme-exponent'
    err = 'nan-or-nonfloat' if ulps is None else ('1ulp' if ulps == 1 else ('2-16ulp' if 2 <= ulps <= 16 else '>16ulp'))
    return 'C01:FloatCol:domain value float altered (%s, |exp10|%s250, read paths %s)' % (
        err, '>=' if e10 >= 250 else '<', 'agree' if agree else 'differ among themselves')


def describe(T, v, path, variant, cache):
    return {'type': T, 'value': repr(v)[:200], 'path': path, 'variant': variant, 'cache': cache,
            'replay': replay_token(T, v)}


def replay_token(T, v):
    try:
        return base64.b64encode(pickle.dumps(v)).decode('ascii') if tok(v) != 'x' or T in ('json', 'pickle') else None
    except Exception:
        return None


class Once:
    """report each finding key once per run (the framework keeps a bounded list of failures)"""

    def __init__(self, ctx):
        self.ctx = ctx
        self.seen = getattr(ctx, '_c01_seen', None)
        if self.seen is None:
            self.seen = set()
            try:
                ctx._c01_seen = self.seen
            except Exception:
                pass

    def oracle_fail(self, key, what, case):
        if key in self.seen:
            return
        self.seen.add(key)
        self.ctx.oracle_fail(key, what, case)


def oracle(ctx, e, T, v, path, variant, cache, out, cls):
    """the property on the implementation, independent of the model"""
    ctx = Once(ctx)
    desc = describe(T, v, path, variant, cache)
    if out.get('mutated'):
        desc['caller_mutates_the_object_after_the_write'] = True
    col = COLNAME[T]
    dom = in_domain(T, v)
    vc = vclass(T, v)
    by = out.get('bystand')
    if by is not None:
        # rows nobody wrote to must be untouched, whatever happened to the written one
        if by.get('error') or by.get('events'):
            ctx.oracle_fail('C01:write disturbs other loaded instances', '%s: writing %r to one loaded instance: %s'
                            % (col, v, by.get('error') or '; '.join(by['events'][:3])), desc)
        elif by.get('after') != by.get('before') and not (by['after'] and by['before'] and same(by['after'][0], by['before'][0])
                                                         and by['after'][1:] == by['before'][1:]):
            ctx.oracle_fail('C01:write leaks into another row of the same table',
                            '%s: row B held %r; after %r was assigned to (loaded) row A and the instances synced, row B holds %r'
                            % (col, by['before'], v, by['after']), desc)
        elif by.get('peer_after') != by.get('peer_before'):
            ctx.oracle_fail('C01:write leaks into a row of another class',
                            '%s: after %r was assigned to a loaded instance, the row of another class changed from %r to %r'
                            % (col, v, by['peer_before'], by['peer_after']), desc)
        elif 'shown' in by and (by['shown'][0] != 'ok' or not same(by['shown'][1], by['expected'])
                                or type(by['shown'][1]) is not type(by['expected'])):
            ctx.oracle_fail('C01:write changes what another loaded instance shows',
                            '%s: instance of row B (holding %r) shows %r after %r was assigned to row A'
                            % (col, by['expected'], by['shown'][1], v), desc)
    if out['write'] != 'ok':
        if dom:
            ctx.oracle_fail('C01:%s:domain value %s refused' % (col, vc),
                            '%s refuses the domain value %r on %s (%s)' % (col, v, path, out.get('write_exc')), desc)
            return
        # rejected: nothing may be stored
        rows = out['rows']
        stored = [r for r in rows if r[2] != 'null'] if isinstance(rows, list) else rows
        if path == 'create' and isinstance(rows, list) and rows:
            stored = rows if any(r[2] != 'null' for r in rows) else []
        if stored:
            # the statement went through and the failure came afterwards (re-reading the row)
            ctx.oracle_fail('C01:%s<-%s:unreadable' % (col, vc),
                            '%s accepts %r (%s raised %s only after the row was written) and stores %r, which it cannot read back'
                            % (col, v, path, out['write'], stored[0][1]), desc)
        return
    reads = out['reads']
    bad = [(n, r) for n, r in reads.items() if r[0] != 'ok']
    if bad:
        key = 'C01:%s<-%s:unreadable' % (col, vc) if not dom else 'C01:%s:domain value %s unreadable' % (col, vc)
        ctx.oracle_fail(key, '%s accepts %r on %s, stores %r, then reading (%s) raises %s'
                        % (col, v, path, out['rows'][0][1] if out['rows'] else None, bad[0][0], bad[0][1][1]), desc)
        return
    vals = {n: r[1] for n, r in reads.items()}
    if dom:
        for n, r in vals.items():
            if not same(r, v):
                key = 'C01:%s:domain value %s altered' % (col, vc)
                if T == 'float' and type(v) is float and type(r) is float:
                    key = float_alter_key(v, list(vals.values()))
                ctx.oracle_fail(key, '%s: wrote %r by %s, %s read gives %r' % (col, v, path, n, r), desc)
                return
            if type(r) is not type(v) and T not in ('pickle', 'json'):
                ctx.oracle_fail('C01:%s:%s read back as %s' % (col, vc, type(r).__name__),
                                '%s: wrote %r by %s, %s read gives %r (type %s, written %s)'
                                % (col, v, path, n, r, type(r).__name__, type(v).__name__), desc)
                return
        rc = ref_cell(T, v)
        if rc is not None and out['rows']:
            row = out['rows'][0]
            got = (row[2], row[1])
            ok = got[0] == rc[0] and (same(got[1], rc[1]))
            if not ok:
                ctx.oracle_fail('C01:%s:raw cell of %s' % (col, vc), '%s: wrote %r, raw SELECT gives %r, reference encoding %r'
                                % (col, v, got, rc), desc)
                return
        if v is None or not (type(v) is float and v != v):
            q = queries(cls, T, v)
            for n, c in q.items():
                if c != 1:
                    ctx.oracle_fail('C01:%s:%s does not find %s' % (col, n, vc),
                                    '%s: row holding %r is not found by %s (result %r)' % (col, v, n, c), desc)
                    return
        if T in FK_TYPES and v is not None and out.get('rid') is not None:
            # the key must lead to the referenced row, and the row must be found through the instance
            try:
                cls._connection.cache.clear()
                tgt = cls.get(out['rid']).v
                res = (type(tgt.id).__name__, tgt.id)
            except Exception as ex:
                res = 'raises %s' % type(ex).__name__
                tgt = None
            if res != (type(v).__name__, v):
                ctx.oracle_fail('C01:%s:traversal of %s' % (col, vc),
                                '%s: row written with key %r: following the reference gives %r' % (col, v, res), desc)
                return
            try:
                n = cls.selectBy(v=tgt).count()
            except Exception as ex:
                n = 'raises %s' % type(ex).__name__
            if n != 1:
                ctx.oracle_fail('C01:%s:selectBy(instance) does not find %s' % (col, vc),
                                '%s: row referencing %r is not found by selectBy(v=<instance>) (result %r)' % (col, v, n), desc)
                return
    else:
        names = list(vals)
        for n in names[1:]:
            if not same(vals[names[0]], vals[n]):
                ctx.oracle_fail('C01:%s<-%s:altered' % (col, vc),
                                '%s accepts %r on %s; %s read gives %r but %s read gives %r'
                                % (col, v, path, names[0], vals[names[0]], n, vals[n]), desc)
                return
        if 'pending_view' in out and not same(out['pending_view'][1], vals['fresh']):
            ctx.oracle_fail('C01:%s<-%s:altered' % (col, vc),
                            '%s accepts %r (lazy); before syncUpdate the writer shows %r, a fresh read gives %r'
                            % (col, v, out['pending_view'][1], vals['fresh']), desc)


# ----------------------------------------------------------------------------------------------- correspondence
def impl_streams(e, T, v, cache):
    """the model's observable functions evaluated on the real code, one class (eager) per type"""
    from sqlobject.sqlbuilder import sqlrepr, SQLObjectState
    cls = e['classes'][(T, 'eager', cache)]
    conn = cls._connection
    c = cls.sqlmeta.columnList[0]
    state = SQLObjectState(cls, connection=conn)
    res = {}
    try:
        dbv = c.from_python(v, state) if c.from_python else v
        res['db'] = ('ok', dbv)
    except Exception as ex:
        res['db'] = (exc_kind(ex), None)
        return res
    try:
        res['lit'] = ('ok', sqlrepr(dbv, 'sqlite'))
    except Exception as ex:
        res['lit'] = (exc_kind(ex), None)
    try:
        res['wc'] = ('ok', c.to_python(dbv, state) if c.to_python else dbv)
    except Exception as ex:
        res['wc'] = (exc_kind(ex), None)
    return res


def db_token(T, dbv):
    """canonical token of a from_python result (a 'db value')"""
    return tok(dbv)


def parse_model_w(line):
    d = {}
    for part in line.split(' '):
        k, _, val = part.partition('=')
        d[k] = val
    return d



# ----------------------------------------------------------------------------------------------- directed probes
def make_col(T, e, cache, **kw):
    from sqlobject import col
    if T == 'enum':
        return col.EnumCol(enumValues=list(ENUM_VALUES), **kw)
    if T in ('decimal', 'decimalString'):
        return {'decimal': col.DecimalCol, 'decimalString': col.DecimalStringCol}[T](size=10, precision=3, **kw)
    ctor = {'string': col.StringCol, 'unicode': col.UnicodeCol, 'int': col.IntCol, 'tinyInt': col.TinyIntCol,
            'smallInt': col.SmallIntCol, 'mediumInt': col.MediumIntCol, 'bigInt': col.BigIntCol, 'bool': col.BoolCol,
            'float': col.FloatCol, 'dateTime': col.DateTimeCol, 'date': col.DateCol, 'time': col.TimeCol,
            'timestamp': col.TimestampCol, 'currency': col.CurrencyCol, 'blob': col.BLOBCol, 'pickle': col.PickleCol,
            'uuid': col.UuidCol, 'json': col.JSONCol}[T]
    return ctor(**kw)


ALT_TYPES = [T for T in TYPES if T not in FK_TYPES]
_alt = {}


def alt_classes(e):
    """per column kind: a class whose column is an alternateID (by<Col>()) and one with a unique DatabaseIndex on it"""
    if _alt:
        return _alt
    from sqlobject import SQLObject, DatabaseIndex
    conn = e['conns'][True]
    for T in ALT_TYPES:
        try:
            a = type(sqlo.uniq('C01Alt%s' % T.capitalize()), (SQLObject,),
                     {'_connection': conn, 'v': make_col(T, e, True, alternateID=True), 'w': make_col('int', e, True, default=7)})
            a.createTable()
            i = type(sqlo.uniq('C01Idx%s' % T.capitalize()), (SQLObject,),
                     {'_connection': conn, 'v': make_col(T, e, True, default=None), 'w': make_col('int', e, True, default=7),
                      'vIndex': DatabaseIndex('v', unique=True)})
            i.createTable()
            _alt[T] = (a, i)
        except Exception as ex:
            _alt[T] = 'declaration refused: %s: %s' % (type(ex).__name__, str(ex)[:80])
    return _alt


def directed_lookup(ctx, e):
    """"a query for rows whose column equals that value finds the row" through the alternate-ID accessor by<Col>()
    and through get() of a unique DatabaseIndex, for every column kind (witness of the repaired
    C01:UuidCol:byAlternateID-refused-double-conversion: UuidCol lookups were refused)"""
    once = Once(ctx)
    classes = alt_classes(e)
    for T in ALT_TYPES:
        pair = classes[T]
        col = COLNAME[T]
        if isinstance(pair, str):
            ctx.note('alternateID / unique index on %s: %s' % (col, pair))
            continue
        vals = []
        for x in domain_values(T, ctx, 6):
            if x is None or not in_domain(T, x) or any(same(x, y) and type(x) is type(y) for y in vals):
                continue
            if type(x) is float and engine_float(repr(x)) != x:
                continue
            vals.append(x)
        vals = vals[:12]
        for which, cls in (('by<Col>() of an alternateID column', pair[0]), ('get() of a unique index', pair[1])):
            wipe(cls)
            stored = []
            for x in vals:
                try:
                    stored.append((x, cls(v=x).id))
                except Exception:
                    pass       # equal under the column's own encoding (UNIQUE), or refused: the main run's business
            cls._connection.cache.clear()
            for x, rid in stored:
                desc = {'type': T, 'value': repr(x)[:120], 'entry': which}
                ctx.case(('lookup', T, which, tok(x, T if T in ('json', 'pickle') else None)), kind='lookup/%s' % T)
                try:
                    got = cls.byV(x) if cls is pair[0] else cls.vIndex.get(x)
                    res = 'row %r' % (got.id,)
                    val = got.v
                except Exception as ex:
                    got = None
                    res = 'raises %s: %s' % (type(ex).__name__, str(ex)[:80])
                    if T == 'uuid' and exc_kind(ex) == 'Invalid':
                        once.oracle_fail('C01:UuidCol:byAlternateID-refused-double-conversion',
                                         'UuidCol: %s for the stored value %r %s' % (which, x, res), desc)
                        continue
                if got is None or got.id != rid:
                    once.oracle_fail('C01:%s:%s does not find the row' % (col, which),
                                     '%s: the row holding %r (id %r) looked up through %s: %s' % (col, x, rid, which, res), desc)
                elif not same(val, x) or (type(val) is not type(x) and T not in ('pickle', 'json')):
                    once.oracle_fail('C01:%s:%s returns an altered value' % (col, which),
                                     '%s: looked up %r through %s, the instance shows %r' % (col, x, which, val), desc)


def gen_mutable(rng, depth=0):
    """a list or dict (possibly nested) of JSON-able values"""
    if rng.random() < 0.5:
        return [gen_json(rng, depth + 1) for _ in range(rng.randint(0, 3))]
    return {('k%d' % i): gen_json(rng, depth + 1) for i in range(rng.randint(0, 3))}


def directed_mutable(ctx, e):
    """columns holding mutable Python objects (PickleCol, JSONCol): what was STORED is what every read path shows —
    not the caller's object, which is changed in place right after the write; and a mutable `default=` object is
    not shared between rows"""
    from sqlobject import SQLObject, col
    once = Once(ctx)
    fixed = [[1], {'a': [1, 2]}, [], {}, [[1], {'b': None}]]
    n = 0
    for T in ('pickle', 'json'):
        for x in [copy.deepcopy(f) for f in fixed] + [gen_mutable(ctx.rng) for _ in range(ctx.budget(6, 60))]:
            for path in ('create', 'setattr', 'set', 'lazy', 'expire-lazy', 'loaded'):
                n += 1
                variant = 'lazy' if path in ('lazy', 'expire-lazy') else VARIANTS[n % 3]
                cache = (n % 3 != 2)
                value = copy.deepcopy(x)
                snap = copy.deepcopy(x)
                try:
                    out, cls, obj = run_case(e, T, value, path, variant, cache, after_write=lambda: mutate_in_place(value))
                except Exception as ex:
                    ctx.note('run_case crashed (mutable) for %r %r: %r' % (T, x, ex))
                    continue
                ctx.case(('mutable', T, json.dumps(snap, sort_keys=True), path), kind='mutable/%s' % T)
                out['mutated'] = True
                oracle(ctx, e, T, snap, path, variant, cache, out, cls)
    # a mutable default
    conn = e['conns'][True]
    if 'mutdef' not in _alt:
        dl, dd = [1], {'k': [1]}
        cls = type(sqlo.uniq('C01MutDefault'), (SQLObject,),
                   {'_connection': conn, 'p': col.PickleCol(default=dl), 'js': col.JSONCol(default=dd), 'w': col.IntCol(default=7)})
        cls.createTable()
        _alt['mutdef'] = (cls, dl, dd)
    cls, dl, dd = _alt['mutdef']
    wipe(cls)
    r1, r2 = cls(), cls()
    ids = (r1.id, r2.id)
    try:
        r1.p.append('IN-PLACE')          # changes r1's own Python object, nothing is assigned, nothing is stored
        r1.js['IN-PLACE'] = 1
    except Exception as ex:
        once.oracle_fail('C01:mutable default: value of a new row cannot be used', '%s' % type(ex).__name__, {'probe': 'mutable default'})
        return
    conn.cache.clear()
    f1, f2 = cls.get(ids[0]), cls.get(ids[1])
    shown = {'the other row created with the default (writer)': (r2.p, r2.js), 'fresh read of the changed row': (f1.p, f1.js),
             'fresh read of the other row': (f2.p, f2.js), 'the default object of the class': (dl, dd),
             'a row created afterwards': (lambda r: (r.p, r.js))(cls())}
    ctx.case(('mutable-default',), kind='mutable/default')
    for name, (p, js) in shown.items():
        if p != [1] or js != {'k': [1]}:
            once.oracle_fail('C01:PickleCol/JSONCol:mutable default shared between rows',
                             'rows created with default=[1] / {"k": [1]}; one row\'s value was changed in place (not assigned): '
                             '%s shows %r / %r' % (name, p, js), {'probe': 'mutable default'})
            return


RESERVED_EXTRA = ['q', 'j', 'sqlmeta', '_connection', 'dirty', 'expired', 'lazyUpdate', 'cacheValues', 'columns', 'childName',
                  '_SO_val_w', 'wID', 'instanceName', 'soClass']


def directed_names(ctx, e):
    """a column may be named like something SQLObject itself puts on the class or the instance: the declaration must
    be refused loudly (at class creation or at first use) or the column must round-trip.  Exhaustive over
    dir(SQLObject), the attributes of an instance, and a few names of sqlmeta."""
    from sqlobject import SQLObject, col
    once = Once(ctx)
    conn = e['conns'][True]
    probe = e['classes'][('int', 'eager', True)]
    wipe(probe)
    inst = probe(v=None)
    names = sorted(set([n for n in dir(SQLObject) if not n.startswith('__')] + [n for n in vars(inst) if not n.startswith('__')]
                       + RESERVED_EXTRA) - {'id'})
    wipe(probe)
    silent = []
    for n in names:
        ctx.case(('colname', n), kind='colname')
        try:
            cls = type(sqlo.uniq('C01Name'), (SQLObject,), {'_connection': conn, n: col.IntCol(default=None), 'w': col.IntCol(default=7)})
            cls.createTable()
        except BaseException as ex:
            if not isinstance(ex, Exception):
                raise
            continue                  # refused loudly at class creation
        try:
            o = cls(**{n: 5})
            rid = o.id
            seen = [('writer after create', getattr(o, n))]
            setattr(o, n, 6)
            seen.append(('writer after assignment', getattr(o, n)))
            raw = conn.queryOne('SELECT * FROM %s WHERE id = %d' % (cls.sqlmeta.table, rid))
            conn.cache.clear()
            f = cls.get(rid)
            seen.append(('fresh', getattr(f, n)))
            found = cls.selectBy(**{n: 6}).count()
            wval = f.w
        except Exception:
            continue                  # loud at first use
        expect = [5, 6, 6]
        got = [x[1] for x in seen]
        ok = all(type(g) is int and g == x for g, x in zip(got, expect)) and found == 1 and wval == 7 and 6 in raw[1:]
        if not ok:
            silent.append(n)
            what = ('a column named %r is accepted without any error but does not round-trip: wrote 5 then 6; %s; raw row %r; '
                    'selectBy(%s=6) finds %r row(s); the other column w shows %r (7 was stored)'
                    % (n, ', '.join('%s shows %s' % (k, repr(val)[:40]) for k, val in seen), raw, n, found, wval))
            desc = {'column name': n}
            if n in ('q', 'j'):
                once.oracle_fail('C01:column-named-q-or-j-shadowed', what, desc)
            elif n.startswith('_SO_'):
                # a name in SQLObject's own private naming scheme: recorded, not raised (see the final report)
                ctx.note('column name in the private _SO_ scheme silently collides: ' + what)
            else:
                once.oracle_fail('C01:column-named-%s-silently-broken' % n, what, desc)
    ctx.count('colname/silent', len(silent))

# ----------------------------------------------------------------------------------------------- run
def corpus_cases():
    import glob
    import os
    out = []
    here = os.path.join(os.path.dirname(os.path.dirname(os.path.abspath(__file__))), 'corpus', 'C01')
    for path in sorted(glob.glob(os.path.join(here, '*.json'))):
        for c in json.load(open(path, encoding='utf-8')).get('cases', []):
            if c.get('expr') == "'OTHER0'":
                out.append((c['type'], ('cross', 23)))
                continue
            out.append((c['type'], eval(c['expr'], {'D': D, 'Dec': Dec, 'uuid': uuid})))
    return out


def build_cases(ctx, e):
    rng = ctx.rng
    n = ctx.budget(110, 1500)
    cases = []
    idx = 0
    for T, v in corpus_cases():
        cases.append((T, v, idx))
        idx += 1
    for T in TYPES:
        for v in [None] + domain_values(T, ctx, n):
            cases.append((T, v, idx))
            idx += 1
    ncross = len(cross_pool(e, True))
    for T in TYPES:
        for k in range(ncross):
            cases.append((T, ('cross', k), idx))
            idx += 1
    # cross-feeding: generated values of other Python types given to every column type
    for T in TYPES:
        for _ in range(ctx.budget(14, 200)):
            cases.append((T, gen_foreign(rng), idx))
            idx += 1
    return cases


def read_stream_cases(ctx):
    """strings handed to to_python of the date/time columns (what a cell may hold)"""
    rng = ctx.rng
    base = ['2020-01-02', '2020-01-02 03:04:05', '2020-01-02 03:04:05.000006', '2020-01-02 03:04:05.5', '03:04:05', '03:04:05.000006',
            '03:04:05.1234567', '2021-02-30', '2020-02-29', '1900-02-29', '2000-02-29', '0000-01-01', '0001-01-01', '9999-12-31',
            '2020-13-01', '2020-00-10', '2020-01-00', '2020-01-32', '2020-04-31', '24:00:00.0', '23:60:00.0', '23:59:60.0', '23:59:59.',
            '', '.', '2020-01-02.5', '2020-1-2', '20-01-02', '02020-01-02', '2020-01-02 3:4:5.6', '1:2:3', '1:2:3.4', '12:34', 'abc',
            '2020-01-02T03:04:05.000006', '2020-01-02 03:04:05,000006', '2020-01-02 03:04:05.0000061', '2020-01-02 03:04:05.00000',
            '03.04.05', '2020-01-021', '2020-011-02', '99:00:00.0', '2020-01-02 03:04:05.000006.7', '2020-01-02  03:04:05.5', '2020-01-02\t03:04:05.5', '2020-01-02\u00a003:04:05.5',
            '2020-01-02 \n 03:04:05.5', ' 2020-01-02', '03:04:05 ']
    out = list(base)
    for _ in range(ctx.budget(600, 8000)):
        r = rng.random()
        if r < 0.4:
            s = rng.choice(base)
            i = rng.randint(0, len(s))
            s = s[:i] + rng.choice('0123456789-:.x') + s[i + (1 if rng.random() < 0.5 else 0):]
        elif r < 0.7:
            s = '%d-%d-%d' % (rng.randint(0, 10000), rng.randint(0, 13), rng.randint(0, 32))
            if rng.random() < 0.5:
                s = '%04d-%02d-%02d' % tuple(int(x) for x in s.split('-'))
            if rng.random() < 0.5:
                s += ' %02d:%02d:%02d' % (rng.randint(0, 24), rng.randint(0, 60), rng.randint(0, 60))
                if rng.random() < 0.7:
                    s += '.' + ''.join(rng.choice('0123456789') for _ in range(rng.randint(0, 8)))
        else:
            s = '%02d:%02d:%02d' % (rng.randint(0, 24), rng.randint(0, 60), rng.randint(0, 60))
            if rng.random() < 0.7:
                s += '.' + ''.join(rng.choice('0123456789') for _ in range(rng.randint(0, 8)))
        out.append(s)
    return out


# ------------------------------------------------------------------ interface tables of the translated validators
IFACE_CLASSES = {'NoneType': type(None), 'bool': bool, 'int': int, 'float': float, 'str': str, 'bytes': bytes,
                 'datetime.datetime': D.datetime, 'datetime.date': D.date, 'datetime.time': D.time,
                 'datetime.timedelta': D.timedelta, 'Decimal': Dec, 'UUID': uuid.UUID, 'dict': dict, 'list': list,
                 'memoryview': memoryview, 'bytearray': bytearray}
IFACE_ATTRS = ['__int__', '__float__', '__long__', '__bool__', '__nonzero__', '__unicode__', 'sqlmeta', 'strftime']


def interface_stream(ctx, e):
    """Model/CodecX.lean runs the TRANSLATED validators with a table of the classes each value tag is an instance of
    and of the attributes it has (isinstance / hasattr of the source): compare the tables with real Python objects."""
    from sqlobject import sqlbuilder

    class Plain(object):          # what a `pickled` token stands for: an object of no special class
        pass
    inst = e['others'][True][1][0]
    inst_s = e['others'][('s', True)][1][0]
    samples = [(None, 'N'), (True, 'b1'), (False, 'b0'), (0, 'i0'), (-7, 'i-7'), (2 ** 70, 'i%d' % 2 ** 70),
               (1.5, 'f' + cps('1.5')), (float('nan'), 'f' + cps('nan')), ('', 's' + cps('')), ('x.y', 's' + cps('x.y')),
               (b'', 'y' + cps(b'')), (b'ab', 'y' + cps(b'ab')), (D.datetime(2020, 1, 2, 3, 4, 5, 6), 'D2020,1,2,3,4,5,6'),
               (D.date(2020, 1, 2), 'd2020,1,2'), (D.time(3, 4, 5, 6), 't3,4,5,6'), (Dec('1.50'), 'c' + cps('1.50')),
               (uuid.UUID(int=5), 'u' + cps(str(uuid.UUID(int=5)))), ({}, 'j' + cps('{}')), ({'a': [1]}, 'j' + cps('{"a": [1]}')),
               (Plain(), 'p' + cps(b'x')), (inst, 'o%d' % inst.id), (inst_s, 'O' + cps(inst_s.id))]
    lines = []
    for _, t in samples:
        lines.append('k cls %s' % t)
        lines.append('k attr %s' % t)
    outs = ctx.model(lines)
    if outs is None:
        return
    for k, (v, t) in enumerate(samples):
        mcls, mattr = outs[2 * k], outs[2 * k + 1]
        case = {'value': repr(v)[:80], 'token': t}
        real_cls = sorted(n for n, c in IFACE_CLASSES.items() if isinstance(v, c))
        if isinstance(v, sqlbuilder.SQLExpression):
            real_cls.append('sqlbuilder.SQLExpression')
        ctx.compare('iface-classes', case, sorted(x for x in mcls.split(';') if x), real_cls)
        real_attr = sorted(a for a in IFACE_ATTRS if hasattr(v, a))
        ctx.compare('iface-attrs', case, sorted(''.join(chr(c) for c in uncps(x)) for x in mattr.split(';') if x), real_attr)
    import sqlobject.col as _col
    ctx.compare('iface-globals', {'what': 'PY2, mx / zope DateTime availability'},
                [False, False, False], [bool(_col.PY2), bool(_col.mxdatetime_available), bool(_col.zope_datetime_available)])


def run(ctx):
    e = env()
    interface_stream(ctx, e)
    cases = build_cases(ctx, e)
    # ---- model answers in one driver call
    lines = []
    plan = []
    for (T, v, idx) in cases:
        cache = (idx % 3 != 2)
        if isinstance(v, tuple) and v and v[0] == 'cross':
            v = cross_pool(e, cache)[v[1]]
        if T in FK_TYPES and hasattr(v, 'sqlmeta') and (type(v.id) is str) != (T == 'fkStr'):
            continue      # an instance of a class the key does not reference: misuse, not a value of the column
        plan.append((T, v, idx, cache))
        lines.append('w %s %s' % (type_token(T), model_in(v, T)))
    rstrings = read_stream_cases(ctx)
    rtypes = ['dateTime', 'date', 'time']
    for s in rstrings:
        for T in rtypes:
            lines.append('r %s s%s' % (T, cps(s)))
    outs = ctx.model(lines)
    k = 0
    for (T, v, idx, cache) in plan:
        m = parse_model_w(outs[k]) if outs is not None else None
        k += 1
        dom = in_domain(T, v)
        vt = model_in(v, T)
        # ---- correspondence streams
        imp = impl_streams(e, T, v, cache)
        desc0 = {'type': T, 'value': repr(v)[:200], 'token': vt}
        if m is not None and vt != 'x':
            mdb = m['db']
            if mdb != '?':
                idb = imp['db'][0] if imp['db'][0] != 'ok' else canon_model(db_token(T, imp['db'][1]), None)
                if not (idb == 'x'):
                    ctx.compare('toDb: model = validator from_python', desc0, canon_model(mdb, None), idb)
                if imp['db'][0] == 'ok' and m['lit'] != '?':
                    ilit = imp['lit'][0] if imp['lit'][0] != 'ok' else cps(imp['lit'][1])
                    ctx.compare('lit: model = sqlrepr(dbvalue, sqlite) text', desc0, m['lit'], ilit)
                if imp['db'][0] == 'ok' and m['wc'] != '?':
                    iwc = imp['wc'][0] if imp['wc'][0] != 'ok' else canon_model(tok(imp['wc'][1], T if T in ('json', 'pickle') else None), T)
                    if iwc != 'x':
                        ctx.compare('writer cache: model = to_python(from_python(v))', desc0, canon_model(m['wc'], T), iwc)
        # ---- the real round trips: every write path on a rotating variant
        for pi, path in enumerate(PATHS):
            variant = 'lazy' if path == 'lazy' and (idx % 2 == 0) else VARIANTS[(idx + pi) % 3]
            if path == 'expire-lazy':
                variant = 'lazy'
            elif path == 'expire-eager':
                variant = 'eager' if idx % 2 == 0 else 'nocachevalues'
            elif path == 'lazy-failflush':
                variant = 'lazy'
            elif path == 'expire-sync-assign':
                pass          # all three variants in rotation (the lazy one flushes with syncUpdate)
            elif path == 'loaded':
                variant = 'lazy' if idx % 2 == 0 else VARIANTS[(idx + pi) % 3]
            elif path in ('listener', 'listener-raises'):
                # all three variants in rotation; each value goes through one of the two listener paths (quick tier)
                if ctx.tier != 'thorough' and not ctx.deep and (idx % 2 == 0) != (path == 'listener'):
                    continue
            elif path != 'lazy' and variant == 'lazy':
                # eager paths on a lazy class only become visible after sync: covered by the 'lazy' path; use eager here
                variant = 'eager'
            try:
                out, cls, obj = run_case(e, T, v, path, variant, cache)
            except Exception as ex:  # never let the real code's exception escape
                ctx.note('run_case crashed for %r %r: %r' % (T, v, ex))
                continue
            ctx.case((T, vt if vt != 'x' else repr(v)[:60], path), nontrivial=v is not None,
                     sample={'type': T, 'value': repr(v)[:80], 'path': path, 'variant': variant, 'cache': cache,
                             'write': out['write'], 'reads': {n: repr(r[1])[:60] for n, r in out['reads'].items()}},
                     kind='%s/%s' % (T, 'domain' if dom else 'cross'))
            oracle(ctx, e, T, v, path, variant, cache, out, cls)
            if m is None or vt == 'x' or m['db'] == '?':
                continue
            desc = dict(desc0, path=path, variant=variant, cache=cache)
            # cell
            if m['cell'] not in ('?',) and m['db'] not in ('Invalid', 'Reject'):
                if out['write'] == 'ok' or (isinstance(out['rows'], list) and out['rows'] and out['rows'][0][2] != 'null'):
                    row = out['rows'][0]
                    ty, val = row[2], row[1]
                    if ty == 'null':
                        icell = 'null'
                    elif ty == 'integer':
                        icell = 'int:%d' % val
                    elif ty == 'real':
                        icell = 'real:F' + fbits(val)
                    elif ty == 'text':
                        icell = 'text:' + cps(val)
                    else:
                        icell = 'blob:' + cps(val)
                    ctx.compare('cell: model store = SQLite cell (typeof, value)', desc, canon_cell(m['cell']), icell)
                elif m['cell'] != 'Reject':
                    ctx.compare('cell: model store = SQLite cell (typeof, value)', desc, canon_cell(m['cell']), 'Reject')
                else:
                    ctx.compare('cell: model store = SQLite cell (typeof, value)', desc, 'Reject', 'Reject')
            # read back
            if m['rd'] != '?':
                if out['write'] != 'ok':
                    ird = out['write']
                else:
                    r = out['reads']['fresh']
                    ird = r[0] if r[0] != 'ok' else canon_model(tok(r[1], T if T in ('json', 'pickle') else None), T)
                if ird != 'x':
                    ctx.compare('readBack: model toPy(fetch(store)) = fresh get', desc, canon_model(m['rd'], T, engine=True), ird)
            # query
            if m['q'] in ('0', '1') and out['write'] == 'ok' and not (type(v) is float and v != v):
                q = queries(cls, T, v)
                ctx.compare('query: model whereFinds = selectBy count', desc, m['q'], str(q['selectBy']))
    # ---- read stream: to_python of arbitrary cell text
    from sqlobject.sqlbuilder import SQLObjectState
    for s in rstrings:
        for T in rtypes:
            cls = e['classes'][(T, 'eager', True)]
            c = cls.sqlmeta.columnList[0]
            try:
                r = tok(c.to_python(s, SQLObjectState(cls, connection=cls._connection)))
            except Exception as ex:
                r = exc_kind(ex)
            ctx.case(('r', T, s), sample=None, kind='read-stream')
            if outs is not None:
                ctx.compare('toPy on cell text: model strptime = validator to_python', {'type': T, 'text': s}, outs[k], r)
            k += 1
    # ---- witnesses of the counter-theorem and of the repaired defects, replayed explicitly (setattr, eager, cache on)
    for T, v in WITNESSES:
        out, cls, obj = run_case(e, T, v, 'setattr', 'eager', True)
        oracle(ctx, e, T, v, 'setattr', 'eager', True, out, cls)
    # ---- directed probes: alternate-ID / unique-index lookups, column names that collide with SQLObject's own
    for probe in (directed_lookup, directed_names, directed_mutable):
        try:
            probe(ctx, e)
        except Exception as ex:      # a crash of the real code inside a probe is an outcome to look at, not a harness crash
            ctx.oracle_fail('C01:directed probe %s crashed' % probe.__name__, '%s: %s' % (type(ex).__name__, str(ex)[:200]),
                            {'probe': probe.__name__})


WITNESSES = [('float', 2 ** 53 + 1),   # C01_accepted_readable_full_FALSE
             ('dateTime', D.date(2020, 1, 2)), ('dateTime', D.time(3, 4, 5, 6)), ('date', D.time(3, 4, 5, 6)),
             ('time', D.date(2020, 1, 2)), ('decimal', Dec('5.000'))]


def replay(case):
    e = env()
    if not case.get('replay'):
        return True, 'no executable value in this replay: %r' % (case,)
    v = pickle.loads(base64.b64decode(case['replay']))
    T = case['type']

    class Rec:
        fails = []

        def oracle_fail(self, key, what, c):
            self.fails.append((key, what))

        def note(self, s):
            pass
    rec = Rec()
    if case.get('caller_mutates_the_object_after_the_write'):
        value = copy.deepcopy(v)
        out, cls, obj = run_case(e, T, value, case['path'], case['variant'], case['cache'],
                                 after_write=lambda: mutate_in_place(value))
        out['mutated'] = True
    else:
        out, cls, obj = run_case(e, T, v, case['path'], case['variant'], case['cache'])
    oracle(rec, e, T, v, case['path'], case['variant'], case['cache'], out, cls)
    text = 'write: %s %s\nrows: %r\nreads: %r' % (out['write'], out.get('write_exc', ''), out['rows'], out['reads'])
    if 'first_flush' in out:
        text += '\nfirst syncUpdate: %s' % out['first_flush']
    for key, what in rec.fails:
        text += '\nFAIL [%s] %s' % (key, what)
    return not rec.fails, text
