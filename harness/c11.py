"""C11 — selects, orderings, counts and aggregates equal the same query over a plain copy of the rows.

correspondence: SQL text rendered by the real code (str(select), the executed aggregate / lookup
statements) and the ids / values it returns on SQLite, against the Lean model driver (`drv_c11`):
plan text and reference evaluation.
oracle (independent of the Lean model): a pure-Python evaluation of the query over the raw rows
fetched with `SELECT *`: three-valued filter, join multiplicity, DISTINCT, the intended
lexicographic order (NULLs first ascending; results compared modulo permutation inside tie
groups), exact integer / Fraction aggregates, 0/1/many for getOne, not-found for absent keys.
"""
import functools
import json
import os
import re
from fractions import Fraction

from vlib import sqlo

PROP = 'C11'
META = {
    'extractors': ['query', 'pyquery'],
    'technique': ('Lean 4 proof (plan-level model of order munging / reversed / keyword clauses / accumulate plans / getOne, '
                  'reference SQL evaluator with a verified insertion sort) + extracted operator / function-name / branch tables '
                  '+ differential correspondence on text and results + independent Python oracle; TRANSLATOR tie: vlib/extractors/pyquery.py '
                  'translates 38 functions of sresults.py / sqlbuilder.py / dbconnection.py / main.py / index.py from the AST into the deep embedding '
                  'Model/PyQuery.lean on every run, and Lemmas/QueryX*.lean prove the translated programs equal to the plan functions of the hand model '
                  '(C11_translated_*: _mungeOrderBy, the munging of lists / tuples, __init__, _getConnection, clone, orderBy, reversed, distinct, newClause, '
                  'filter, AND, OR, getOne, __iter__, lazyIter, Iteration.next, accumulate, accumulateMany, accumulateOne, sum/min/max/avg, count, '
                  'accumulateSelect and the Select clone chain, DESC.__sqlrepr__ (fully, fuel-iterated) and _str_or_sqlrepr, the ORDER BY statement of '
                  'Select.__sqlrepr__ = orderKeys, _SO_columnClause = columnClause (selectBy_sem restated on it), selectBy, _SO_selectOneAlt, '
                  '_SO_fetchAlternateID (idxName=None), SODatabaseIndex.get(**kw); composed chains with the method calls resolved by the translated '
                  'callees: reversed()/distinct() -> clone -> __init__ represents Sel.rev / Sel.dist, sum/min/max/avg -> accumulateOne -> accumulateMany '
                  '-> the item text of aggPlan) for all inputs, plus kernel-evaluated runs of the interpreter on concrete inputs; '
                  'queryForSelect (the Select built = the model plan: C11_translated_queryForSelect_eq_model / _plan), the orderBy(o) chain, the '
                  'unique-index miss branch of _SO_fetchAlternateID; translated but not proved (tied by extracted constants + text correspondence): '
                  'Select.__init__ (proved in the PySel embedding of C03), SODatabaseIndex.get(*args) positional path'),
    'level_text': ('Theorems C11_*: for every table (any size, any contents, NULLs and duplicates), every filter, every order '
                   'specification (strings with or without the "-" prefix, column names, raw strings, DESC nests, lists), any number '
                   'of reversed() calls, distinct or not: the rows the plan denotes are a permutation of the filtered (distinct) rows '
                   'sorted by the intended lexicographic comparator; reversed() negates every key and is an involution; the keyword '
                   'clause selects exactly the rows whose columns equal the given values with None <-> NULL under three-valued logic; '
                   'count/sum/min/max/avg plans equal the folds over the rows the select returns; the n-ary helpers AND(*ops)/OR(*ops) denote the '
                   'three-valued conjunction/disjunction of any number of operands; iteration hands out every fetched row whatever its id; '
                   'getOne is 0/1/many; absent keys give not-found.  The constants of the plan (IS / =, "-", DESC rendering, reverser, COUNT expressions, DISTINCT word, '
                   'SUM/MIN/MAX/AVG names, accumulateSelect chain, getOne branches, alternate-id miss action, the connective and the recursive tail of AND()/OR(), '
                   'the NULL-id guard of Iteration.next) are regenerated from /repo '
                   'on every run; the hand-written plan functions are compared with the real code text-for-text.'),
    'level_note': ('Proved: plan + reference semantics.  Modelled and validated by execution only: that SQLite evaluates WHERE / DISTINCT / '
                   'ORDER BY / aggregates as the reference evaluator does.'),
    'rule': ('cases = (table of 0..8 rows over a 4-value domain with NULLs and duplicates, second table for join filters, query shape: '
             'select/selectBy x filter x order spec x reversed x distinct x chained ops x list/count/sum/min/max/avg/getOne, alternate-id and '
             'unique-index lookups with present and absent keys; filters with the `&`/`|` operators and nested AND()/OR() calls of 1..5 operands; '
             'explicit primary keys at the edge of the key domain: 0, negatives, and a string-primary-key class with "" and other strings; '
             'order specifications with several keys given as lists and as tuples (select(orderBy=), .orderBy(), sqlmeta.defaultOrder), '
             'classes with defaultOrder, cacheValues=False; explicit connection=, lazyColumns), re-checked after interleaved inserts, updates and deletes, '
             'a pool of SelectResults OBJECTS being kept and asked again (count, iteration, aggregates, getOne) after the mutations; a transaction stream '
             '(file-backed database: rows cached through the class connection, then a Transaction doing 0..160 lookups, updates through objects fetched '
             'before or after them, 0..3 deletes of one class, inserts, commit or rollback; afterwards select / orderBy / reversed / selectBy / byName / get of '
             'every live and every deleted id / count / sum / min / max through the class connection against the raw rows); a several-connections stream '
             '(one class used through its own connection and 2..4 further connection objects -- file-based SQLite databases created one after the other in the '
             'same thread, in-memory ones -- holding different rows under the same names and ids; interleaved inserts / updates / deletes; select / orderBy with '
             'list and tuple / reversed / selectBy / count / distinct count / sum / min / max / avg / byName / getOne with connection=c and through '
             '.connection(c) against the rows read from c\'s file with a private sqlite3 connection); a special-configurations stream (selects over an InheritableSQLObject hierarchy iterated in fetchmany batches of 1..5 rows via '
             'InheritableIteration.defaultArraySize; selects whose second table comes in through join=LEFTJOINOn/INNERJOINOn, plain and DISTINCT, count() vs '
             'len(list) vs the fanned-out rows; selectBy(<fk>=key) / <fk>ID / q.<fk>ID / unique-index get for a foreign key to a string-keyed class with '
             'number-like keys such as "007"); seeded random after a '
             'hand-written corpus; distinct = distinct (table contents, query); non-trivial = the query has a filter, an order, distinct, '
             'an aggregate or a lookup'),
    'trusted': ['reference SQL semantics in Model/Query.lean (three-valued logic, NULLs first, aggregate conventions, DISTINCT) — '
                'cross-checked against SQLite on every case',
                'the pure-Python oracle evaluator in harness/c11.py'],
    'modelled': ['SQLite engine: WHERE / DISTINCT / ORDER BY / COUNT / SUM / MIN / MAX / AVG (executed, not verified)',
                 'expression rendering beyond the small filter language used here (C03 covers it)',
                 'window (LIMIT/OFFSET) is left out: C10'],
    'assumptions': ['translated code: every call into another object is a parameter of the interpreter (Model/QueryX.lean header): the constructors DESC / '
                    'SQLConstant / SQLOp only store their arguments, string_type is str, columns have no from_python converter, tablesUsedSet / set.add / '
                    'list(set) / repr / sqlrepr of non-DESC values / the database (queryOne, cursor.fetchone) are arbitrary functions; _SO_columnClause: the Python names '
                    'id / column names / foreign names of the class are distinct (NoClash) and an instance used as a value renders as its id; each theorem states '
                    'what the method calls it makes return; assert / raise messages are not evaluated; one alias (self.ops = ops) is modelled by write-through',
                    'connections: the model gives every connection object its own database (Store); that SQLiteConnection objects do not share state is '
                    'tied by the several-connections stream (oracle only)',
                    'a SelectResults object is a description of a query, not a snapshot: the model evaluates it as a function of the current table, '
                    'and the harness ties that by re-evaluating retained objects after mutations',
                    'ids are a key of the table (PRIMARY KEY); used for COUNT(DISTINCT id) = number of distinct rows',
                    'aggregates of a distinct select follow SQL `F(DISTINCT col)` (distinct column values), as sqlobject/tests/test_aggregates.py pins',
                    'raw-string order keys are single column names (optionally table-qualified); other SQL text is outside the model'],
    'exhaustive': False,
}

COLS = ['a', 'bVal', 's', 'fkID', 'alt', 'p']            # python names, table order
DBN = {'id': 'id', 'a': 'a', 'bVal': 'b_val', 's': 's', 'fkID': 'fk_id', 'alt': 'alt', 'p': 'p'}
PY_OF_DB = {v: k for k, v in DBN.items()}
IDX = {c: i for i, c in enumerate(COLS)}
# ids of the string-primary-key class travel as order-preserving integer codes (SQLite compares TEXT bytewise)
STR_IDS = ['', ' ', '0', 'A', 'Z', 'k', 'kk', 'z']
STR_CODE = {x: 1000 + 10 * i for i, x in enumerate(STR_IDS)}
CODE_STR = {v: k for k, v in STR_CODE.items()}
S_LIT = {'a': 97, 'b': 98, 'c': 99, 'd': 100}
DEFAULT = object()          # the default handed to getOne(): distinguishable from a None result
_env = {}


def env():
    if _env:
        return _env
    sqlo.setup()
    from sqlobject import SQLObject, IntCol, StringCol, ForeignKey, DatabaseIndex
    from sqlobject.sqlite.sqliteconnection import SQLiteConnection

    class LogConn(SQLiteConnection):
        log = []

        def _executeRetry(self, conn, cursor, query):
            LogConn.log.append(query)
            return SQLiteConnection._executeRetry(self, conn, cursor, query)
    conn = LogConn(':memory:')

    class C11Oth(SQLObject):
        _connection = conn
        g = IntCol(default=None)

    def mk(name, default_order, id_type=int, cache_values=True):
        class sqlmeta:
            defaultOrder = default_order
            idType = id_type
            cacheValues = cache_values
        return type(name, (SQLObject,), {
            '_connection': conn, 'sqlmeta': sqlmeta,
            'a': IntCol(default=None), 'bVal': IntCol(default=None), 's': StringCol(default=None),
            'fk': ForeignKey('C11Oth', default=None), 'alt': IntCol(alternateID=True),
            'p': IntCol(default=None), 'pIdx': DatabaseIndex('p', 'fk', unique=True)})
    classes = {'row': mk('C11Row', None), 'dfl': mk('C11Dfl', '-bVal'), 'dfm': mk('C11Dfm', ['s', '-id']),
               'str': mk('C11Str', None, str), 'ncv': mk('C11Ncv', None, int, False),
               'dft': mk('C11Dft', ('-s', 'bVal'))}
    C11Oth.createTable()
    for c in classes.values():
        c.createTable()
    _env.update(conn=conn, Oth=C11Oth, classes=classes, LogConn=LogConn,
                default={'row': None, 'dfl': ['one', ['s', '-bVal']], 'dfm': ['many', [['s', 's'], ['s', '-id']]], 'str': None, 'ncv': None,
                         'dft': ['tuple', [['s', '-s'], ['s', 'bVal']]]})
    return _env


# ---------------------------------------------------------------------------------- encoding

def enc_operand(o):
    if o[0] == 'c':
        return 'cid' if o[1] == 'id' else 'c%d' % IDX[o[1]]
    if o[0] == 'l':
        return 'l%d' % o[1]
    return 'g'


def enc_expr(e):
    if e is None:
        return 'none'
    k = e[0]
    if k == 'tt':
        return 'tt'
    if k == 'cmp':
        return 'cmp,%s,%s,%s' % (e[1], enc_operand(e[2]), enc_operand(e[3]))
    if k in ('isnull', 'notnull'):
        return '%s,%s' % (k, enc_operand(e[1]))
    if k in ('and', 'or'):
        return '%s,%s,%s' % (k, enc_expr(e[1]), enc_expr(e[2]))
    if k == 'not':
        return 'not,%s' % enc_expr(e[1])
    if k in ('andn', 'orn'):
        return '%s,%d,%s' % (k, len(e[1]), ','.join(enc_expr(x) for x in e[1]))
    raise ValueError(e)


def enc_term(t):
    if t[0] == 'f':
        return 'fid' if t[1] == 'id' else 'f%d' % IDX[t[1]]
    return 'k' + t[1]


def enc_arg(a):
    if a[0] == 's':
        return 's' + a[1]
    return 'e' + 'd' * a[1] + enc_term(a[2])


def enc_order(o):
    if o == 'nodefault':
        return 'nodefault'
    if o is None:
        return 'none'
    if o[0] == 'one':
        return 'one=' + enc_arg(o[1])
    return ('tuple=' if o[0] == 'tuple' else 'many=') + ';'.join(enc_arg(a) for a in o[1])


def enc_kwval(v):
    if v is None:
        return 'n'
    if isinstance(v, list):
        return 'o%d' % v[1]
    return 'i%d' % v


def enc_kw(kw):
    if not kw:
        return '-'
    return ','.join('%s=%s' % (k, enc_kwval(v)) for k, v in kw)


def enc_ops(q):
    out = []
    for op in q.get('ops', []):
        if op[0] == 'rev':
            out.append('rev')
        elif op[0] == 'dist':
            out.append('dist')
        elif op[0] == 'order':
            out.append('order=' + enc_order(op[1]))
        elif op[0] == 'filter':
            out.append('filter=' + enc_expr(op[1]))
    t = q['term']
    out.append(t[0] if len(t) == 1 else '%s=%s' % (t[0], enc_term(t[1])))
    return ' '.join(out)


def enc_query(q):
    if q['src'] == 'sel':
        return 'sel %s %s %d %d %s' % (enc_expr(q['clause']), enc_order(q['order']), int(q['rev']), int(q['dist']), enc_ops(q))
    if q['src'] == 'by':
        return 'by %s %s' % (enc_kw(q['kw']), enc_ops(q))
    if q['src'] == 'alt':
        return 'alt %d %s' % (IDX['alt'], enc_kwval(q['v']))
    if q['src'] == 'idx':
        return 'idx 2 %s' % enc_kw(q['kw'])
    raise ValueError(q)


def enc_val(v):
    return '-' if v is None else str(v)


def schema_line(cls_key):
    e = env()
    cls = e['classes'][cls_key]
    cols = ' '.join('%s/%s/%s' % (c.name, c.dbName, c.foreignName or '-') for c in cls.sqlmeta.columnList)
    d = e['default'][cls_key]
    return 'schema %s %s %s %s' % (cls.sqlmeta.table, e['Oth'].sqlmeta.table, enc_order(d), cols)


def rows_line(rows):
    return 'rows ' + ' '.join(','.join(enc_val(v) for v in r) for r in rows)


def oth_line(gs):
    return 'oth ' + ' '.join(enc_val(g) for g in gs)


# ---------------------------------------------------------------------------------- real code

def s_of(v):
    return None if v is None else chr(v)


def code_of(s):
    return None if s is None else ord(s)


def is_str(cls):
    return cls.sqlmeta.idType is str


def id_code(cls, v):
    """id as stored -> the integer the model and the oracle work with"""
    if is_str(cls):
        return STR_CODE[v] if v in STR_CODE else int(v)
    return v


def id_py(cls, code):
    """integer code -> the id value handed to the real code"""
    if is_str(cls):
        return CODE_STR.get(code, str(code))
    return code


def raw_rows(cls):
    conn = env()['conn']
    t = cls.sqlmeta.table
    out = []
    for r in conn.queryAll('SELECT id, a, b_val, s, fk_id, alt, p FROM %s ORDER BY id' % t):
        r = list(r)
        r[0] = id_code(cls, r[0])
        r[3] = code_of(r[3])
        out.append(tuple(r))
    return sorted(out)


def raw_oth():
    e = env()
    return [(r[0], r[1]) for r in e['conn'].queryAll('SELECT id, g FROM %s ORDER BY id' % e['Oth'].sqlmeta.table)]


def build_operand(cls, o, other=None):
    if o[0] == 'c':
        return getattr(cls.q, o[1])
    if o[0] == 'l':
        if other is not None and other[0] == 'c' and other[1] == 's':
            return chr(o[1])
        if other is not None and other[0] == 'c' and other[1] == 'id':
            return id_py(cls, o[1])
        return o[1]
    return env()['Oth'].q.g


def build_expr(cls, e):
    from sqlobject.sqlbuilder import AND, OR, NOT, SQLTrueClause
    import operator
    if e is None:
        return None
    k = e[0]
    if k == 'tt':
        return SQLTrueClause
    if k == 'cmp':
        a = build_operand(cls, e[2], e[3])
        b = build_operand(cls, e[3], e[2])
        return {'eq': operator.eq, 'ne': operator.ne, 'lt': operator.lt, 'le': operator.le,
                'gt': operator.gt, 'ge': operator.ge}[e[1]](a, b)
    if k == 'isnull':
        return build_operand(cls, e[1]) == None   # noqa: E711
    if k == 'notnull':
        return build_operand(cls, e[1]) != None   # noqa: E711
    if k in ('and', 'or'):
        a, b = build_expr(cls, e[1]), build_expr(cls, e[2])
        if len(repr(e)) % 2:          # the operator forms `&` / `|` build the same SQLOp as the helpers
            return (a & b) if k == 'and' else (a | b)
        return AND(a, b) if k == 'and' else OR(a, b)
    if k in ('andn', 'orn'):
        parts = [build_expr(cls, x) for x in e[1]]
        return AND(*parts) if k == 'andn' else OR(*parts)
    if k == 'not':
        return NOT(build_expr(cls, e[1]))
    raise ValueError(e)


def build_term(cls, t):
    if t[0] == 'f':
        return getattr(cls.q, t[1])
    return t[1]


def build_arg(cls, a):
    from sqlobject.sqlbuilder import DESC, SQLConstant
    if a[0] == 's':
        return a[1]
    x = build_term(cls, a[2])
    if a[2][0] == 'k':
        x = SQLConstant(x)
    for _ in range(a[1]):
        x = DESC(x)
    return x


def build_order(cls, o):
    if o is None:
        return None
    if o[0] == 'one':
        return build_arg(cls, o[1])
    keys = [build_arg(cls, a) for a in o[1]]
    return tuple(keys) if o[0] == 'tuple' else keys


def build_kw(cls, kw):
    Oth = env()['Oth']
    out = {}
    for k, v in kw:
        if isinstance(v, list):
            v = Oth.get(v[1])
        elif k == 's' and v is not None:
            v = chr(v)
        elif k == 'id' and v is not None:
            v = id_py(cls, v)
        out[k] = v
    return out


def canon_sql(cls, text):
    t = cls.sqlmeta.table
    names = ['id'] + [DBN[c] for c in COLS]
    text = text.replace(', '.join('%s.%s' % (t, n) for n in names), '*', 1)
    text = re.sub(r'^SELECT (DISTINCT )?%s\.id FROM' % re.escape(t), r'SELECT \1* FROM', text)      # lazyColumns
    if text.startswith('SELECT ' + ', '.join(names) + ' FROM'):
        text = text.replace(', '.join(names), '*', 1)
    def lit(m):
        x = m.group(1)
        if is_str(cls) and x in STR_CODE:
            return str(STR_CODE[x])
        if x in S_LIT:
            return str(S_LIT[x])
        if x.lstrip('-').isdigit():
            return x
        return m.group(0)
    return re.sub(r"'([^']*)'", lit, text)


def exc_out(e):
    n = sqlo.exc_name(e)
    if n == 'Operational':
        return 'sql-error'
    if isinstance(e, TypeError):
        return 'TypeError'
    return n


def show_id(cls, obj):
    return 'None' if obj is None else 'one %d' % id_code(cls, obj.id)


def build_sel(cls, q):
    """the SelectResults object of a 'sel' / 'by' query (without its terminal)"""
    ckw = {'connection': env()['conn']} if q.get('conn') else {}
    if q['src'] == 'sel':
        kwargs = dict(ckw)
        if q['order'] != 'nodefault':
            kwargs['orderBy'] = build_order(cls, q['order'])
        sel = cls.select(build_expr(cls, q['clause']), reversed=q['rev'], distinct=q['dist'], **kwargs)
    else:
        sel = cls.selectBy(**dict(build_kw(cls, q['kw']), **ckw))
    for op in q.get('ops', []):
        if op[0] == 'rev':
            sel = sel.reversed()
        elif op[0] == 'dist':
            sel = sel.distinct()
        elif op[0] == 'order':
            sel = sel.orderBy(build_order(cls, op[1]))
        elif op[0] == 'filter':
            sel = sel.filter(build_expr(cls, op[1]))
    if q.get('lazy'):       # only the id is fetched with the rows; the objects load their columns on demand
        sel = sel.lazyColumns(True)
    return sel


def eval_term(cls, sel, t):
    """evaluate one terminal on a (possibly long-lived) SelectResults object
    -> (canonical sql text or '-', result string, raw ordered ids or None)"""
    log = env()['LogConn'].log
    text = '-'
    try:
        if t[0] == 'list':
            text = canon_sql(cls, str(sel))
            ids = [None if o is None else id_code(cls, o.id) for o in sel]
            return text, 'rows' + ''.join(' %s' % i for i in ids), ids
        if t[0] in ('one', 'one0'):
            text = canon_sql(cls, str(sel))
            obj = sel.getOne(DEFAULT) if t[0] == 'one0' else sel.getOne()
            if obj is DEFAULT:
                return text, 'default', None
            return text, show_id(cls, obj), None
        del log[:]
        try:
            if t[0] == 'count':
                v = sel.count()
            else:
                v = getattr(sel, t[0])(build_term(cls, t[1]))
        finally:
            sels = [x for x in log if x.startswith('SELECT')]
            if sels:
                text = canon_sql(cls, sels[-1])
        if t[0] == 'avg':
            if v is None:
                return text, 'ratio null', None
            fr = Fraction(v).limit_denominator(1000)
            return text, ('ratio', fr), None
        if v is None:
            return text, 'int null', None
        if isinstance(v, bool) or not isinstance(v, int):
            if isinstance(v, float) and v == int(v):
                v = int(v)
            else:
                return text, 'value %r' % (v,), None
        return text, 'int %d' % v, None
    except Exception as ex:   # the real code's exceptions are observable outcomes
        return text, exc_out(ex), None


def run_impl(cls, q, keep=None):
    """-> (canonical sql text or '-', result string, raw ordered ids or None); the SelectResults object
    built for a 'sel' / 'by' query is appended to `keep` (the pool re-used after later mutations)"""
    log = env()['LogConn'].log
    text = '-'
    try:
        if q['src'] == 'alt':
            del log[:]
            try:
                res = show_id(cls, cls.byAlt(q['v'], **({'connection': env()['conn']} if q.get('conn') else {})))
            finally:
                sel = [x for x in log if x.startswith('SELECT')]
                if sel:
                    text = canon_sql(cls, sel[0])
            return text, res, None
        if q['src'] == 'idx':
            kw = build_kw(cls, q['kw'])
            # text first: what selectBy renders for these keywords
            try:
                text = canon_sql(cls, str(cls.selectBy(**dict(kw))))
            except TypeError:
                text = '-'
            ckw = {'connection': env()['conn']} if q.get('conn') else {}
            if q.get('pos') and set(kw) == {'p', 'fk'}:
                obj = cls.pIdx.get(kw['p'], kw['fk'], **ckw)
            else:
                obj = cls.pIdx.get(**dict(kw, **ckw))
            return text, show_id(cls, obj), None
        sel = build_sel(cls, q)
    except Exception as ex:   # the real code's exceptions are observable outcomes
        return text, exc_out(ex), None
    if keep is not None:
        keep.append(sel)
    return eval_term(cls, sel, q['term'])


# ---------------------------------------------------------------------------------- oracle (pure Python)

def o_and(a, b):
    if a is False or b is False:
        return False
    if a is True and b is True:
        return True
    return None


def o_or(a, b):
    if a is True or b is True:
        return True
    if a is False and b is False:
        return False
    return None


def o_operand(o, row, g):
    if o[0] == 'c':
        return row[0] if o[1] == 'id' else row[1 + IDX[o[1]]]
    if o[0] == 'l':
        return o[1]
    return g


def o_expr(e, row, g):
    import operator
    k = e[0]
    if k == 'tt':
        return True
    if k == 'cmp':
        a, b = o_operand(e[2], row, g), o_operand(e[3], row, g)
        if a is None or b is None:
            return None
        return {'eq': operator.eq, 'ne': operator.ne, 'lt': operator.lt, 'le': operator.le,
                'gt': operator.gt, 'ge': operator.ge}[e[1]](a, b)
    if k == 'isnull':
        return o_operand(e[1], row, g) is None
    if k == 'notnull':
        return o_operand(e[1], row, g) is not None
    if k == 'and':
        return o_and(o_expr(e[1], row, g), o_expr(e[2], row, g))
    if k == 'or':
        return o_or(o_expr(e[1], row, g), o_expr(e[2], row, g))
    if k == 'not':
        v = o_expr(e[1], row, g)
        return None if v is None else (not v)
    if k in ('andn', 'orn'):
        vals = [o_expr(x, row, g) for x in e[1]]
        if k == 'andn':
            return False if False in vals else (None if None in vals else True)
        return True if True in vals else (None if None in vals else False)
    if k == 'kw':
        # keyword equalities: None means IS NULL; a value means equal to it (never true for NULL)
        for col, v in e[1]:
            x = row[0] if col == 'id' else row[1 + IDX[col]]
            if v is None:
                if x is not None:
                    return False
            elif x is None or x != v:
                return False
        return True
    raise ValueError(e)


def uses_g(e):
    if e is None:
        return False
    if e[0] == 'cmp':
        return e[2][0] == 'g' or e[3][0] == 'g'
    if e[0] in ('isnull', 'notnull'):
        return e[1][0] == 'g'
    if e[0] in ('and', 'or'):
        return uses_g(e[1]) or uses_g(e[2])
    if e[0] == 'not':
        return uses_g(e[1])
    if e[0] in ('andn', 'orn'):
        return any(uses_g(x) for x in e[1])
    return False


def o_kw_clause(kw):
    """the meaning of selectBy(**kw): list of (python column, value); 'malformed' for unknown / doubled keys"""
    out = []
    seen = set()
    for k, v in kw:
        col = {'fk': 'fkID'}.get(k, k)
        if col not in COLS + ['id'] or col in seen:
            return 'malformed'
        seen.add(col)
        if isinstance(v, list):
            v = v[1]
        out.append((col, v))
    return out


def o_key_of_name(name):
    """an order string / raw name -> python column (or None when it is not a column)"""
    if name in COLS or name == 'id':
        return name
    if '.' in name:
        name = name.split('.', 1)[1]
    return PY_OF_DB.get(name)


def o_keys(order, nrev):
    """intended sort keys [(python column, descending)] or 'malformed'"""
    if order is None:
        return []
    args = [order[1]] if order[0] == 'one' else order[1]
    if not args:
        return 'malformed'
    keys = []
    for a in args:
        if a[0] == 's':
            s = a[1]
            d = s.startswith('-')
            col = o_key_of_name(s[1:] if d else s)
        else:
            d = (a[1] % 2 == 1)
            col = a[2][1] if a[2][0] == 'f' else o_key_of_name(a[2][1])
        if col is None:
            return 'malformed'
        keys.append((col, d ^ (nrev % 2 == 1)))
    return keys


def o_cmp_rows(keys):
    def val(row, col):
        v = row[0] if col == 'id' else row[1 + IDX[col]]
        return (0, 0) if v is None else (1, v)

    def cmp(r1, r2):
        for col, d in keys:
            x, y = val(r1, col), val(r2, col)
            if x != y:
                lt = x < y
                return (1 if lt else -1) if d else (-1 if lt else 1)
        return 0
    return cmp


def oracle(cls_key, rows, gs, q):
    """-> dict(kind=..., ...) describing what the plain-Python evaluation demands, or None (outside the property)"""
    default = env()['default'][cls_key]
    if q['src'] == 'alt':
        v = q['v']
        m = [r[0] for r in rows if v is not None and r[1 + IDX['alt']] == v]
        return {'kind': 'lookup', 'matches': m}
    if q['src'] == 'idx':
        kw = o_kw_clause(q['kw'])
        if kw == 'malformed' or {c for c, _ in kw} != {'p', 'fkID'}:
            return None
        m = [r[0] for r in rows if o_expr(['kw', kw], r, None) is True]
        return {'kind': 'lookup', 'matches': m}
    if q['src'] == 'sel':
        clause = q['clause'] or ['tt']
        order = default if q['order'] == 'nodefault' else q['order']
        nrev = 1 if q['rev'] else 0
        dist = q['dist']
    else:
        kw = o_kw_clause(q['kw'])
        if kw == 'malformed':
            return None
        clause = ['kw', kw]
        order = default
        nrev = 0
        dist = False
    for op in q.get('ops', []):
        if op[0] == 'rev':
            nrev += 1
        elif op[0] == 'dist':
            dist = True
        elif op[0] == 'order':
            order = op[1]
        elif op[0] == 'filter' and op[1] is not None:
            clause = ['and', clause, op[1]]
    joined = uses_g(clause)
    if joined:
        src = [r for r in rows for g in gs if o_expr(clause, r, g) is True]
    else:
        src = [r for r in rows if o_expr(clause, r, None) is True]
    t = q['term']
    if t[0] in ('list', 'one', 'one0'):
        keys = o_keys(order, nrev)
        if keys == 'malformed':
            return None
        if joined and any((a[0] == 's' and a[1].lstrip('-') == 'id') or (a[0] == 'e' and a[2] == ['k', 'id']) for a in
                          ([] if order is None else ([order[1]] if order[0] == 'one' else order[1]))):
            return None        # a bare "id" is ambiguous in a join: SQL error, outside the property
        out = list(dict.fromkeys(src)) if dist else src
        if t[0] == 'list':
            return {'kind': 'rows', 'rows': out, 'keys': keys}
        return {'kind': 'one', 'ids': [r[0] for r in out], 'default': t[0] == 'one0'}
    if t[0] == 'count':
        return {'kind': 'int', 'value': len(set(src)) if dist else len(src)}
    col = t[1][1] if t[1][0] == 'f' else o_key_of_name(t[1][1])
    if col is None or (joined and t[1] == ['k', 'id']):
        return None
    vals = [(r[0] if col == 'id' else r[1 + IDX[col]]) for r in src]
    vals = [v for v in vals if v is not None]
    if dist:
        vals = sorted(set(vals))
    if t[0] == 'sum':
        return {'kind': 'int', 'value': sum(vals) if vals else None}
    if t[0] == 'min':
        return {'kind': 'int', 'value': min(vals) if vals else None}
    if t[0] == 'max':
        return {'kind': 'int', 'value': max(vals) if vals else None}
    return {'kind': 'ratio', 'value': Fraction(sum(vals), len(vals)) if vals else None}


def tie_canon(ids, rows_by_id, keys):
    """ordered ids -> list of (key tuple, sorted ids) merging adjacent equal keys; no keys: one group"""
    if ids is None:
        return None
    if not keys:
        return [((), sorted(ids, key=lambda x: (x is None, x or 0)))]
    out = []
    for i in ids:
        r = rows_by_id.get(i)
        kt = tuple((r[0] if c == 'id' else r[1 + IDX[c]]) for c, _ in keys) if r is not None else ('?',)
        if out and out[-1][0] == kt:
            out[-1][1].append(i)
        else:
            out.append((kt, [i]))
    return [(k, sorted(v, key=lambda x: (x is None, x or 0))) for k, v in out]


def check_oracle(ctx, desc, exp, res, ids, rows):
    """compare the implementation's outcome with what the plain evaluation demands; -> failure text or None"""
    if exp is None:
        return None
    k = exp['kind']
    if k == 'rows':
        if ids is None:
            return 'the select raised/returned %s; the plain evaluation gives ids %s' % (res, [r[0] for r in exp['rows']])
        want = [r[0] for r in exp['rows']]
        if None in ids:
            return 'iteration handed out None for %d row(s): %s; the rows are %s' % (ids.count(None), ids, sorted(want))
        if sorted(want) != sorted(ids):
            return 'ids %s are not a permutation of the filtered%s rows %s' % (ids, ' distinct' if desc['query'].get('dist') else '', sorted(want))
        by_id = {r[0]: r for r in rows}
        got_rows = [by_id[i] for i in ids]
        srt = sorted(got_rows, key=functools.cmp_to_key(o_cmp_rows(exp['keys'])))
        keyt = lambda r: tuple((r[0] if c == 'id' else r[1 + IDX[c]]) for c, _ in exp['keys'])   # noqa: E731
        if [keyt(r) for r in srt] != [keyt(r) for r in got_rows]:
            return 'ids %s are not sorted by %s: keys %s' % (ids, exp['keys'], [keyt(r) for r in got_rows])
        return None
    if k == 'one':
        n = len(exp['ids'])
        if n == 0:
            want = 'default' if exp['default'] else 'NotFound'
        elif n == 1:
            want = 'one %d' % exp['ids'][0]
        else:
            want = 'Integrity'
        return None if res == want else 'getOne gives %s, %d matching rows demand %s' % (res, n, want)
    if k == 'lookup':
        m = exp['matches']
        if not m:
            want = ['NotFound']
        elif len(m) == 1:
            want = ['one %d' % m[0]]
        else:
            want = ['Integrity'] + ['one %d' % i for i in m]     # alt lookup takes any; index lookup must refuse
            if desc['query']['src'] == 'idx':
                want = ['Integrity']
        return None if res in want else 'lookup gives %s, rows with that key: %s' % (res, m)
    if k == 'int':
        want = 'int null' if exp['value'] is None else 'int %d' % exp['value']
        return None if res == want else 'aggregate gives %s, the fold over the rows gives %s' % (res, want)
    if k == 'ratio':
        if exp['value'] is None:
            return None if res == 'ratio null' else 'avg gives %s, the rows have no value' % (res,)
        if isinstance(res, tuple) and res[1] == exp['value']:
            return None
        return 'avg gives %s, the rows give %s' % (res, exp['value'])
    return None


# ---------------------------------------------------------------------------------- generators

DOMS = [(-1, 0, 2), (0, 1, 2), (1, 2, 3), (-2, 1, 1), (0, 0, 5)]


def gen_table(rng, n=None):
    dom = list(rng.choice(DOMS))
    vals = [None] + dom
    n = rng.randint(0, 8) if n is None else n
    n_oth = rng.choice([0, 1, 2, 3, 3])
    oth = [rng.choice(vals) for _ in range(n_oth)]
    alts = rng.sample(range(-2, 12), n)
    rows = []
    used = set()
    for i in range(n):
        a, b, p = rng.choice(vals), rng.choice(vals), rng.choice(vals)
        s = rng.choice([None, 97, 98, 99])
        fk = rng.choice([None] + list(range(n_oth))) if n_oth else None     # index into oth
        if p is not None and fk is not None:
            if (p, fk) in used:
                p = None
            else:
                used.add((p, fk))
        rows.append([a, b, s, fk, alts[i], p])
    cls_key = rng.choice(['row', 'row', 'dfl', 'dfm', 'dft', 'str', 'str', 'ncv'])
    tbl = {'cls': cls_key, 'dom': dom, 'rows': rows, 'oth': oth}
    # explicit primary keys at the edge of the key domain: 0, negatives; '' and other strings for the str class
    if cls_key == 'str':
        tbl['ids'] = rng.sample(sorted(CODE_STR), n)
    elif rng.random() < 0.5:
        tbl['ids'] = rng.sample(range(-3, 10), n)
        if n and 0 not in tbl['ids'] and rng.random() < 0.5:
            tbl['ids'][rng.randrange(n)] = 0
    if n_oth and rng.random() < 0.4:
        tbl['oth_ids'] = rng.sample(range(-2, 6), n_oth)
    return tbl


def id_vals(tbl):
    """literals worth comparing the id column with"""
    if tbl['cls'] == 'str':
        return sorted(CODE_STR)
    return list(tbl.get('ids') or []) + tbl['dom'] + [0, 1, 2]


INT_COLS = ['a', 'bVal', 'p', 'alt', 'fkID', 'id']


def gen_expr(rng, tbl, depth, allow_join):
    dom = tbl['dom']
    r = rng.random()
    vals = dom + [dom[0] + 1, 1]
    if depth <= 0 or r < 0.4:
        k = rng.random()
        if k < 0.12:
            c = rng.choice(['a', 'bVal', 's', 'fkID', 'p'])
            return [rng.choice(['isnull', 'notnull']), ['c', c]]
        if k < 0.2 and allow_join:
            return ['cmp', rng.choice(['eq', 'eq', 'eq', 'le', 'ne']), ['g'], ['c', rng.choice(['a', 'bVal', 'p'])]]
        if k < 0.27:
            return ['cmp', rng.choice(['eq', 'lt', 'ge', 'ne']), ['c', rng.choice(['a', 'bVal'])], ['c', rng.choice(['bVal', 'p', 'a'])]]
        if k < 0.4:
            return ['cmp', rng.choice(['eq', 'ne', 'lt', 'le', 'gt', 'ge']), ['c', 's'], ['l', rng.choice([97, 98, 99, 100])]]
        if k < 0.43:
            return ['tt']
        c = rng.choice(INT_COLS)
        lit = rng.choice(id_vals(tbl)) if c == 'id' else rng.choice(vals)
        return ['cmp', rng.choice(['eq', 'eq', 'ne', 'lt', 'le', 'gt', 'ge']), ['c', c], ['l', lit]]
    sub = lambda: gen_expr(rng, tbl, depth - 1, allow_join)     # noqa: E731
    if r < 0.55:
        return ['and', sub(), sub()]
    if r < 0.67:
        return ['or', sub(), sub()]
    if r < 0.78:       # the helper functions AND(*ops) / OR(*ops) with 1..5 operands (nesting through `sub`)
        return ['orn', [sub() for _ in range(rng.choice([1, 3, 3, 3, 4, 5]))]]
    if r < 0.88:
        return ['andn', [sub() for _ in range(rng.choice([1, 3, 3, 3, 4, 5]))]]
    return ['not', sub()]


STR_KEYS = ['a', 'bVal', 's', 'fkID', 'alt', 'p', 'b_val', 'fk_id', 'id', 'c11.id', 'c11.b_val', 'c11.a']


def gen_arg(rng, table, malformed=False):
    r = rng.random()
    if malformed and r < 0.5:
        return ['s', rng.choice(['fk', '-zz', 'nosuch', '-', ''])]
    if r < 0.6:
        s = rng.choice(STR_KEYS).replace('c11.', table + '.')
        return ['s', ('-' if rng.random() < 0.45 else '') + s]
    nd = rng.choice([0, 0, 1, 1, 1, 2, 2, 3, 4])
    if rng.random() < 0.75:
        return ['e', nd, ['f', rng.choice(COLS + ['id'])]]
    return ['e', nd, ['k', rng.choice(['b_val', 'a', 'id', table + '.s'])]]


def gen_order(rng, table, malformed=False):
    r = rng.random()
    if malformed and r < 0.3:
        return [rng.choice(['many', 'tuple']), []]
    if r < 0.12:
        return 'nodefault'
    if r < 0.2:
        return None
    if r < 0.5:
        return ['one', gen_arg(rng, table, malformed)]
    n = rng.choice([1, 2, 2, 2, 3, 3, 4])
    # several keys come as a list or as a tuple
    return [rng.choice(['many', 'tuple']), [gen_arg(rng, table, malformed) for _ in range(n)]]


def gen_kw(rng, tbl, n_oth_ids, malformed=False):
    dom = tbl['dom']
    vals = [None] + dom
    kw = []
    keys = rng.sample(['a', 'bVal', 's', 'fkID', 'fk', 'p', 'alt', 'id'], rng.choice([0, 1, 1, 2, 2, 3]))
    if 'fk' in keys and 'fkID' in keys and not malformed:
        keys.remove('fkID')
    if malformed:
        keys.append(rng.choice(['zz', 'b_val', 'fk_id']))
    for k in keys:
        if k == 's':
            v = rng.choice([None, 97, 98, 99, 100])
        elif k in ('fk', 'fkID'):
            if n_oth_ids and rng.random() < 0.7:
                i = rng.choice(n_oth_ids)
                v = ['o', i] if rng.random() < 0.6 else i
            else:
                v = rng.choice([None, None, 9999])
        elif k == 'id':
            v = rng.choice(id_vals(tbl))       # replaced by a live id by the caller when possible
        elif k == 'alt':
            v = rng.randint(-2, 11)
        else:
            v = rng.choice(vals)
        kw.append([k, v])
    return kw


def gen_term_target(rng, table, str_ids=False):
    if rng.random() < 0.5:     # (a TEXT id cannot be summed)
        return ['f', rng.choice(['a', 'bVal', 'p', 'alt', 'fkID', 'a' if str_ids else 'id', 'a', 'bVal'])]
    return ['k', rng.choice(['a', 'b_val', 'p', 'alt', table + '.b_val', 'fk_id'])]


def gen_query(rng, tbl, table, oth_ids, live_ids, malformed=False):
    q = gen_query0(rng, tbl, table, oth_ids, live_ids, malformed)
    if rng.random() < 0.2:
        q['conn'] = True        # explicit connection= (the same connection)
    if q['src'] in ('sel', 'by') and rng.random() < 0.15:
        q['lazy'] = True
    return q


def gen_query0(rng, tbl, table, oth_ids, live_ids, malformed=False):
    dom = tbl['dom']
    r = rng.random()
    if r < 0.07:
        alts = [row[4] for row in tbl['cur']] if tbl.get('cur') else []
        v = rng.choice(alts) if alts and rng.random() < 0.55 else rng.choice([None, rng.randint(-3, 13)])
        return {'src': 'alt', 'v': v}
    if r < 0.16:
        cur = tbl.get('cur') or []
        if cur and rng.random() < 0.6:
            row = rng.choice(cur)
            p, fk = row[5], row[3]
        else:
            p, fk = rng.choice([None] + dom), rng.choice([None, 9999] + oth_ids)
        fkv = ['o', fk] if (fk in oth_ids and rng.random() < 0.5) else fk
        kw = [['p', p], [rng.choice(['fk', 'fk', 'fkID']), fkv]]
        if malformed:
            kw = kw[:1] if rng.random() < 0.5 else kw + [['a', 1]]
        return {'src': 'idx', 'kw': kw, 'pos': rng.random() < 0.4}
    q = {}
    if r < 0.4:
        q['src'] = 'by'
        q['kw'] = gen_kw(rng, tbl, oth_ids, malformed)
        for kv in q['kw']:
            if kv[0] == 'id' and live_ids and rng.random() < 0.7:
                kv[1] = rng.choice(live_ids)
    else:
        q['src'] = 'sel'
        q['clause'] = None if rng.random() < 0.2 else gen_expr(rng, tbl, rng.choice([0, 1, 1, 2, 2, 3]), True)
        q['order'] = gen_order(rng, table, malformed)
        q['rev'] = rng.random() < 0.25
        q['dist'] = rng.random() < 0.3
    ops = []
    # selectBy renders unqualified column names: with `id` among them a join filter makes the
    # statement ambiguous (SQL error); that combination is not generated
    join_ok = not (q['src'] == 'by' and any(k == 'id' for k, _ in q['kw']))
    for _ in range(rng.choice([0, 0, 1, 1, 2, 3])):
        k = rng.random()
        if k < 0.4:
            ops.append(['rev'])
        elif k < 0.55:
            ops.append(['dist'])
        elif k < 0.8:
            ops.append(['order', gen_order(rng, table, malformed) if rng.random() < 0.9 else None])
            if ops[-1][1] == 'nodefault':
                ops[-1][1] = None
        else:
            ops.append(['filter', None if rng.random() < 0.1 else gen_expr(rng, tbl, rng.choice([0, 1, 2]), join_ok)])
    q['ops'] = ops
    k = rng.random()
    if k < 0.5:
        q['term'] = ['list']
    elif k < 0.62:
        q['term'] = ['count']
    elif k < 0.9:
        q['term'] = [rng.choice(['sum', 'min', 'max', 'avg']), gen_term_target(rng, table, tbl['cls'] == 'str')]
    else:
        q['term'] = [rng.choice(['one', 'one0'])]
    return q


def gen_mutation(rng, tbl, live_ids):
    vals = [None] + tbl['dom']
    if not live_ids or rng.random() < 0.25:
        # insert: explicit id when the table uses explicit ids (free value of the key domain), fresh alt, no index clash
        new_id = None
        if tbl.get('ids') is not None:
            free = [c for c in (sorted(CODE_STR) if tbl['cls'] == 'str' else range(-3, 10)) if c not in live_ids]
            if not free:
                return None
            new_id = rng.choice(free)
        tbl['fresh'] = tbl.get('fresh', 50) + 1
        return ['ins', new_id, [rng.choice(vals), rng.choice(vals), rng.choice([None, 97, 98, 99]), None, tbl['fresh'], None]]
    i = rng.choice(live_ids)
    r = rng.random()
    if r < 0.3:
        return ['del', i]
    if r < 0.55:
        return ['set', i, {rng.choice(['a', 'bVal']): rng.choice(vals)}]
    if r < 0.8:
        return ['set', i, {'a': rng.choice(vals), 'bVal': rng.choice(vals), 's': rng.choice([None, 97, 98, 99])}]
    if r < 0.9:
        return ['set', i, {'alt': rng.randint(20, 40)}]
    return ['set', i, {'p': None}]


# ---------------------------------------------------------------------------------- running one table

def load_table(tbl):
    """fill the real tables; returns (class, oth ids)"""
    e = env()
    conn, Oth = e['conn'], e['Oth']
    cls = e['classes'][tbl['cls']]
    conn.query('DELETE FROM %s' % cls.sqlmeta.table)
    conn.query('DELETE FROM %s' % Oth.sqlmeta.table)
    try:        # ids restart at 1 for every table, so that cases are reproducible
        conn.query("DELETE FROM sqlite_sequence WHERE name IN ('%s', '%s')" % (cls.sqlmeta.table, Oth.sqlmeta.table))
    except Exception:
        pass
    conn.cache.clear()
    oth_ids = tbl.get('oth_ids') or [None] * len(tbl['oth'])
    oth_objs = [Oth(g=g, **({} if i is None else {'id': i})) for g, i in zip(tbl['oth'], oth_ids)]
    ids = tbl.get('ids') or [None] * len(tbl['rows'])
    for (a, b, s, fk, alt, p), i in zip(tbl['rows'], ids):
        extra = {} if i is None else {'id': id_py(cls, i)}
        cls(a=a, bVal=b, s=s_of(s), fk=(oth_objs[fk] if fk is not None else None), alt=alt, p=p, **extra)
    return cls, [o.id for o in oth_objs]


def apply_mutation(cls, m):
    try:
        if m[0] == 'ins':
            a, b, s, fk, alt, p = m[2]
            cls(a=a, bVal=b, s=s_of(s), fk=None, alt=alt, p=p, **({} if m[1] is None else {'id': id_py(cls, m[1])}))
            return 'ok'
        obj = cls.get(id_py(cls, m[1]))
        if m[0] == 'del':
            obj.destroySelf()
        else:
            vals = dict(m[2])
            if 's' in vals:
                vals['s'] = s_of(vals['s'])
            if len(vals) == 1:
                k, v = list(vals.items())[0]
                setattr(obj, k, v)
            else:
                obj.set(**vals)
    except Exception as ex:   # e.g. a duplicate alt: the table simply stays as it is
        return sqlo.exc_name(ex)
    return 'ok'


def is_trivial(q):
    return q['src'] == 'sel' and q['clause'] is None and q['order'] in ('nodefault', None) and not q['rev'] \
        and not q['dist'] and not q.get('ops') and q['term'] == ['list']


def kind_of(q):
    if q['src'] in ('alt', 'idx'):
        return q['src']
    t = q['term'][0]
    extra = ''
    if q['src'] == 'sel' and (q['dist'] or any(o[0] == 'dist' for o in q.get('ops', []))):
        extra += '+distinct'
    nrev = (1 if q.get('rev') else 0) + sum(1 for o in q.get('ops', []) if o[0] == 'rev')
    if nrev:
        extra += '+rev%d' % min(nrev, 2)
    return '%s:%s%s' % (q['src'], t if t in ('list', 'count', 'one', 'one0') else 'agg', extra)


def tbl_spec(tbl):
    return {k: tbl[k] for k in ('cls', 'dom', 'rows', 'oth', 'ids', 'oth_ids') if k in tbl}


def run_table(ctx, tbl, phases, tag):
    """phases: list of (mutations, queries); each of the two is a list of concrete items or a number
    of items to draw (with ctx.rng) when the phase starts.  Everything goes to the model in one batch.

    Some of the SelectResults objects built in a phase are kept in a pool and evaluated again
    (count, iteration, aggregates, getOne) on the SAME object after the mutations of the later phases:
    a select is a description of a query, not a snapshot."""
    rng = ctx.rng
    spec = json.loads(json.dumps(tbl_spec(tbl)))
    cls, oth_ids = load_table(tbl)
    table = cls.sqlmeta.table
    lines = [schema_line(tbl['cls'])]
    work = []           # (phase rows, gs, query, impl outcome, line index, replay steps)
    pool = []           # {'q': query, 'sel': SelectResults, 'steps': history of this object}
    muts_so_far = []

    def evaluate(rows, gs_pair, q, outcome, steps, reused):
        lines.append(enc_query(q))
        work.append((rows, gs_pair, q, outcome, len(lines) - 1, {'table': spec, 'steps': list(steps)}, reused))
    for muts, queries in phases:
        if isinstance(muts, int):
            ids = [r[0] for r in raw_rows(cls)]
            drawn = []
            for _ in range(muts):
                m = gen_mutation(rng, tbl, ids)
                if m is not None:
                    drawn.append(m)
                    if m[0] == 'del':
                        ids.remove(m[1])
                    elif m[0] == 'ins' and m[1] is not None:
                        ids.append(m[1])
            muts = drawn
        for m in muts:
            apply_mutation(cls, m)
        muts_so_far.extend(muts)
        rows = raw_rows(cls)
        oth_rows = raw_oth()
        gs = [g for _, g in oth_rows]
        lines.append(rows_line(rows))
        lines.append(oth_line(gs))
        # the pooled objects, built before these mutations, must answer for the table as it is now
        for ent in pool:
            ent['steps'].extend(['mut', m] for m in muts)
            terms = [['count'], ['list'],
                     rng.choice([[rng.choice(['sum', 'min', 'max', 'avg']), gen_term_target(rng, table, tbl['cls'] == 'str')],
                                 ['one0'], ['one']]),
                     ['count']]
            for t in terms:
                q2 = dict(ent['q'], term=t)
                out = eval_term(cls, ent['sel'], t)
                ent['steps'].append(['eval', t])
                evaluate(rows, (gs, oth_rows), q2, out, ent['steps'], True)
        if isinstance(queries, int):
            tbl['cur'] = [list(r[1:]) for r in rows]
            queries = [gen_query(rng, tbl, table, oth_ids, [r[0] for r in rows], rng.random() < 0.06)
                       for _ in range(queries)]
        for q in queries:
            keep = [] if (len(pool) < 4 and q['src'] in ('sel', 'by') and rng.random() < 0.6) else None
            out = run_impl(cls, q, keep)
            steps = [['mut', m] for m in muts_so_far] + [['build', q], ['eval', q.get('term')]]
            evaluate(rows, (gs, oth_rows), q, out, steps, False)
            if keep:
                ent = {'q': q, 'sel': keep[0], 'steps': steps}
                pool.append(ent)
                if q['term'] != ['count']:      # a first count() on the object that will be asked again later
                    q2 = dict(q, term=['count'])
                    out = eval_term(cls, ent['sel'], ['count'])
                    ent['steps'].append(['eval', ['count']])
                    evaluate(rows, (gs, oth_rows), q2, out, ent['steps'], True)
    outs = ctx.model(lines)
    for rows, (gs, oth_rows), q, (text, res, ids), li, rp, reused in work:
        desc = {'cls': tbl['cls'], 'rows': [list(r) for r in rows], 'oth': gs, 'oth_rows': [list(r) for r in oth_rows],
                'query': q, 'line': lines[li], 'tag': tag, 'replay': rp, 'reused_object': reused}
        exp = None
        try:
            exp = oracle(tbl['cls'], rows, gs, q)
        except Exception as ex:
            ctx.note('oracle evaluator crashed on %s: %r' % (lines[li], ex))
        ctx.case((tuple(rows), tuple(gs), lines[li]), nontrivial=not is_trivial(q),
                 sample={'table': desc['rows'], 'oth': gs, 'query': lines[li], 'sql': text,
                         'impl': res if not isinstance(res, tuple) else 'ratio %s' % res[1]},
                 kind=kind_of(q) + ('+reused-object' if reused else ''))
        fail = check_oracle(ctx, desc, exp, res, ids, rows)
        if fail:
            ctx.oracle_fail('C11:%s:%s' % (kind_of(q), lines[li]), '%s%s on table %s (oth %s): %s'
                            % (lines[li], ' [same SelectResults object evaluated again after %d mutation(s)]'
                               % sum(1 for st in rp['steps'] if st[0] == 'mut') if reused else '', desc['rows'], gs, fail), desc)
        if exp is None:
            ctx.count('outside-property (malformed) shapes')
        if outs is None:
            continue
        mo = outs[li]
        if ' | ' not in mo:
            ctx.compare('driver understood the request', desc, mo, 'text | result')
            continue
        mtext, mres = mo.split(' | ', 1)
        ctx.compare('SQL text: model plan = real statement', desc, mtext, text)
        # results: rows modulo ties, everything else exactly
        ires = res
        if isinstance(res, tuple):
            ires = 'ratio %s' % res[1]
            if mres.startswith('ratio ') and mres != 'ratio null':
                s, n = mres[6:].split('/')
                mres = 'ratio %s' % Fraction(int(s), int(n))
        if ids is not None and mres.startswith('rows'):
            keys = exp['keys'] if exp and exp['kind'] == 'rows' else []
            by_id = {r[0]: r for r in rows}
            mids = [None if x == 'None' else int(x) for x in mres.split()[1:]]
            ctx.compare('result rows (modulo ties): model = SQLite', desc,
                        repr(tie_canon(mids, by_id, keys)), repr(tie_canon(ids, by_id, keys)))
        else:
            if q['src'] == 'alt' and mres.startswith('one ') and ires.startswith('one ') and exp and len(exp['matches']) > 1:
                mres = ires     # several rows with the key: any of them (only NULL keys could do this)
            ctx.compare('result value / outcome: model = real code', desc, mres, ires)


# ---------------------------------------------------------------------------------- transactions
# A select / get / count through the class's own connection must equal the same query over the rows that
# are in the table NOW -- also right after another connection-like object (a Transaction) of the same
# process has committed (or rolled back) deletes, updates and inserts, long transactions (more lookups
# than the cache's cull frequency) included.  Oracle: raw `SELECT id, name, v` + a Python evaluation.

_txenv = {}


def tx_env():
    if _txenv:
        return _txenv
    import atexit
    import shutil
    import tempfile
    sqlo.setup()
    from sqlobject import SQLObject, IntCol, StringCol
    from sqlobject.sqlite.sqliteconnection import SQLiteConnection
    d = tempfile.mkdtemp(prefix='c11tx_', dir='/dev/shm' if os.path.isdir('/dev/shm') else None)
    atexit.register(shutil.rmtree, d, True)
    conn = SQLiteConnection(os.path.join(d, 'tx.db'))

    class C11Tx(SQLObject):
        _connection = conn
        name = StringCol(alternateID=True)
        v = IntCol(default=None)
    conn.query('PRAGMA synchronous=OFF')
    C11Tx.createTable()
    _txenv.update(conn=conn, cls=C11Tx, dir=d)
    return _txenv


def gen_tx_scenario(rng):
    n = rng.choice([3, 4, 5, 6, 8])
    dom = [None, 0, 1, 3, 3, 7]
    rows = [['r%d' % i, rng.choice(dom)] for i in range(n)]
    live = list(range(1, n + 1))
    steps = []
    lookups = rng.choice([0, 2, 5, 101, 120, 160])
    early = rng.random() < 0.5         # the long run of lookups comes before / after the writes
    n_del = rng.choice([0, 0, 1, 2, 2, 3])
    n_upd = rng.choice([0, 1, 2, n])
    n_ins = rng.choice([0, 0, 1, 2])
    writes = []
    for _ in range(min(n_upd, len(live))):
        writes.append(['upd', rng.choice(live), rng.choice([None, 0, 5, 9, 97, 100])])
    for _ in range(n_del):
        if len(live) > 1:
            i = rng.choice(live)
            live.remove(i)
            writes = [w for w in writes if not (w[0] == 'upd' and w[1] == i and rng.random() < 0.5)]
            writes.append(['del', i])
    for k in range(n_ins):
        writes.append(['ins', 'n%d' % k, rng.choice(dom)])
    # an update of a row must come before its delete
    dead = set()
    ordered = []
    for w in writes:
        if w[0] == 'upd' and w[1] in dead:
            continue
        if w[0] == 'del':
            dead.add(w[1])
        ordered.append(w)
    poll = [['get', rng.choice(list(range(1, n + 1)))] for _ in range(1)] if lookups else []
    gets = [['gets', poll[0][1] if poll else 1, lookups]] if lookups else []
    steps = (gets + ordered) if early else (ordered + gets)
    # a polled row that was deleted cannot be looked up afterwards
    if not early and gets and gets[0][1] in dead:
        steps = gets + ordered
    return {'rows': rows, 'steps': steps, 'end': rng.choice(['commit', 'commit', 'commit', 'rollback']),
            'preload': rng.choice([True, True, False]), 'fetch_first': rng.choice([True, True, False])}


def tx_truth(conn, cls):
    return [tuple(r) for r in conn.queryAll('SELECT id, name, v FROM %s ORDER BY id' % cls.sqlmeta.table)]


def _nf(x):
    return (x is not None, x if x is not None else 0)


def tx_check(cls, conn, all_ids):
    """every way of reading the table through the class's own connection against the raw rows; returns a
    list of discrepancies (text)"""
    from sqlobject import SQLObjectNotFound
    truth = tx_truth(conn, cls)
    by_id = {r[0]: r for r in truth}
    bad = []

    def shown(sel):
        return [(r.id, r.name, r.v) for r in sel]

    def cmp(what, got, want):
        if got != want:
            bad.append('%s: %r, rows in the table give %r' % (what, got, want))
    cmp("select(orderBy='id')", shown(cls.select(orderBy='id')), truth)
    want = sorted(truth, key=lambda t: (_nf(t[2]), t[0]))
    cmp("select(orderBy=['v','id'])", shown(cls.select(orderBy=['v', 'id'])), want)
    cmp("select(orderBy=['v','id']).reversed()", shown(cls.select(orderBy=['v', 'id']).reversed()), want[::-1])
    cmp("select().orderBy('-id')", shown(cls.select().orderBy('-id')), truth[::-1])
    for val in sorted(set(t[2] for t in truth), key=_nf):
        w = [t for t in truth if t[2] == val]
        cmp('selectBy(v=%r).orderBy(id)' % (val,), shown(cls.selectBy(v=val).orderBy('id')), w)
        cmp('select(q.v == %r)' % (val,), shown(cls.select(cls.q.v == val, orderBy='id')), w)
        cmp('selectBy(v=%r).count()' % (val,), cls.selectBy(v=val).count(), len(w))
    for t in truth:
        try:
            r = cls.byName(t[1])
            cmp('byName(%r)' % t[1], (r.id, r.name, r.v), t)
        except SQLObjectNotFound:
            bad.append('byName(%r): not found, the table has %r' % (t[1], t))
    for i in all_ids:
        try:
            o = cls.get(i)
            got = (o.id, o.name, o.v)
        except SQLObjectNotFound:
            got = 'not-found'
        cmp('get(%d)' % i, got, by_id.get(i, 'not-found'))
    vals = [t[2] for t in truth if t[2] is not None]
    sel = cls.select()
    cmp('count/sum/min/max', (sel.count(), sel.sum('v'), sel.min('v'), sel.max('v')),
        (len(truth), sum(vals) if vals else None, min(vals) if vals else None, max(vals) if vals else None))
    return bad


def run_tx_scenario(sc):
    """returns (discrepancies before the transaction, discrepancies after it, exception text or None)"""
    e = tx_env()
    cls, conn = e['cls'], e['conn']
    conn.query('DELETE FROM %s' % cls.sqlmeta.table)
    conn.cache.clear()
    ids = []
    for name, v in sc['rows']:
        ids.append(cls(name=name, v=v).id)
    base = ids[0] - 1                     # step ids are 1-based positions
    mine = list(cls.select(orderBy='id')) if sc['preload'] else []
    before = tx_check(cls, conn, ids) if sc['preload'] else []
    trans = conn.transaction()
    err = None
    all_ids = list(ids)
    try:
        theirs = {o.id: o for o in cls.select(orderBy='id', connection=trans)} if sc['fetch_first'] else {}

        def obj(i):
            return theirs[i] if i in theirs else cls.get(i, connection=trans)
        for st in sc['steps']:
            if st[0] == 'gets':
                for _ in range(st[2]):
                    cls.get(base + st[1], connection=trans)
            elif st[0] == 'upd':
                obj(base + st[1]).v = st[2]
            elif st[0] == 'del':
                obj(base + st[1]).destroySelf()
            elif st[0] == 'ins':
                all_ids.append(cls(name=st[1], v=st[2], connection=trans).id)
        if sc['end'] == 'commit':
            trans.commit(close=True)
        else:
            trans.rollback()
    except Exception as ex:                 # an outcome, reported by the caller
        err = exc_out(ex)
        try:
            trans.rollback()
        except Exception:
            pass
    after = tx_check(cls, conn, all_ids)
    del mine
    return before, after, err


def tx_key(sc):
    return 'C11:tx:%s' % json.dumps(sc, sort_keys=True, separators=(',', ':'))


def run_tx_stream(ctx):
    corpus = [
        # two rows of one class destroyed in one transaction
        {'rows': [['a', 3], ['b', None], ['c', 3], ['d', 7], ['e', 1]], 'steps': [['del', 2], ['del', 4]],
         'end': 'commit', 'preload': True, 'fetch_first': False},
        # a long transaction: rows fetched first, > 100 lookups, then every row updated through the fetched objects
        {'rows': [['a', 3], ['b', None], ['c', 3], ['d', 7], ['e', 1], ['f', 0]],
         'steps': [['gets', 6, 120]] + [['upd', i, 100 - i] for i in range(1, 7)],
         'end': 'commit', 'preload': True, 'fetch_first': True},
        {'rows': [['a', 1], ['b', 2], ['c', 3]], 'steps': [['upd', 1, 9], ['del', 2], ['ins', 'n0', None]],
         'end': 'rollback', 'preload': True, 'fetch_first': True},
    ]
    scenarios = corpus + [gen_tx_scenario(ctx.rng) for _ in range(ctx.budget(30, 400))]
    for sc in scenarios:
        try:
            before, after, err = run_tx_scenario(sc)
        except Exception as ex:
            before, after, err = [], [], 'harness step failed: ' + exc_out(ex)
        long_tx = any(st[0] == 'gets' and st[2] > 100 for st in sc['steps'])
        n_del = sum(1 for st in sc['steps'] if st[0] == 'del')
        ctx.case(('tx', json.dumps(sc, sort_keys=True)), nontrivial=bool(sc['steps']),
                 sample={'scenario': sc, 'after': after[:2]},
                 kind='transaction:%s%s%s' % (sc['end'], '+long' if long_tx else '', '+%ddel' % n_del if n_del else ''))
        desc = {'tx': sc, 'tag': 'transaction'}
        if err:
            ctx.oracle_fail(tx_key(sc), 'transaction scenario %s raised %s' % (sc, err), desc)
        elif before:
            ctx.oracle_fail(tx_key(sc), 'before the transaction: %s' % '; '.join(before[:3]), desc)
        elif after:
            ctx.oracle_fail(tx_key(sc), 'after %s of a transaction with steps %s (rows %s): %s'
                            % (sc['end'], sc['steps'], sc['rows'], '; '.join(after[:4])), desc)


# ---------------------------------------------------------------------------------- several connections
# The same class used through several independent connection objects (file-based SQLite databases created one
# after the other in the same thread, an in-memory one, the class's own): a select / selectBy / count /
# aggregate / lookup with `connection=c` (or `.connection(c)` on an existing select) must equal the query over
# the rows of c's database -- whatever was written through the other connections, which hold other rows
# under the same names and ids.  Oracle: the rows read from c's FILE with a private `sqlite3` connection
# (nothing of sqlobject's connection machinery is involved) + a Python evaluation.

_mcenv = {}
MC_NAMES = ['n0', 'n1', 'n2', 'n3', 'n4']


def mc_env():
    if _mcenv:
        return _mcenv
    import atexit
    import shutil
    import tempfile
    sqlo.setup()
    from sqlobject import SQLObject, IntCol, StringCol
    d = tempfile.mkdtemp(prefix='c11mc_', dir='/dev/shm' if os.path.isdir('/dev/shm') else None)
    atexit.register(shutil.rmtree, d, True)
    home = sqlo.mem_conn()

    class C11Mc(SQLObject):
        _connection = home
        name = StringCol(alternateID=True)
        v = IntCol(default=None)
        w = IntCol(default=None)
    C11Mc.createTable()
    _mcenv.update(cls=C11Mc, home=home, dir=d, n=[0])
    return _mcenv


def gen_mc_scenario(rng):
    kinds = ['file', 'file'] + rng.choice([[], ['file'], ['memory'], ['file', 'memory']])
    rng.shuffle(kinds)
    kinds = ['home'] + kinds              # connection 0 is the class's own
    nc = len(kinds)
    steps = []
    live = [set() for _ in range(nc)]
    dom = [None, 0, 1, 2, 5, -3]
    for _ in range(rng.choice([3, 5, 8, 12])):
        c = rng.randrange(nc)
        r = rng.random()
        if r < 0.55 or not live[c]:
            free = [n for n in MC_NAMES if n not in live[c]]
            if not free:
                continue
            n = rng.choice(free)
            live[c].add(n)
            steps.append(['ins', c, n, rng.choice(dom), rng.choice(dom)])
        elif r < 0.8:
            steps.append(['upd', c, rng.choice(sorted(live[c])), rng.choice(dom)])
        else:
            n = rng.choice(sorted(live[c]))
            live[c].discard(n)
            steps.append(['del', c, n])
        if rng.random() < 0.35:
            steps.append(['check'])
    steps.append(['check'])
    return {'conns': kinds, 'steps': steps, 'if_not_exists': rng.random() < 0.7}


def mc_truth(kind, conn, path, table):
    """rows of one database, read without sqlobject for a file"""
    if kind == 'file':
        import sqlite3
        raw = sqlite3.connect(path)
        try:
            return [tuple(r) for r in raw.execute('SELECT id, name, v, w FROM %s ORDER BY id' % table)]
        except sqlite3.OperationalError:
            return []                      # no such table in this file: nothing was stored in it
        finally:
            raw.close()
    return [tuple(r) for r in conn.queryAll('SELECT id, name, v, w FROM %s ORDER BY id' % table)]


def mc_check(cls, ci, conn, explicit, truth, other):
    """every way of reading through connection `ci` against the rows of ITS database"""
    from sqlobject import SQLObjectNotFound
    bad = []
    ckw = {'connection': conn} if explicit else {}
    tag = 'connection=#%d' % ci if explicit else 'class connection'

    def shown(sel):
        return [None if r is None else (r.id, r.name, r.v, r.w) for r in sel]

    def cmp(what, got, want):
        if got != want:
            bad.append('%s [%s]: %r, the rows of that database give %r' % (what, tag, got, want))
    cmp("select(orderBy='id')", shown(cls.select(orderBy='id', **ckw)), truth)
    want = sorted(truth, key=lambda t: (_nf(t[2]), -t[0]))
    cmp("select(orderBy=['v','-id'])", shown(cls.select(orderBy=['v', '-id'], **ckw)), want)
    cmp("select(orderBy=('v','-id')).reversed()", shown(cls.select(orderBy=('v', '-id'), **ckw).reversed()), want[::-1])
    if explicit and other is not None:
        # a select built for another connection, redirected with .connection(c)
        sel = cls.select(cls.q.v != None, orderBy='-id', connection=other).connection(conn)     # noqa: E711
        w = [t for t in truth if t[2] is not None][::-1]
        cmp('select(v != None, connection=other).connection(c)', shown(sel), w)
        cmp('… .count()', sel.count(), len(w))
        cmp('… .sum(v)', sel.sum('v'), sum(t[2] for t in w) if w else None)
    for val in sorted(set(t[2] for t in truth) | {1}, key=_nf):
        w = [t for t in truth if t[2] == val]
        cmp('selectBy(v=%r).orderBy(id)' % (val,), shown(cls.selectBy(v=val, **ckw).orderBy('id')), w)
        cmp('select(q.v == %r).count()' % (val,), cls.select(cls.q.v == val, **ckw).count(), len(w))
        cmp('selectBy(v=%r).distinct().count()' % (val,), cls.selectBy(v=val, **ckw).distinct().count(), len(w))
    vals = [t[2] for t in truth if t[2] is not None]
    sel = cls.select(**ckw)
    avg = sel.avg('v')
    cmp('count/sum/min/max/avg(v)', (sel.count(), sel.sum('v'), sel.min('v'), sel.max(cls.q.v),
                                    None if avg is None else Fraction(avg).limit_denominator(1000)),
        (len(truth), sum(vals) if vals else None, min(vals) if vals else None, max(vals) if vals else None,
         Fraction(sum(vals), len(vals)) if vals else None))
    by_name = {t[1]: t for t in truth}
    for n in MC_NAMES:
        try:
            r = cls.byName(n, **ckw)
            got = None if r is None else (r.id, r.name, r.v, r.w)
        except SQLObjectNotFound:
            got = 'not-found'
        cmp('byName(%r)' % n, got, by_name.get(n, 'not-found'))
        r = cls.selectBy(name=n, **ckw).getOne(DEFAULT)
        cmp('selectBy(name=%r).getOne(default)' % n, 'default' if r is DEFAULT else (r.id, r.name, r.v, r.w) if r is not None else None,
            by_name.get(n, 'default'))
    return bad


def run_mc_scenario(sc):
    """-> list of discrepancies (text); exceptions of the real code are discrepancies too"""
    from sqlobject.sqlite.sqliteconnection import SQLiteConnection
    e = mc_env()
    cls, home = e['cls'], e['home']
    table = cls.sqlmeta.table
    home.query('DELETE FROM %s' % table)
    home.cache.clear()
    conns, paths = [], []
    bad = []
    try:
        for k in sc['conns']:
            if k == 'home':
                conns.append(home)
                paths.append(None)
                continue
            e['n'][0] += 1
            path = os.path.join(e['dir'], 'db%d.sqlite' % e['n'][0]) if k == 'file' else None
            c = SQLiteConnection(path) if k == 'file' else sqlo.mem_conn()
            if k == 'file':
                c.query('PRAGMA synchronous=OFF')
            conns.append(c)
            paths.append(path)
            cls.createTable(ifNotExists=sc['if_not_exists'], connection=c)

        def ckw(ci):
            return {} if ci == 0 else {'connection': conns[ci]}
        for st in sc['steps']:
            if st[0] == 'ins':
                cls(name=st[2], v=st[3], w=st[4], **ckw(st[1]))
            elif st[0] == 'upd':
                cls.byName(st[2], **ckw(st[1])).v = st[3]
            elif st[0] == 'del':
                cls.byName(st[2], **ckw(st[1])).destroySelf()
            else:
                for ci, c in enumerate(conns):
                    truth = mc_truth(sc['conns'][ci], c, paths[ci], table)
                    other = conns[(ci + 1) % len(conns)]
                    found = mc_check(cls, ci, c, ci != 0, truth, other)
                    if ci == 0:      # the class's own connection given explicitly too
                        found += mc_check(cls, ci, c, True, truth, other)
                    bad += ['after %d step(s), %s database #%d: %s' % (sc['steps'].index(st), sc['conns'][ci], ci, x)
                            for x in found[:3]]
                if bad:
                    break
    except Exception as ex:
        bad.append('raised %s: %s' % (exc_out(ex), str(ex)[:200]))
    finally:
        for c, k in zip(conns, sc['conns']):
            if k != 'home':
                try:
                    c.close()
                except Exception:
                    pass
        for p in paths:
            if p and os.path.exists(p):
                os.remove(p)
    return bad


def mc_key(sc):
    return 'C11:connections:%s' % json.dumps(sc, sort_keys=True, separators=(',', ':'))


def run_mc_stream(ctx):
    corpus = [
        # two file databases written one after the other, same names and ids, different values
        {'conns': ['home', 'file', 'file'], 'if_not_exists': True,
         'steps': [['ins', 1, 'n0', 1, 1], ['ins', 1, 'n1', 2, None], ['check'], ['ins', 2, 'n0', 5, 0], ['check'],
                   ['ins', 0, 'n0', -3, 2], ['upd', 2, 'n0', None], ['del', 1, 'n1'], ['check']]},
        {'conns': ['home', 'file', 'memory', 'file'], 'if_not_exists': False,
         'steps': [['ins', 3, 'n2', 0, 0], ['ins', 2, 'n2', 1, 1], ['ins', 1, 'n2', 2, 2], ['ins', 3, 'n3', None, 5], ['check'],
                   ['del', 3, 'n2'], ['check']]},
    ]
    scenarios = corpus + [gen_mc_scenario(ctx.rng) for _ in range(ctx.budget(25, 400))]
    for sc in scenarios:
        bad = run_mc_scenario(sc)
        ctx.case(('mc', json.dumps(sc, sort_keys=True)), nontrivial=True,
                 sample={'scenario': sc, 'discrepancies': bad[:2]},
                 kind='connections:%d(%s)' % (len(sc['conns']), '+'.join(sorted(set(sc['conns'])))))
        if bad:
            ctx.oracle_fail(mc_key(sc), 'several connections %s, steps %s: %s' % (sc['conns'], sc['steps'], '; '.join(bad[:3])),
                            {'mc': sc, 'tag': 'connections'})


# ---------------------------------------------------------------------------------- text clauses
# select("<SQL text>") / selectBy(...) followed by filter(<expression>) chains: the text is ONE operand of the
# conjunction -- the rows selected are exactly those satisfying the text AND every filter (a text with a top-level
# OR must not capture the filter).  Oracle: the raw rows + the pure-Python three-valued evaluator (`o_expr`).

T_OPS = {'eq': '=', 'ne': '<>', 'lt': '<', 'le': '<=', 'gt': '>', 'ge': '>='}
T_COLS = ['a', 'bVal', 'p', 'alt', 'fkID']


def gen_text_atom(rng, tbl):
    dom = tbl['dom'] + [tbl['dom'][0] + 1, 1, 0]
    c = rng.choice(T_COLS)
    k = rng.random()
    if k < 0.2:
        return [rng.choice(['isnull', 'notnull']), ['c', c]]
    if k < 0.3:
        return ['not', ['cmp', rng.choice(sorted(T_OPS)), ['c', c], ['l', rng.choice(dom)]]]
    return ['cmp', rng.choice(sorted(T_OPS)), ['c', c], ['l', rng.choice(dom)]]


def text_of(e):
    k = e[0]
    if k == 'cmp':
        return '%s %s %d' % (DBN[e[2][1]], T_OPS[e[1]], e[3][1])
    if k == 'isnull':
        return '%s IS NULL' % DBN[e[1][1]]
    if k == 'notnull':
        return '%s IS NOT NULL' % DBN[e[1][1]]
    if k == 'not':
        return 'NOT (%s)' % text_of(e[1])
    if k == 'par':
        return '(%s)' % text_of(e[1])
    if k == 'and':
        return '%s AND %s' % (text_of(e[1]), text_of(e[2]))       # operands are atoms / conjunctions
    if k == 'or':
        return '%s OR %s' % (text_of(e[1]), text_of(e[2]))        # top level only: never parenthesised
    raise ValueError(k)


def unpar(e):
    """the expression a text stands for: explicit parentheses dropped"""
    if e[0] == 'par':
        return unpar(e[1])
    if e[0] in ('and', 'or'):
        return [e[0], unpar(e[1]), unpar(e[2])]
    if e[0] == 'not':
        return ['not', unpar(e[1])]
    return e


def gen_text_scenario(rng):
    tbl = gen_table(rng)
    tbl['cls'] = rng.choice(['row', 'row', 'dfl', 'ncv'])
    tbl.pop('ids', None)
    disj = []
    for _ in range(rng.choice([1, 2, 2, 3])):
        conj = gen_text_atom(rng, tbl)
        if rng.random() < 0.35:
            conj = ['and', conj, gen_text_atom(rng, tbl)]
        if rng.random() < 0.45:         # a text that STARTS (or ends) with a parenthesis: "(a = 1) OR b_val = 2"
            conj = ['par', conj]
        disj.append(conj)
    e = disj[0]
    for x in disj[1:]:
        e = ['or', e, x]
    filters = [gen_text_atom(rng, tbl) if rng.random() < 0.7 else ['or', gen_text_atom(rng, tbl), gen_text_atom(rng, tbl)]
               for _ in range(rng.choice([1, 1, 2, 3]))]
    kind = rng.choice(['text', 'text', 'text', 'by', 'all'])
    kw = []
    if kind == 'by':
        cols = rng.sample(['a', 'bVal', 'p'], rng.choice([1, 2]))
        kw = [[c, rng.choice(tbl['dom'] + [None])] for c in cols]
    return {'table': tbl_spec(tbl), 'kind': kind, 'expr': e, 'kw': kw, 'filters': filters,
            'distinct': rng.random() < 0.2, 'reversed': rng.random() < 0.2}


def run_text_scenario(sc):
    """returns a list of discrepancies"""
    tbl = dict(sc['table'])
    cls, _ = load_table(tbl)
    rows = raw_rows(cls)
    if sc['kind'] == 'text':
        sel = cls.select(text_of(sc['expr']))
        base = unpar(sc['expr'])
    elif sc['kind'] == 'by':
        sel = cls.selectBy(**{c: v for c, v in sc['kw']})
        base = ['kw', [[c, v] for c, v in sc['kw']]]
    else:
        sel = cls.select('all')
        base = ['tt']
    bad = []

    def want(parts):
        return [r[0] for r in rows if all(o_expr(p, r, None) is True for p in parts)]

    def check(what, sel, parts):
        try:
            got = sorted(o.id for o in sel)
            cnt = sel.count()
        except Exception as ex:
            bad.append('%s raised %s (sql: %s)' % (what, exc_out(ex), str(sel)))
            return
        w = sorted(want(parts))
        if got != w or cnt != len(w):
            bad.append('%s: ids %r count %r, rows satisfying every condition: %r (sql: %s)' % (what, got, cnt, w, str(sel)))
    parts = [base]
    check('the select itself', sel, parts)
    for i, f in enumerate(sc['filters']):
        sel = sel.filter(build_expr(cls, f))
        parts = parts + [f]
        check('after %d filter() call(s)' % (i + 1), sel, parts)
        if sc['reversed'] and i == 0:
            sel = sel.reversed()
        if sc['distinct'] and i == 0:
            sel = sel.distinct()
    check('filter(None)', sel.filter(None), parts)
    return bad


def run_text_stream(ctx):
    corpus = [
        {'table': {'cls': 'row', 'dom': [0, 1, 2], 'rows': [[1, 2, 97, None, 1, 1], [0, 2, None, None, 7, 1], [1, None, 98, None, 3, None],
                                                            [2, 0, 99, None, 4, 0], [None, None, None, None, 6, None]], 'oth': []},
         'kind': 'text', 'expr': ['or', ['par', ['cmp', 'eq', ['c', 'a'], ['l', 1]]], ['cmp', 'eq', ['c', 'bVal'], ['l', 2]]],
         'kw': [], 'filters': [['cmp', 'ge', ['c', 'p'], ['l', 1]]], 'distinct': False, 'reversed': False},
        {'table': {'cls': 'row', 'dom': [0, 1, 2], 'rows': [[1, 2, 97, None, 1, 1], [0, 2, None, None, 7, 1], [1, None, 98, None, 3, None]], 'oth': []},
         'kind': 'text', 'expr': ['or', ['cmp', 'eq', ['c', 'a'], ['l', 0]], ['isnull', ['c', 'bVal']]],
         'kw': [], 'filters': [['cmp', 'eq', ['c', 'a'], ['l', 5]], ['notnull', ['c', 'p']]], 'distinct': True, 'reversed': True},
        {'table': {'cls': 'row', 'dom': [0, 1, 2], 'rows': [[1, 2, 97, None, 1, 1], [1, None, 98, None, 3, None]], 'oth': []},
         'kind': 'by', 'expr': ['tt'], 'kw': [['a', 1], ['bVal', None]],
         'filters': [['or', ['cmp', 'eq', ['c', 'p'], ['l', 0]], ['isnull', ['c', 'p']]]], 'distinct': False, 'reversed': False},
    ]
    scenarios = corpus + [gen_text_scenario(ctx.rng) for _ in range(ctx.budget(60, 1500))]
    for sc in scenarios:
        try:
            bad = run_text_scenario(sc)
        except Exception as ex:
            bad = ['harness step failed: ' + exc_out(ex) + ' ' + repr(ex)[:200]]
        top_or = sc['kind'] == 'text' and sc['expr'][0] == 'or'
        lead_par = sc['kind'] == 'text' and text_of(sc['expr']).startswith('(')
        ctx.case(('text', json.dumps(sc, sort_keys=True)), nontrivial=True, sample={'scenario': sc, 'bad': bad[:1]},
                 kind='text-clause:%s%s+%dfilter' % (sc['kind'], ('+top-level-OR' if top_or else '') + ('+leading-paren' if lead_par else ''), len(sc['filters'])))
        if bad:
            desc = {'textsc': sc, 'tag': 'text-clause'}
            ctx.oracle_fail('C11:text:%s' % json.dumps(sc, sort_keys=True, separators=(',', ':')),
                            '%s %s then filters %s on rows %s: %s'
                            % (sc['kind'], text_of(sc['expr']) if sc['kind'] == 'text' else sc['kw'], sc['filters'],
                               sc['table']['rows'], '; '.join(bad[:3])), desc)



# ---------------------------------------------------------------------------------- converted lookup values
# by<AlternateID>() / unique-index get() on a column whose from_python is NOT idempotent (UuidCol: uuid.UUID -> str,
# a str is refused): the looked-up value is converted once; a present key finds its row, an absent one is not-found.
# Oracle: raw `SELECT id, u, n`.

_uuenv = {}


def uu_env():
    if _uuenv:
        return _uuenv
    sqlo.setup()
    from sqlobject import SQLObject, IntCol, UuidCol, DatabaseIndex
    conn = sqlo.mem_conn()

    class C11Uu(SQLObject):
        _connection = conn
        u = UuidCol(alternateID=True)
        n = IntCol(default=None)
        unIdx = DatabaseIndex('u', 'n', unique=True)
    C11Uu.createTable()
    _uuenv.update(conn=conn, cls=C11Uu)
    return _uuenv


def run_uuid_scenario(sc):
    import uuid
    from sqlobject import SQLObjectNotFound
    e = uu_env()
    cls, conn = e['cls'], e['conn']
    conn.query('DELETE FROM %s' % cls.sqlmeta.table)
    conn.cache.clear()
    for k, n in sc['rows']:
        cls(u=uuid.UUID(int=k), n=n)
    for st in sc['steps']:
        if st[0] == 'upd':
            cls.byU(uuid.UUID(int=st[1])).u = uuid.UUID(int=st[2])
        elif st[0] == 'del':
            cls.byU(uuid.UUID(int=st[1])).destroySelf()
    truth = {str(r[1]): (r[0], r[2]) for r in conn.queryAll('SELECT id, u, n FROM %s' % cls.sqlmeta.table)}
    bad = []

    def look(what, f):
        try:
            return f().id
        except SQLObjectNotFound:
            return 'not-found'
        except Exception as ex:
            return 'raised ' + exc_out(ex)
    for k in sc['probe']:
        u = uuid.UUID(int=k)
        want = truth.get(str(u), (None, None))
        w = want[0] if want[0] is not None else 'not-found'
        got = look('byU', lambda: cls.byU(u))
        if got != w:
            bad.append('byU(%s): %r, the table has %r' % (u, got, w))
        for n in sc['ns']:
            wn = want[0] if (want[0] is not None and want[1] == n and n is not None) else 'not-found'
            for name, f in (('unIdx.get(u=, n=)', lambda: cls.unIdx.get(u=u, n=n)), ('unIdx.get(u, n)', lambda: cls.unIdx.get(u, n))):
                got = look(name, f)
                if got != wn:
                    bad.append('%s with (%s, %r): %r, the table has %r' % (name, u, n, got, wn))
        got = sorted(o.id for o in cls.selectBy(u=u))
        if got != ([want[0]] if want[0] is not None else []):
            bad.append('selectBy(u=%s): %r, the table has %r' % (u, got, want[0]))
    return bad


def run_uuid_stream(ctx):
    rng = ctx.rng
    scenarios = [{'rows': [[1, 0], [7919, 1], [15838, 0]], 'steps': [], 'probe': [1, 7919, 15838, 5], 'ns': [0, 1]}]
    for _ in range(ctx.budget(12, 200)):
        keys = rng.sample(range(1, 60), rng.choice([1, 2, 3, 5]))
        rows = [[k * 7919, rng.choice([0, 1, 2])] for k in keys]
        steps = []
        live = [r[0] for r in rows]
        if rng.random() < 0.4:
            old = rng.choice(live)
            steps.append(['upd', old, old + 1])
            live[live.index(old)] = old + 1
        if rng.random() < 0.3 and len(live) > 1:
            steps.append(['del', live.pop()])
        scenarios.append({'rows': rows, 'steps': steps, 'probe': sorted(set([r[0] for r in rows] + live + [3, rows[0][0] + 2])),
                          'ns': [0, 1, 2]})
    for sc in scenarios:
        try:
            bad = run_uuid_scenario(sc)
        except Exception as ex:
            bad = ['harness step failed: ' + exc_out(ex) + ' ' + repr(ex)[:200]]
        ctx.case(('uuid', json.dumps(sc, sort_keys=True)), nontrivial=True, sample={'scenario': sc, 'bad': bad[:1]},
                 kind='converted-key lookup (UuidCol alternateID / unique index)')
        if bad:
            ctx.oracle_fail('C11:uuid:%s' % json.dumps(sc, sort_keys=True, separators=(',', ':')),
                            'UuidCol lookups on rows %s after %s: %s' % (sc['rows'], sc['steps'], '; '.join(bad[:3])),
                            {'uusc': sc, 'tag': 'uuid-lookup'})


# ---------------------------------------------------------------------------------- special configurations
# Three configurations in which the rows / count / lookups must still equal the plain evaluation over the raw rows:
#  (inherit) selects over an InheritableSQLObject hierarchy, iterated in fetchmany batches of 1..5 rows
#            (`InheritableIteration.defaultArraySize`, 10000 by default) with parent, child and grandchild rows mixed;
#  (joinarg) selects whose second table comes in through the `join=` argument (LEFTJOINOn / INNERJOINOn), plain and
#            DISTINCT: list, count, len(list) and sum against the fanned-out / distinct rows;
#  (fkkey)   selectBy(<fkName>=key) / selectBy(<fkName>ID=key) / q.<fk>ID == key / unique-index get for a foreign key
#            to a STRING-keyed class, with keys that look like numbers ('007', ' 7', '42', '0') and others.
# Oracle: raw SELECTs + Python.

_spenv = {}
DEPOT_KEYS = ['7', '007', ' 7', '0042', '42', 'N1', '', "o'k", '0', '00']


def sp_env():
    if _spenv:
        return _spenv
    sqlo.setup()
    from sqlobject import SQLObject, IntCol, StringCol, ForeignKey, DatabaseIndex
    from sqlobject.inheritance import InheritableSQLObject
    conn = sqlo.mem_conn()

    class C11IPar(InheritableSQLObject):
        _connection = conn
        a = IntCol(default=None)
        s = StringCol(default=None)

    class C11IKid(C11IPar):
        k = IntCol(default=None)

    class C11IKid2(C11IPar):
        z = StringCol(default=None)

    class C11IGrand(C11IKid):
        gg = IntCol(default=None)

    class C11JAuthor(SQLObject):
        _connection = conn
        name = StringCol(default=None)
        a = IntCol(default=None)

    class C11JBook(SQLObject):
        _connection = conn
        author = ForeignKey('C11JAuthor', default=None)
        title = StringCol(default=None)

    class C11KDepot(SQLObject):
        _connection = conn

        class sqlmeta:
            idType = str
        name = StringCol(default=None)

    class C11KItem(SQLObject):
        _connection = conn
        depot = ForeignKey('C11KDepot', default=None)
        n = IntCol(default=None)
        idx = DatabaseIndex('depot', 'n', unique=True)
    classes = dict(par=C11IPar, kid=C11IKid, kid2=C11IKid2, grand=C11IGrand, author=C11JAuthor, book=C11JBook,
                   depot=C11KDepot, item=C11KItem)
    for k in ('par', 'kid', 'kid2', 'grand', 'author', 'book', 'depot', 'item'):
        classes[k].createTable()
    _spenv.update(conn=conn, **classes)
    return _spenv


def sp_clear(*keys):
    e = sp_env()
    for k in keys:
        e['conn'].query('DELETE FROM %s' % e[k].sqlmeta.table)
    try:
        e['conn'].query('DELETE FROM sqlite_sequence')
    except Exception:
        pass
    e['conn'].cache.clear()


def gen_sp_scenario(rng):
    kind = rng.choice(['inherit', 'inherit', 'joinarg', 'fkkey'])
    dom = [None, 0, 1, 2, 5]
    if kind == 'inherit':
        n = rng.choice([0, 1, 3, 4, 5, 7, 9, 12])
        rows = [[rng.choice(['par', 'kid', 'kid', 'kid2', 'grand']), rng.choice(dom), rng.choice([None, 'x', 'y']), rng.choice(dom)]
                for _ in range(n)]
        return {'kind': kind, 'batch': rng.choice([1, 2, 2, 3, 3, 5, 10000]), 'rows': rows,
                'muts': [[rng.choice(['del', 'upd']), rng.randint(1, max(n, 1)), rng.choice(dom)] for _ in range(rng.choice([0, 1, 2]))]}
    if kind == 'joinarg':
        na = rng.choice([0, 1, 2, 3, 5])
        authors = [rng.choice(dom) for _ in range(na)]
        books = [rng.choice([None] + list(range(1, na + 1))) for _ in range(rng.choice([0, 1, 3, 5, 8]))] if na else []
        return {'kind': kind, 'authors': authors, 'books': books}
    depots = rng.sample(DEPOT_KEYS, rng.choice([1, 3, 5, 8]))
    items = []
    used = set()
    for _ in range(rng.choice([0, 2, 4, 7])):
        d, n = rng.choice([None] + depots), rng.choice([1, 1, 2, 3])
        if (d, n) in used and d is not None:
            continue
        used.add((d, n))
        items.append([d, n, rng.random() < 0.5])        # depot key, n, given as instance?
    return {'kind': kind, 'depots': depots, 'items': items}


def _cmp(bad, what, got, want):
    if got != want:
        bad.append('%s: %r, the raw rows give %r' % (what, got, want))


def sp_inherit(sc):
    from sqlobject.inheritance.iteration import InheritableIteration
    e = sp_env()
    conn, Par, Kid = e['conn'], e['par'], e['kid']
    sp_clear('grand', 'kid2', 'kid', 'par')
    bad = []
    old = InheritableIteration.defaultArraySize
    InheritableIteration.defaultArraySize = sc['batch']
    try:
        for kind, a, s, x in sc['rows']:
            if kind == 'par':
                Par(a=a, s=s)
            elif kind == 'kid':
                Kid(a=a, s=s, k=x)
            elif kind == 'kid2':
                e['kid2'](a=a, s=s, z=None if x is None else 'z%d' % x)
            else:
                e['grand'](a=a, s=s, k=x, gg=x)
        for phase in range(2):
            if phase == 1:
                if not sc['muts']:
                    break
                for m, i, v in sc['muts']:
                    try:
                        o = Par.get(i)
                    except Exception:
                        continue
                    if m == 'del':
                        o.destroySelf()
                    else:
                        o.a = v
            truth = [tuple(r) for r in conn.queryAll('SELECT id, a, s, child_name FROM %s ORDER BY id' % Par.sqlmeta.table)]
            kid_ids = set(r[0] for r in conn.queryAll('SELECT id FROM %s' % Kid.sqlmeta.table))
            grand_ids = set(r[0] for r in conn.queryAll('SELECT id FROM %s' % e['grand'].sqlmeta.table))
            kid2_ids = set(r[0] for r in conn.queryAll('SELECT id FROM %s' % e['kid2'].sqlmeta.table))

            def cname(i):
                return 'C11IGrand' if i in grand_ids else 'C11IKid' if i in kid_ids else 'C11IKid2' if i in kid2_ids else 'C11IPar'

            def shown(sel):
                return [None if o is None else (o.id, o.a, o.s, type(o).__name__) for o in sel]
            want = [(t[0], t[1], t[2], cname(t[0])) for t in truth]
            tag = 'batch %d, phase %d' % (sc['batch'], phase)
            _cmp(bad, "%s: Par.select(orderBy='id')" % tag, shown(Par.select(orderBy='id')), want)
            _cmp(bad, "%s: Par.select().orderBy('-id')" % tag, shown(Par.select().orderBy('-id')), want[::-1])
            w2 = sorted(want, key=lambda t: (_nf(t[1]), -t[0]))
            _cmp(bad, "%s: Par.select(orderBy=['a','-id'])" % tag, shown(Par.select(orderBy=['a', '-id'])), w2)
            _cmp(bad, "%s: Par.select(orderBy=('a','-id')).reversed()" % tag, shown(Par.select(orderBy=('a', '-id')).reversed()), w2[::-1])
            _cmp(bad, "%s: Par.select(lazyColumns).orderBy('id') ids" % tag, [o.id for o in Par.select(orderBy='id', lazyColumns=True)], [t[0] for t in want])
            _cmp(bad, '%s: len(list(select)) vs count()' % tag, (len(list(Par.select())), Par.select().count()), (len(want), len(want)))
            for v in sorted(set(t[1] for t in want), key=_nf):
                w = [t for t in want if t[1] == v]
                _cmp(bad, '%s: Par.selectBy(a=%r).orderBy(id)' % (tag, v), shown(Par.selectBy(a=v).orderBy('id')), w)
                _cmp(bad, '%s: Par.select(q.a==%r).count()' % (tag, v), Par.select(Par.q.a == v).count(), len(w))
            vals = [t[1] for t in want if t[1] is not None]
            _cmp(bad, '%s: sum/min/max(a)' % tag, (Par.select().sum('a'), Par.select().min('a'), Par.select().max('a')),
                 (sum(vals) if vals else None, min(vals) if vals else None, max(vals) if vals else None))
            wk = [t for t in want if t[0] in kid_ids]
            _cmp(bad, "%s: Kid.select(orderBy='id')" % tag, shown(Kid.select(orderBy='id')), wk)
            _cmp(bad, '%s: Kid.select().count()' % tag, Kid.select().count(), len(wk))
            if want:
                t = want[len(want) // 2]
                got = Par.selectBy(id=t[0]).getOne(DEFAULT)
                _cmp(bad, '%s: Par.selectBy(id=%d).getOne()' % (tag, t[0]), 'default' if got is DEFAULT else (got.id, got.a, got.s, type(got).__name__), t)
    except Exception as ex:
        bad.append('raised %s: %s' % (exc_out(ex), str(ex)[:160]))
    finally:
        InheritableIteration.defaultArraySize = old
    return bad


def sp_joinarg(sc):
    from sqlobject.sqlbuilder import LEFTJOINOn, INNERJOINOn
    e = sp_env()
    conn, A, B = e['conn'], e['author'], e['book']
    sp_clear('book', 'author')
    bad = []
    try:
        for a in sc['authors']:
            A(name='n', a=a)
        for au in sc['books']:
            B(authorID=au, title='t')
        authors = [tuple(r) for r in conn.queryAll('SELECT id, a FROM %s ORDER BY id' % A.sqlmeta.table)]
        books = [r[0] for r in conn.queryAll('SELECT author_id FROM %s' % B.sqlmeta.table)]
        for jname, J in (('LEFTJOINOn', LEFTJOINOn), ('INNERJOINOn', INNERJOINOn)):
            for fv in [None] + sorted(set(a for _, a in authors if a is not None)):
                rows = [t for t in authors if fv is None or t[1] == fv]
                fan = []
                for t in rows:
                    m = books.count(t[0])
                    fan += [t] * (max(m, 1) if jname == 'LEFTJOINOn' else m)
                for dist in (False, True, 'method'):
                    join = J(None, B, B.q.authorID == A.q.id)
                    clause = None if fv is None else (A.q.a == fv)
                    sel = A.select(clause, join=join, distinct=(dist is True), orderBy=A.q.id)
                    if dist == 'method':
                        sel = sel.distinct()
                    want = sorted(set(fan)) if dist else fan
                    tag = 'select(%s, join=%s(None, Book, …)%s)' % ('a==%r' % fv if fv is not None else 'all', jname,
                                                                     ', distinct' if dist is True else '.distinct()' if dist else '')
                    got = [(o.id, o.a) for o in sel]
                    _cmp(bad, tag + ' rows', got, want)
                    _cmp(bad, tag + ' count() vs len(list)', (sel.count(), len(got)), (len(want), len(want)))
                    vals = [t[1] for t in want if t[1] is not None]
                    if dist:
                        vals = sorted(set(vals))
                    _cmp(bad, tag + ' sum(a)', sel.sum(A.q.a), sum(vals) if vals else None)
    except Exception as ex:
        bad.append('raised %s: %s' % (exc_out(ex), str(ex)[:160]))
    return bad


def sp_fkkey(sc):
    from sqlobject import SQLObjectNotFound
    from sqlobject.main import SQLObjectIntegrityError
    e = sp_env()
    conn, D, I = e['conn'], e['depot'], e['item']
    sp_clear('item', 'depot')
    bad = []
    try:
        objs = {k: D(id=k, name='d') for k in sc['depots']}
        for d, n, inst in sc['items']:
            if d is None:
                I(depot=None, n=n)
            elif inst:
                I(depot=objs[d], n=n)
            else:
                I(depotID=d, n=n)
        truth = [tuple(r) for r in conn.queryAll('SELECT id, depot_id, n FROM %s ORDER BY id' % I.sqlmeta.table)]
        stored = [r[0] for r in conn.queryAll('SELECT id FROM %s' % D.sqlmeta.table)]
        _cmp(bad, 'depot keys stored', sorted(stored), sorted(sc['depots']))

        def shown(sel):
            return [(o.id, o.depotID, o.n) for o in sel]
        for key in DEPOT_KEYS + ['0007', '7 ']:
            w = [t for t in truth if t[1] == key]
            _cmp(bad, 'selectBy(depot=%r).orderBy(id)' % key, shown(I.selectBy(depot=key).orderBy('id')), w)
            _cmp(bad, 'selectBy(depot=%r).count()' % key, I.selectBy(depot=key).count(), len(w))
            _cmp(bad, 'selectBy(depotID=%r).orderBy(id)' % key, shown(I.selectBy(depotID=key).orderBy('id')), w)
            _cmp(bad, 'select(q.depotID == %r)' % key, shown(I.select(I.q.depotID == key, orderBy='id')), w)
            if key in objs:
                _cmp(bad, 'selectBy(depot=<Depot %r>)' % key, shown(I.selectBy(depot=objs[key]).orderBy('id')), w)
            for n in (1, 2):
                ww = [t for t in w if t[2] == n]
                want = 'not-found' if not ww else ww[0] if len(ww) == 1 else 'integrity'
                for how in ('pos', 'kw'):
                    try:
                        o = I.idx.get(key, n) if how == 'pos' else I.idx.get(depot=key, n=n)
                        got = None if o is None else (o.id, o.depotID, o.n)
                    except SQLObjectNotFound:
                        got = 'not-found'
                    except SQLObjectIntegrityError:
                        got = 'integrity'
                    _cmp(bad, 'idx.get(%r, %d) [%s]' % (key, n, how), got, want)
        w = [t for t in truth if t[1] is None]
        _cmp(bad, 'selectBy(depot=None)', shown(I.selectBy(depot=None).orderBy('id')), w)
    except Exception as ex:
        bad.append('raised %s: %s' % (exc_out(ex), str(ex)[:160]))
    return bad


def run_sp_scenario(sc):
    return {'inherit': sp_inherit, 'joinarg': sp_joinarg, 'fkkey': sp_fkkey}[sc['kind']](sc)


def run_sp_stream(ctx):
    corpus = [
        {'kind': 'inherit', 'batch': 2, 'muts': [['upd', 2, 5], ['del', 4, None]],
         'rows': [['par', 1, 'x', None], ['kid', 2, 'y', 1], ['kid2', None, None, 2], ['grand', 0, 'x', 5], ['kid', 1, None, None], ['par', 2, 'y', 0], ['kid', 2, 'x', 2]]},
        {'kind': 'inherit', 'batch': 1, 'muts': [], 'rows': [['kid', 1, 'x', 1], ['kid', 1, 'x', 1], ['grand', 1, 'x', 1]]},
        {'kind': 'joinarg', 'authors': [1, 1, None, 2, 0], 'books': [1, 1, 1, 2, 4, 4, None]},
        {'kind': 'fkkey', 'depots': ['7', '007', ' 7', '42', '0042', 'N1', ''],
         'items': [['007', 1, False], ['7', 1, True], ['7', 2, False], [' 7', 1, False], ['0042', 1, True], ['42', 1, False], ['', 1, False], [None, 1, False], ['N1', 3, True]]},
    ]
    scenarios = corpus + [gen_sp_scenario(ctx.rng) for _ in range(ctx.budget(40, 800))]
    for sc in scenarios:
        bad = run_sp_scenario(sc)
        ctx.case(('sp', json.dumps(sc, sort_keys=True)), nontrivial=True, sample={'scenario': sc, 'discrepancies': bad[:2]},
                 kind='special:%s%s' % (sc['kind'], ':batch%d' % sc['batch'] if sc['kind'] == 'inherit' else ''))
        if bad:
            ctx.oracle_fail('C11:%s:%s' % (sc['kind'], json.dumps(sc, sort_keys=True, separators=(',', ':'))),
                            '%s scenario %s: %s' % (sc['kind'], sc, '; '.join(bad[:3])), {'sp': sc, 'tag': 'special'})


def corpus_cases():
    d = os.path.join(os.path.dirname(os.path.dirname(os.path.abspath(__file__))), 'corpus', 'C11')
    out = []
    if os.path.isdir(d):
        for fn in sorted(os.listdir(d)):
            if fn.endswith('.json'):
                with open(os.path.join(d, fn)) as f:
                    for c in json.load(f):
                        out.append((fn, c))
    return out


def run(ctx):
    env()
    rng = ctx.rng
    run_tx_stream(ctx)
    run_text_stream(ctx)
    run_uuid_stream(ctx)
    run_mc_stream(ctx)
    run_sp_stream(ctx)
    for fn, c in corpus_cases():
        run_table(ctx, c['table'], [(ph.get('mutations', []), ph['queries']) for ph in c['phases']], 'corpus:' + fn)
    n_tables = ctx.budget(550, 14000)
    for _ in range(n_tables):
        tbl = gen_table(rng)
        phases = [(0, 8)] + [(rng.choice([1, 2, 3]), 6) for _ in range(rng.choice([0, 1, 1, 2]))]
        run_table(ctx, tbl, phases, 'random')


def replay(case):
    if 'sp' in case:
        bad = run_sp_scenario(case['sp'])
        return not bad, '%s scenario: %s\n%s' % (case['sp']['kind'], case['sp'], '\n'.join(bad) or 'agrees')
    if 'mc' in case:
        bad = run_mc_scenario(case['mc'])
        return not bad, 'several connections: %s\n%s' % (case['mc'], '\n'.join(bad) or 'agrees')
    if 'tx' in case:
        before, after, err = run_tx_scenario(case['tx'])
        bad = ([err] if err else []) + before + after
        return not bad, 'transaction scenario: %s\n%s' % (case['tx'], '\n'.join(bad) or 'agrees')
    env()
    rp = case['replay']
    tbl = dict(rp['table'])
    cls, oth_ids = load_table(tbl)
    sel = None
    q = case['query']
    out = ('-', 'nothing evaluated', None)
    for st in rp['steps']:
        if st[0] == 'mut':
            apply_mutation(cls, st[1])
        elif st[0] == 'build':
            keep = []
            out = run_impl(cls, dict(st[1], term=['list']), keep)
            sel = keep[0] if keep else None
            if sel is None:
                out = run_impl(cls, q)
        elif st[0] == 'eval' and sel is not None:
            out = eval_term(cls, sel, st[1])
    if not any(st[0] == 'build' for st in rp['steps']):
        out = run_impl(cls, q)
    text, res, ids = out
    rows = raw_rows(cls)
    gs = [g for _, g in raw_oth()]
    exp = oracle(case['cls'], rows, gs, q)
    fail = check_oracle(None, {'query': q}, exp, res, ids, rows)
    return fail is None, 'history: %s\nquery  : %s\nsql    : %s\nimpl   : %s\ntable  : %s\noracle : %s\n%s' % (
        [st if st[0] != 'build' else ['build'] for st in rp['steps']], case.get('line'), text, res, rows,
        {k: v for k, v in (exp or {}).items() if k != 'rows'}, fail or 'agrees')
