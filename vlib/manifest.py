"""Generate MANIFEST.json from the harness modules' META (run: /venv/bin/python -m vlib.manifest)."""
import importlib
import json
import os
import sys

HERE = os.path.dirname(os.path.dirname(os.path.abspath(__file__)))
sys.path.insert(0, HERE)

NOT_BUILT = 'check not built yet in this round (the Lean model and harness for it are planned in DESIGN.md section 5)'


def main():
    props = [json.loads(l) for l in open(os.path.join(HERE, 'properties.jsonl'))]
    checks, na, engines = [], [], []
    extra_na = {}
    p = os.path.join(HERE, 'not_applicable.json')
    if os.path.exists(p):
        extra_na = json.load(open(p))
    claimed = json.load(open(os.path.join(HERE, 'claimed.json')))
    for pr in props:
        pid = pr['id']
        hp = os.path.join(HERE, 'harness', pid.lower() + '.py')
        if pid in extra_na or not os.path.exists(hp) or pid not in claimed:
            na.append({'property_id': pid, 'reason': extra_na.get(pid, NOT_BUILT)})
            continue
        mod = importlib.import_module('harness.' + pid.lower())
        m = mod.META
        checks.append({
            'property_id': pid,
            'quick_cmd': './check %s --tier quick' % pid,
            'thorough_cmd': './check %s --tier thorough' % pid,
            'evidence_file': 'evidence/%s.json' % pid,
            'replay_cmd_template': './check %s --replay {path}' % pid,
            'engine': 'lean4-model+correspondence',
            'level_claimed': {'category': 'proof', 'text': m['level_text'],
                              'design_ref': 'DESIGN.md section 5 (%s)' % pid},
            'level_note': m['level_note'],
            'technique': m['technique'],
        })
    man = {
        'version': 1,
        'setup_cmd': './setup.sh',
        'hooks': {
            'guard': 'SQLOBJECT_VERIF',
            'enable': 'environment variable SQLOBJECT_VERIF=1 (set by ./check before sqlobject is imported from /repo)',
            'baseline_off_cmd': 'cd /repo && env -u SQLOBJECT_VERIF /venv/bin/python -m pytest -ra -q -p no:cacheprovider --timeout=900 --continue-on-collection-errors',
            'source_commits': json.load(open(os.path.join(HERE, 'hooks.json'))) if os.path.exists(os.path.join(HERE, 'hooks.json')) else [],
            'add_only': True,
        },
        'engines': [{
            'name': 'lean4-model+correspondence',
            'path': 'lean/ (lake project SqlObjVerif), vlib/, harness/',
            'serves_properties': [c['property_id'] for c in checks],
            'kind_free_text': 'Lean 4 theorems about executable models; models tied to /repo by AST extraction of literal tables and by a differential correspondence run (model driver vs real code) on every check',
        }],
        'checks': checks,
        'not_applicable': na,
        'notes': 'Every check is `./check Cnn`: extract -> lake build -> axiom/grep audit -> correspondence + property oracle on the real code -> verdict (DESIGN.md 2.1). Known findings: known_findings.json.',
    }
    with open(os.path.join(HERE, 'MANIFEST.json'), 'w') as f:
        json.dump(man, f, indent=1)
    print('checks:', [c['property_id'] for c in checks])
    print('not_applicable:', [c['property_id'] for c in na])


if __name__ == '__main__':
    main()
